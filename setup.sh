#!/bin/sh
# MANIFEST.setup_cmd: build the harness once so that the Go build cache
# is warm (normal, -race and 386 variants). Offline; files on disk only.
export GOFLAGS=-mod=mod GOPROXY=off GOSUMDB=off GOTOOLCHAIN=local
VERIF_DIR=$(cd "$(dirname "$0")" && pwd)
set -e
mkdir -p "$VERIF_DIR/.build" "$VERIF_DIR/evidence" "$VERIF_DIR/replays"
cp /repo/go.sum "$VERIF_DIR/harness/go.sum"
cd "$VERIF_DIR/harness"
go build -tags verif -o "$VERIF_DIR/.build/vcheck.setup" ./cmd/vcheck
GOARCH=386 go build -tags verif -o "$VERIF_DIR/.build/vcheck.setup.386" ./cmd/vcheck
rm -f "$VERIF_DIR/.build/vcheck.setup" "$VERIF_DIR/.build/vcheck.setup.386"
# self-tests of the reference models (the trusted base): field axioms, spec constants, writer->reader round trips
go test ./ref/ || { echo "reference model self-test FAILED"; exit 1; }
# warm the caches for the C12 variants (instrumented overlay build and -race build)
OV="$VERIF_DIR/.build/setup.ov"
rm -rf "$OV"; mkdir -p "$OV"
go run ./cmd/vinstr -repo /repo -out "$OV" -vsched "$VERIF_DIR/harness/vschedsrc/vsched.go.txt" >/dev/null
go build -overlay "$OV/overlay.json" -tags "verif vsched" -o "$VERIF_DIR/.build/vcheck.setup.sched" ./cmd/vcheck
go build -race -tags verif -o "$VERIF_DIR/.build/vcheck.setup.race" ./cmd/vcheck
rm -rf "$OV" "$VERIF_DIR/.build/vcheck.setup.sched" "$VERIF_DIR/.build/vcheck.setup.race"
echo "setup ok"
