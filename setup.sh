#!/bin/sh
# MANIFEST.setup_cmd: build the harness once so that the Go build cache
# is warm (normal, -race and 386 variants). Offline; files on disk only.
export GOFLAGS=-mod=mod GOPROXY=off GOSUMDB=off GOTOOLCHAIN=local
VERIF_DIR=$(cd "$(dirname "$0")" && pwd)
set -e
mkdir -p "$VERIF_DIR/.build" "$VERIF_DIR/evidence" "$VERIF_DIR/replays"
cp /repo/go.sum "$VERIF_DIR/harness/go.sum"
cd "$VERIF_DIR/harness"
go build -tags verif -o "$VERIF_DIR/.build/vcheck.setup" ./cmd/vcheck
GOARCH=386 go build -tags verif -o "$VERIF_DIR/.build/vcheck.setup.386" ./cmd/vcheck
rm -f "$VERIF_DIR/.build/vcheck.setup" "$VERIF_DIR/.build/vcheck.setup.386"
echo "setup ok"
