#!/usr/bin/env python3
"""usage: tools/mut_eval.py <survivors.jsonl> <out.jsonl> [pkg-prefix ...]
For every mutant that SURVIVED the pinned suite (tools/mut_survivors.py): apply it to /repo's working tree, run the
quick checks that anchor in the mutated package (in a fixed order, stopping at the first that reports a violation),
revert. evidence/ and replays/ are saved before and restored after. Resumable (ids already in <out> are skipped);
stops cleanly between mutants when /tmp/mut_pause exists."""
import sys, json, subprocess, os, shutil, tempfile, re
src, out = sys.argv[1], sys.argv[2]
only = sys.argv[3:]
V = '/verif'
def checks_for(f):
    b = os.path.basename(f)
    if f.startswith('gf2/'): return ['C08']
    if f.startswith('gf2p16/'):
        if b.startswith('matrix'): return ['C11', 'C07', 'C01']
        if b.startswith('t.'): return ['C08', 'C11', 'C09', 'C07']
        return ['C09', 'C11', 'C07', 'C12']
    if f.startswith('rsec16/'): return ['C07', 'C12', 'C05', 'C01']
    if f.startswith('par1/'): return ['C04', 'C10', 'C02', 'C13', 'C19', 'C18', 'C15', 'C14', 'C17']
    if f.startswith('par2/'): return ['C01', 'C03', 'C05', 'C16', 'C13', 'C19', 'C02', 'C06', 'C18', 'C15', 'C14', 'C17']
    return ['C20', 'C17']
done = set()
if os.path.exists(out):
    for l in open(out): done.add(json.loads(l)['id'])
muts = [json.loads(l) for l in open(src)]
muts = [m for m in muts if m['result'] == 'survived' and m['id'] not in done and (not only or any(m['file'].startswith(p) for p in only))]
if subprocess.run(['git', '-C', '/repo', 'diff', '--quiet']).returncode != 0:
    sys.exit('repo working tree not clean')
save = tempfile.mkdtemp(prefix='verif-evsave.', dir='/tmp')
shutil.copytree(V + '/evidence', save + '/evidence')
if os.path.isdir(V + '/replays'): shutil.copytree(V + '/replays', save + '/replays')
fo = open(out, 'a')
try:
    for m in muts:
        if os.path.exists('/tmp/mut_pause'): print('paused'); break
        p = os.path.join('/repo', m['file'])
        orig = open(p, 'rb').read()
        assert orig[m['start']:m['end']].decode() == m['old'], m
        open(p, 'wb').write(orig[:m['start']] + m['new'].encode() + orig[m['end']:])
        caught, ran, sig = None, [], ''
        try:
            for c in checks_for(m['file']):
                r = subprocess.run([V + '/check', c, 'quick'], capture_output=True, text=True, timeout=1200)
                ran.append('%s=%d' % (c, r.returncode))
                if r.returncode == 1:
                    caught = c
                    sig = ';'.join(re.findall(r'signature: (.*)', r.stdout))[:300]
                    break
                if r.returncode == 2:
                    sig = 'build/harness error: ' + (r.stderr or r.stdout)[-200:]
        except subprocess.TimeoutExpired:
            ran.append('timeout')
        finally:
            open(p, 'wb').write(orig)
        m['caught_by'], m['ran'], m['signature'] = caught, ran, sig
        fo.write(json.dumps(m) + '\n'); fo.flush()
        print(m['id'], m['file'], m['line'], m['op'], repr(m['old']), '->', repr(m['new']), caught, sig[:80], flush=True)
finally:
    subprocess.run(['git', '-C', '/repo', 'checkout', '--', '.'])
    shutil.rmtree(V + '/evidence'); shutil.move(save + '/evidence', V + '/evidence')
    if os.path.isdir(save + '/replays'):
        shutil.rmtree(V + '/replays', ignore_errors=True); shutil.move(save + '/replays', V + '/replays')
    shutil.rmtree(save, ignore_errors=True)
