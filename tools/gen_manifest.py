#!/usr/bin/env python3
"""Regenerates /verif/MANIFEST.json from the table below (kept in one place so
the manifest stays valid while checks are added)."""
import json, os, sys
V = os.path.dirname(os.path.dirname(os.path.abspath(__file__)))

# id -> (level category, technique, level text, level note, design ref)
CHECKS = {
 "C08": ("model_checking",
         "bounded-exhaustive enumeration against a reference model (complete over the operand domain)",
         "Complete enumeration of the operand space of the real functions (all 2^32 pairs for Times/Div, all elements for Inverse, all bases x all exponent residues plus exponent classes for Pow; GF(2)[x] on all small and all sparse polynomials), each result compared with an independent shift-and-xor reference. For Times/Div/Inverse/Pow-residues the bound is the whole domain, so the verdict is complete rather than sampled.",
         "Trusted base: ref/gf16 (definition-level arithmetic, self-checked), 128-bit carry-less product; Poly64 operands beyond the enumerated structured families are not covered.",
         "DESIGN.md 3/C08"),
}
NOT_YET = "check not built yet in this round (work in progress; see DESIGN.md section 3 for the planned model-checking harness)"

def main():
    props = [json.loads(l) for l in open(os.path.join(V, "properties.jsonl"))]
    checks, na = [], []
    for p in props:
        i = p["id"]
        if i in CHECKS:
            cat, tech, text, note, ref = CHECKS[i]
            checks.append({
                "property_id": i,
                "quick_cmd": "./check %s quick" % i,
                "thorough_cmd": "./check %s thorough" % i,
                "evidence_file": "/verif/evidence/%s.json" % i,
                "replay_cmd_template": "./check %s --replay {path}" % i,
                "engine": "vcheck",
                "level_claimed": {"category": cat, "text": text, "design_ref": ref},
                "level_note": note,
                "technique": tech,
            })
        else:
            na.append({"property_id": i, "reason": NOT_YET})
    m = {
        "version": 1,
        "setup_cmd": "./setup.sh",
        "hooks": {
            "guard": "verif",
            "enable": "go build -tags verif (the harness module /verif/harness has `replace github.com/akalin/gopar => /repo`, so every check recompiles /repo's working tree with the tag on)",
            "baseline_off_cmd": "cd /repo && GOFLAGS=-mod=mod GOPROXY=off GOSUMDB=off go test -vet=off -count=1 ./...",
            "source_commits": open(os.path.join(V, "tools", "hook_commits.txt")).read().split(),
            "add_only": True,
        },
        "engines": [
            {"name": "vcheck", "path": "/verif/harness", "serves_properties": sorted(CHECKS),
             "kind_free_text": "hand-written explorer: deterministic exhaustive case enumeration sharded over 16 worker processes, deviation-bounded choice-tree DFS, explicit-state BFS over directory states, controlled goroutine scheduler, fault-injecting in-memory filesystem; every explored execution runs the real gopar code and is judged by independent reference models"},
        ],
        "checks": checks,
        "not_applicable": na,
        "notes": "All checks: exit 0 = property held on everything explored (KNOWN-FINDING lines possible), exit 1 + VIOLATION line otherwise, exit 2 = harness/build error. VERIF_SEED perturbs data bytes only; VERIF_BUDGET_S overrides the internal time budget (on expiry: exit 0 with exhaustive=false).",
    }
    if not na:
        del m["not_applicable"]
    json.dump(m, open(os.path.join(V, "MANIFEST.json"), "w"), indent=1)
    print("claimed:", len(checks), "not_applicable:", len(na))

main()
