#!/usr/bin/env python3
"""Regenerates /verif/MANIFEST.json from the table below (kept in one place so
the manifest stays valid while checks are added)."""
import json, os, sys
V = os.path.dirname(os.path.dirname(os.path.abspath(__file__)))

# id -> (level category, technique, level text, level note, design ref)
CHECKS = {
 "C08": ("model_checking",
         "bounded-exhaustive enumeration against a reference model (complete over the operand domain)",
         "Complete enumeration of the operand space of the real functions (all 2^32 pairs for Times/Div, all elements for Inverse, all bases x all exponent residues plus exponent classes for Pow; GF(2)[x] on all small and all sparse polynomials), each result compared with an independent shift-and-xor reference. For Times/Div/Inverse/Pow-residues the bound is the whole domain, so the verdict is complete rather than sampled.",
         "Trusted base: ref/gf16 (definition-level arithmetic, self-checked), 128-bit carry-less product; Poly64 operands beyond the enumerated structured families are not covered.",
         "DESIGN.md 3/C08"),
}

MC="bounded-exhaustive enumeration of executions of the real code against a reference model"
def form_b(text, note, ref):
    return ("model_checking", MC, text, note, ref)
CHECKS.update({
 "C01": form_b("Every scenario in a stated bounded space (core grid full product; all <=2 (thorough <=3) combinations of damage operators from a full menu around default sets; structured large sets) runs gopar's real Create, Verify and Repair on an owned in-memory filesystem; the verdict of each execution comes from an independent brute-force slice scan and a reference Vandermonde singularity test. Within the bounds the enumeration is complete, not sampled.",
   "Trusted base: ref/rpar2, ref/scan, ref/lin, ref/gf16, envfs. File contents are fixed patterns perturbed by the seed; sizes beyond the structured large cases are not covered.", "DESIGN.md 3/C01"),
 "C03": form_b("Same scenario space as C01 with the operators that keep all slices findable while files are wrong as first-class members; every Verify result is compared with the byte-level truth and the brute-force scan (clean => intact, soundness and completeness inequalities, parity-block count, RepairPossible consistency).",
   "Trusted base as C01. Recovery files are only deleted here (corruption of recovery files is C13/C19).", "DESIGN.md 3/C03"),
 "C04": form_b("Full product over small PAR1 sets (files x sizes x volumes x every per-file damage assignment x every subset of deleted volumes) plus all <=2-deviation scenarios around Unicode-named, >16 KiB, 20-40-file and 10/98/99-volume sets; real Create/Verify/Verify(all)/Repair; counts compared with byte truth, must-succeed decided by a reference GF(2^8) rank computation.",
   "Trusted base: ref/gf8, envfs, byte comparison. Depends on klauspost/reedsolomon selecting the first present shards.", "DESIGN.md 3/C04"),
 "C16": form_b("Full product slice size x file length x insert/delete x every position x every edit length x second file, plus every pair for content-under-another-name; the recovery files are pruned to exactly the number of slices the edit destroys, so Repair succeeding proves no found slice consumed a block; Verify's usable count must equal the brute-force scan.",
   "Trusted base: ref/scan and edit geometry (cross-checked against each other as an upper bound). High-entropy content only (low-entropy classes are in C01/C03 under the ambiguity rule).", "DESIGN.md 3/C16"),
})
CHECKS.update({
 "C02": form_b("All combinations of <=2 (thorough <=3) operators from a menu of data damage and recovery-file damage (well-formed file with wrong blocks from the reference writer, flipped payload, truncation, emptied, foreign set, deleted), double-check on/off, with unrelated and look-alike files beside the set; PAR1 full product of per-file x per-volume damage; Create on a size grid. The recorder of the owned filesystem is the observation point: every write's path and bytes, the listed result, and a byte-for-byte snapshot diff of everything else.",
   "Trusted base: envfs recorder; a source lint asserts par1/par2 reach the OS only through defaultFileIO. Real-disk effects (permissions, directories in place of files) are not modelled here.", "DESIGN.md 3/C02"),
 "C05": form_b("Bounded-exhaustive Create configurations; every written file is parsed by an independent strict PAR2 reader and compared field by field with a reference set built from the specification, including every recovery block recomputed with the reference field arithmetic.",
   "Trusted base: ref/rpar2 + ref/gf16; spec reading assumptions listed in evidence.", "DESIGN.md 3/C05"),
 "C06": form_b("Reference-writer layouts on real directories through the exported API: default, every single deviation and all pairs (thorough: all permutations and triples) over packet order, duplication, exponent sets, volume distribution and naming (glob metacharacters, spaces), base names, foreign/unknown packets, volume core-packet variants, sub-directory names and damage; differential against gopar's own canonical set plus reference expectation.",
   "Trusted base: ref/rpar2 writer, ref/scan, ref/lin. Layouts stay inside the envelope stated in the property's quantifier.", "DESIGN.md 3/C06"),
 "C13": ("fault_enumeration", "exhaustive fault enumeration (every byte offset / bit / crash prefix of a small set) against soundness oracles",
   "Every file of a small PAR2 and PAR1 set x every truncation offset x every bit flip x garbage/empty/delete, subsets of deletions, pairs; header-dense enumeration on larger sets; every prefix of Create's recorded write sequence with the last write torn at every byte/boundary. Each resulting directory is handed to the real Verify and Repair; no panic/hang, soundness of whatever is reported usable, and the C02 write oracle.",
   "Trusted base: envfs, ref readers (incl. a resynchronising packet scanner for 'intact recovery packets'), brute-force scan.", "DESIGN.md 3/C13"),
})
CHECKS.update({
 "C14": ("model_checking", "explicit-state breadth-first search of the directory-state graph; every transition executes the real Verify/Repair",
   "Breadth-first search to closure of the reachable directory-state graph (files x content variants x recovery files present/absent) under damage, restore, delete/restore-volume, Verify, Repair and Repair+double-check events. Successor states of Verify/Repair are computed by the real implementation on a fresh filesystem built from the state; invariants (Verify is the identity and a function of the state, successful Repair is clean and idempotent in both modes, failed Repair never worsens a file, convergence once all recovery files are back) are evaluated on every transition. States, transitions and depth are reported.",
   "The model is the implementation (no separate model to validate). State abstraction = exact directory contents; content variants are a fixed alphabet of 7 (PAR1: 5) per file.", "DESIGN.md 3/C14"),
 "C18": ("fault_enumeration", "exhaustive fault injection at every I/O call index (singly and in pairs) on an owned filesystem",
   "For every operation, archive state and listing order, a fault of each kind is injected at each I/O call index of the never-faulted run, and for each of those every second fault in the re-run; each history ends with a fault-free re-run compared against the never-faulted run. All histories within the bound (2 faults) are enumerated.",
   "Faults are injected at the fileIO seam via the build-tagged wrappers; torn writes leave a prefix. Listing-order choice covers 3 of the n! orders.", "DESIGN.md 3/C18"),
})
CHECKS.update({
 "C07": form_b("Both coders x every small (d,p) x every subset of missing data shards x every subset of missing parity shards x shard lengths x goroutine counts, plus a structured large code whose 2-erasure systems include the construction's singular pairs, and the documented limits; each reconstruction judged by the reference determinant of the system the statement names (lowest available rows x missing columns).",
   "Trusted base: ref/gf16, ref/lin. Shard bytes are seed-perturbed patterns; codes beyond (8,6) only through the structured family.", "DESIGN.md 3/C07"),
 "C09": form_b("For every dispatch path (SSSE3 asm, scalar asm with the dispatch flag forced off, portable Go, little-endian cast path, word-slice kernels, and the real non-amd64 dispatch in a GOARCH=386 build run as extra workers) the sweep over every constant x every word value is complete; shapes enumerate every even length up to 200 plus lengths around 2^16 and 2^17 at every alignment pair, with buffers carved against PROT_NONE guard pages and canaries so that any out-of-bounds access is observed.",
   "Trusted base: ref/gf16; guard pages + debug.SetPanicOnFault; the hook that forces the dispatch flag. No real CPU without SSSE3 and no big-endian host.", "DESIGN.md 3/C09"),
 "C11": form_b("Every n x n matrix over small alphabets (n<=4, up to 3^16 in thorough), every permutation (x diagonal) up to n=7, structured families for n up to 100/300 with the singular row / needed swap / zero column at every position; Inverse, RowReduceForInverse and Times judged by a reference determinant/adjugate (small) or reference elimination and products (large); operands compared before/after.",
   "Trusted base: ref/lin + ref/gf16. Dense random-looking matrices above n=4 only as structured families.", "DESIGN.md 3/C11"),
})
CHECKS.update({
 "C12": ("model_checking", "stateless schedule exploration of the real goroutines under a controlled scheduler (preemption-bounded DFS), plus bounded-exhaustive partition arithmetic",
   "The concurrent sources are instrumented from the current tree (AST rewriting: sync->shim, go->shim.Go, yields, kernel-call wrappers) and injected with go build -overlay; a cooperative scheduler then enumerates EVERY interleaving of the worker goroutines at kernel-call granularity and every interleaving with <=2 (thorough <=3) preemptions at statement granularity, for encode and reconstruct configurations; each execution is checked against the single-goroutine bytes and for conflicting memory accesses between workers. The goroutine-count dimension is a full product (every even length 2..600 x g 1..40), par2 Create/Repair are compared for g=1..12, and the same bodies run free under the race detector in a separate -race build.",
   "Scheduler is sequentially consistent; weak memory only via the race-detector side pass. Unsupported constructs (channels, atomics) are reported and make the run non-exhaustive.", "DESIGN.md 3/C12"),
})
CHECKS.update({
 "C10": form_b("Writer direction: full product of small sets (files x sizes x volumes x name families) plus >16 KiB and 98/99-volume sets, every written file parsed by a strict independent PAR 1.0 reader and every parity byte recomputed with the reference GF(2^8). Reader direction: reference-written sets over every status bitmask of 1-4 entries x comments x names with surrogate pairs x every subset of damaged saved files x every subset of missing volumes, plus volumes with valid hashes but wrong parity; real Verify(all) and Repair judged by the reference numbering of saved files.",
   "Trusted base: ref/rpar1, ref/gf8, envfs.", "DESIGN.md 3/C10"),
 "C15": form_b("Every declared name from a component alphabet up to length 3 (thorough 4) with leading/trailing slash variants plus special spellings and absolute paths, in each position, for PAR1 and PAR2 archives written by the reference writers as fully repairable sets with missing files; recorder-based check of every write path on the in-memory filesystem for all names, and byte snapshots of a canary tree around a real archive directory for the short names; PAR2 Create with outside inputs in 10 spellings.",
   "Linux path semantics. The in-memory filesystem models ancestors of files as directories (EISDIR), like a real one.", "DESIGN.md 3/C15"),
 "C17": form_b("Full product on real directories of permutations of the input list x goroutine counts x working directories x path spellings, through the library (with chdir) and through the built par command, each output compared byte-for-byte with a baseline run.",
   "Contents, relative names, slice size and block count fixed; 1-4 files.", "DESIGN.md 3/C17"),
 "C19": form_b("Reference writers emit well-checksummed archives with one or two semantic mutations drawn from a table covering every numeric field of every PAR2 packet type (incl. the length field, which the packet hash does not cover) and of the PAR1 header and entries at boundary values, removal/duplication of packets and entries, inconsistent lists; applied to index/volumes/both x three data states; real Verify and Repair; no panic/crash/hang, allocation bound, truthfulness bounds derived from what the mutated archive itself declares, and every write checked against the archive's own hash.",
   "Slice sizes of 2^31-class are not executed (legitimate proportional allocation); one known finding (slice size near 2^63) is listed in known_findings.jsonl.", "DESIGN.md 3/C19"),
 "C20": form_b("Full product through the built par binary of command spellings and flags x archive states x invocation directories for PAR1 and PAR2, plus usage errors and unknown extensions; exit status judged by byte-level truth of the directory and a reference capacity computation, one-directionally as the statement is written.",
   "Trusted base: byte comparison, ref/scan, library re-verification after create.", "DESIGN.md 3/C20"),
})
NOT_YET = "check not built yet in this round (work in progress; see DESIGN.md section 3 for the planned model-checking harness)"

def main():
    props = [json.loads(l) for l in open(os.path.join(V, "properties.jsonl"))]
    checks, na = [], []
    for p in props:
        i = p["id"]
        if i in CHECKS:
            cat, tech, text, note, ref = CHECKS[i]
            checks.append({
                "property_id": i,
                "quick_cmd": "./check %s quick" % i,
                "thorough_cmd": "./check %s thorough" % i,
                "evidence_file": "/verif/evidence/%s.json" % i,
                "replay_cmd_template": "./check %s --replay {path}" % i,
                "engine": "vcheck",
                "level_claimed": {"category": cat, "text": text, "design_ref": ref},
                "level_note": note,
                "technique": tech,
            })
        else:
            na.append({"property_id": i, "reason": NOT_YET})
    m = {
        "version": 1,
        "setup_cmd": "./setup.sh",
        "hooks": {
            "guard": "verif",
            "enable": "go build -tags verif (the harness module /verif/harness has `replace github.com/akalin/gopar => /repo`, so every check recompiles /repo's working tree with the tag on)",
            "baseline_off_cmd": "cd /repo && GOFLAGS=-mod=mod GOPROXY=off GOSUMDB=off go test -vet=off -count=1 ./...",
            "source_commits": open(os.path.join(V, "tools", "hook_commits.txt")).read().split(),
            "add_only": True,
        },
        "engines": [
            {"name": "vcheck", "path": "/verif/harness", "serves_properties": sorted(CHECKS),
             "kind_free_text": "hand-written explorer: deterministic exhaustive case enumeration sharded over 16 worker processes, deviation-bounded choice-tree DFS, explicit-state BFS over directory states, controlled goroutine scheduler, fault-injecting in-memory filesystem; every explored execution runs the real gopar code and is judged by independent reference models"},
        ],
        "checks": checks,
        "not_applicable": na,
        "notes": "All checks: exit 0 = property held on everything explored (KNOWN-FINDING lines possible), exit 1 + VIOLATION line otherwise, exit 2 = harness/build error. VERIF_SEED perturbs data bytes only; VERIF_BUDGET_S overrides the internal time budget (on expiry: exit 0 with exhaustive=false).",
    }
    if not na:
        del m["not_applicable"]
    json.dump(m, open(os.path.join(V, "MANIFEST.json"), "w"), indent=1)
    print("claimed:", len(checks), "not_applicable:", len(na))

main()
