#!/bin/sh
# usage: tools/seed_eval.sh <ID> <outdir> <pkgdir> <demo-file-basename> <run-regex> <check IDs...>
ID=$1; OUT=$2; PKG=$3; DEMO=$4; RUN=$5; shift 5
V=$(cd "$(dirname "$0")/.." && pwd)
"$V/tools/seed_confirm.sh" "$ID" "$OUT" 2>&1 | grep -vE "^   ok" | tail -4
"$V/tools/seed_demo.sh" "$ID" "$PKG" "$OUT/$DEMO" "$RUN"
"$V/tools/seed_run_checks.sh" "$OUT/patch.diff" "$@"
git -C /repo worktree remove --force /tmp/seedchk-$ID 2>/dev/null
