#!/usr/bin/env python3
"""usage: tools/seed_auto.py <ID> <outdir> <check IDs...>
Confirms a seeded change (scratch worktree: builds, pinned suite passes, demonstration fails with / passes without),
then runs the given checks against it on /repo (apply, run, revert). Package directory and -run pattern are taken
from HOWTO.txt."""
import sys, os, re, subprocess, glob, json
ID, OUT = sys.argv[1], sys.argv[2]
checks = sys.argv[3:]
V = '/verif'
env = dict(os.environ, GOFLAGS='-mod=mod', GOPROXY='off', GOSUMDB='off', GOTOOLCHAIN='local')
howto = open(os.path.join(OUT, 'HOWTO.txt')).read() if os.path.exists(os.path.join(OUT, 'HOWTO.txt')) else ''
demos = sorted(glob.glob(os.path.join(OUT, '*_test.go')))
pk = {}
for d in demos:
    b = os.path.basename(d)
    m = re.search(re.escape(b) + r'\s+\S*/seed\d?-C\d+/([\w/]+?)/?(\s|$)', howto)
    if m:
        pk[d] = m.group(1)
    else:
        head = open(d).read(400)
        m2 = re.search(r'^package (\w+)', head, re.M)
        name = m2.group(1).replace('_test', '') if m2 else 'par2'
        pk[d] = {'main': 'cmd/par'}.get(name, name)
runs = re.findall(r'-run[ =]\'?"?([\w|^$.()]+)', howto)
run = runs[0] if runs else 'Test'
wt = '/tmp/seedchk-' + ID
subprocess.run(['git', '-C', '/repo', 'worktree', 'remove', '--force', wt], capture_output=True)
subprocess.run(['git', '-C', '/repo', 'worktree', 'add', '-q', '--detach', wt, 'HEAD'], check=True)
def sh(cmd, cwd=wt):
    return subprocess.run(cmd, shell=True, cwd=cwd, env=env, capture_output=True, text=True)
r = sh('git apply %s/patch.diff' % OUT)
if r.returncode != 0:
    print('PATCH DOES NOT APPLY', r.stderr); sys.exit(2)
print('files:', sh('git diff --stat | tail -1').stdout.strip())
bad = sh("git diff --name-only | grep -E '_test.go|verif_hooks'").stdout.strip()
if bad: print('TOUCHES TESTS/HOOKS:', bad)
r = sh('go build ./... && go test -vet=off -count=1 ./... 2>&1 | grep -v "no test files" | grep -v "^ok"')
print('suite:', 'PASS' if r.stdout.strip() == '' and r.returncode in (0,1) and 'FAIL' not in r.stdout else 'FAIL\n' + r.stdout[-800:] + r.stderr[-400:])
pkgs = sorted(set(pk.values()))
def demo():
    for d, p in pk.items():
        sh('cp %s %s/%s/' % (d, wt, p))
    res = sh('go test -vet=off -count=1 -run "%s" %s 2>&1 | tail -3' % (run, ' '.join('./%s/' % p for p in pkgs)))
    for d, p in pk.items():
        os.remove(os.path.join(wt, p, os.path.basename(d)))
    return res.stdout.strip().replace('\n', ' | ')
print('demo with patch   :', demo()[-160:])
sh('git apply -R %s/patch.diff' % OUT)
print('demo without patch:', demo()[-160:])
subprocess.run(['git', '-C', '/repo', 'worktree', 'remove', '--force', wt], capture_output=True)
if checks:
    r = subprocess.run([V + '/tools/seed_run_checks.sh', OUT + '/patch.diff'] + checks, capture_output=True, text=True)
    print(r.stdout.strip())
    if r.returncode: print(r.stderr[-300:])
print('meta:', json.load(open(os.path.join(OUT,'meta.json'))).get('summary','')[:300])
