#!/usr/bin/env python3
"""Regenerates /verif/seeded/README.md from the meta.json files."""
import os, json, glob, re
root = '/verif/seeded'
head = open(os.path.join(root, 'README.md')).read().split('| dir |')[0]
rows = []
def key(d):
    m = re.match(r'C(\d+)(?:-r(\d+))?', d)
    return (int(m.group(1)), int(m.group(2) or 1))
for d in sorted([x for x in os.listdir(root) if re.match(r'C\d+', x)], key=key):
    m = json.load(open(os.path.join(root, d, 'meta.json')))
    esc = lambda s: str(s).replace('|', '/').replace('\n', ' ')
    caught = '; '.join(m.get('confirmed', {}).get('caught_by', []))
    rows.append('| `%s/` | %s | %s | %s | %s |' % (d, esc(m.get('property', d[:3])), esc(m.get('summary', '')), esc(m.get('needs', '')), esc(caught)))
open(os.path.join(root, 'README.md'), 'w').write(head + '| dir | property | change | needs | caught by |\n|---|---|---|---|---|\n' + '\n'.join(rows) + '\n')
print(len(rows), 'seeds')
