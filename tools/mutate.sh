#!/bin/sh
# usage: tools/mutate.sh <patch.diff> <ID> [<ID> ...]   (env TIER=quick|thorough, TESTS=1 to also run the repo tests)
# Applies a property-breaking patch to /repo's working tree, runs the given
# checks, and always reverts the tree.
P=$(cd "$(dirname "$1")" && pwd)/$(basename "$1"); shift
V=$(cd "$(dirname "$0")/.." && pwd)
TIER=${TIER:-quick}
git -C /repo diff --quiet || { echo "repo working tree not clean"; exit 2; }
git -C /repo apply "$P" || { echo "patch does not apply"; exit 2; }
SAVE=$(mktemp -d /tmp/verif-evsave.XXXXXX)
cp -a "$V/evidence" "$SAVE/evidence"; [ -d "$V/replays" ] && cp -a "$V/replays" "$SAVE/replays"
trap 'git -C /repo checkout -- . ; git -C /repo clean -fdq; rm -rf "$V/evidence" "$V/replays"; mv "$SAVE/evidence" "$V/evidence"; [ -d "$SAVE/replays" ] && mv "$SAVE/replays" "$V/replays"; rm -rf "$SAVE"' EXIT INT TERM
if [ -n "$TESTS" ]; then
  (cd /repo && GOFLAGS=-mod=mod GOPROXY=off GOSUMDB=off go test -vet=off -count=1 ./... 2>&1 | grep -v "no test files" | sed 's/^/   [repo tests] /')
fi
for id in "$@"; do
  out=$("$V/check" "$id" "$TIER" 2>&1); rc=$?
  echo "== $(basename "$P") $id $TIER: exit $rc"
  echo "$out" | grep -E "^VIOLATION|signature:|BUILD FAILED|HARNESS" | head -8 | sed 's/^/   /'
done
