#!/bin/sh
# usage: tools/seed_confirm.sh <ID> [<outdir>]
# Confirms, in a scratch worktree (never in /repo), that a seeded change applies, compiles and
# passes the repository's own tests. Leaves the worktree at /tmp/seedchk-<ID> (patch applied) for
# running the demonstration; remove it afterwards with:  git -C /repo worktree remove --force /tmp/seedchk-<ID>
export GOFLAGS=-mod=mod GOPROXY=off GOSUMDB=off GOTOOLCHAIN=local
ID=$1
OUT=${2:-/tmp/seed-$ID-out}
WT=/tmp/seedchk-$ID
git -C /repo worktree remove --force "$WT" 2>/dev/null
git -C /repo worktree add -q --detach "$WT" HEAD || exit 2
git -C "$WT" apply "$OUT/patch.diff" || { echo "PATCH DOES NOT APPLY"; exit 2; }
echo "--- files changed:"; git -C "$WT" diff --stat | cat
if git -C "$WT" diff --name-only | grep -E "_test.go|verif_hooks" ; then echo "TOUCHES TESTS OR HOOKS"; fi
(cd "$WT" && go build ./... ) || { echo "DOES NOT BUILD"; exit 2; }
(cd "$WT" && go test -vet=off -count=1 ./... 2>&1 | grep -v "no test files") | sed 's/^/   /'
