#!/usr/bin/env python3
"""usage: tools/seed_store.py <seed-id> <outdir> <caught-by...>   e.g. C02 /tmp/seed-C02-out "C02:repair-write-not-listed" "C18:..."
Copies a confirmed seeded change into /verif/seeded/<seed-id>/ and extends meta.json with what was run."""
import sys, os, json, shutil, glob
sid, out = sys.argv[1], sys.argv[2]
caught = sys.argv[3:]
dst = os.path.join('/verif/seeded', sid)
os.makedirs(dst, exist_ok=True)
for f in glob.glob(os.path.join(out, '*')):
    if os.path.isdir(f):
        shutil.copytree(f, os.path.join(dst, os.path.basename(f)), dirs_exist_ok=True)
    else:
        shutil.copy(f, dst)
mp = os.path.join(dst, 'meta.json')
m = json.load(open(mp))
m['confirmed'] = {
    'how': 'applied patch.diff in a scratch worktree of /repo HEAD (tools/seed_confirm.sh): go build ./... and the whole pinned suite pass; the demonstration (copied into the package directory, tools/seed_demo.sh) FAILS with the patch and PASSES without it',
    'checks_run': 'tools/seed_run_checks.sh patch.diff <IDs> (git -C /repo apply; ./check <ID> quick; git -C /repo checkout -- .)',
    'caught_by': caught,
}
json.dump(m, open(mp, 'w'), indent=1)
print('stored', dst)
