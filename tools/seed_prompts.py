#!/usr/bin/env python3
"""usage: tools/seed_prompts.py <round> <outdir>
Writes one prompt per property for a round of independent seeded-change agents. Each prompt contains only the
property's text, the agent's scratch worktree and the list of ideas used in earlier rounds (from seeded/*/meta.json)."""
import sys, os, json, glob, re
rnd, out = int(sys.argv[1]), sys.argv[2]
os.makedirs(out, exist_ok=True)
props = [json.loads(l) for l in open('/verif/properties.jsonl')]
used = {}
for d in sorted(glob.glob('/verif/seeded/C*')):
    m = json.load(open(d + '/meta.json'))
    pid = os.path.basename(d)[:3]
    used.setdefault(pid, []).append((m.get('summary', ''), m.get('files', [])))
KINDS = [
 "state carried from one call to the next inside one process or one object: package-level variables, caches, pools, memo tables, re-used Encoder/Decoder/Coder objects, buffers whose capacity outlives a call. A single call in a fresh process must stay correct.",
 "a value sitting EXACTLY on a limit of the format or of an integer width (counts, sizes, exponents, offsets, name lengths, volume numbers) where the neighbours on both sides stay correct.",
 "an unusual PLACEMENT of otherwise ordinary inputs: sub-slices of larger buffers, odd addresses, aliasing/overlapping buffers, capacity beyond length, duplicate or nested or look-alike names, files that are prefixes/suffixes of each other.",
 "a specific answer of the environment: a short or failing read/write at one particular call, a directory where a file is expected, the order in which a directory listing is returned, pre-existing files with conflicting names, a working directory different from the archive's.",
 "a rarely used combination of options or code path: DoubleCheck / VerifyAllData / -a, goroutine counts of 1 or far larger than the work, the non-SSSE3 dispatch path, the staged exported API (NewEncoder/NewDecoder and their methods) used in a legitimate but unusual order.",
 "two cooperating sites that each look fine alone: one site establishes an invariant (an ordering, a padding, a length, an index base, a normalisation) that another site relies on, and your change makes them disagree only for a rare shape of input. Say in meta.json which two sites.",
 "an error path: what is left behind AFTER an error was returned or a fault happened (partially updated state, a retry of the same call, cleanup, the next call on the same object or directory). The first, failing call must itself still behave correctly.",
 "the INTERACTION of two features that are each tested alone: e.g. sub-directories x displaced slices, non-saved PAR1 entries x missing volumes, duplicate slices x several goroutines, comment packets x unknown packets, Unicode names x repair, empty files x anything.",
]
NOTES = {
 'C03': "the defect must be in what the library's Verify reports (par2 package), not in the command-line front end.",
 'C04': "the defect must be observable through Verify / Repair of a PAR1 set, not only through the staged Encoder API.",
 'C05': "the defect must show in the bytes Create writes for given inputs, not in how the command line or working directory resolves path spellings (another property covers that).",
 'C06': "stay inside the quantifier: recovery-block exponents of at most a few thousand (never above 65534); and the trigger must be a LAYOUT a conformant writer can produce - stray files that are empty, truncated or garbage are damage (another property, which accepts an error), so a change that merely turns such a file into an error does not break this property.",
 'C08': "if the prescribed trigger kind cannot apply to pure arithmetic, an operand-only defect in a function or operand region not attacked before is acceptable.",
 'C13': "the trigger must be one of the corruptions the statement names (bit flips, truncation, garbage, emptied or deleted files, an interrupted Create) applied to an index, recovery or data file.",
 'C15': "a change that only READS outside the directory does not break this property; it must create, modify or delete something outside.",
 'C16': "the defect must show in a single Verify or Repair call on a directory (that is what the statement quantifies over), not only when a Decoder object is re-used.",
 'C20': "the property is about the exit status of the `par` command, one process per invocation: the defect must be observable by running the built command (possibly several times on the same directory), not only through library calls inside one process.",
}
for i, p in enumerate(props):
    pid = p['id']
    wt = '/tmp/seed%d-%s' % (rnd, pid)
    o = wt + '-out'
    kind = KINDS[(i * 3 + rnd) % len(KINDS)] if rnd >= 7 else KINDS[(i + rnd) % 5]
    own = '\n'.join('- %s (files: %s)' % (s[:330], ', '.join(f)) for s, f in used.get(pid, []))
    others = '\n'.join('- [%s] %s' % (q, s[:125]) for q in sorted(used) if q != pid for s, f in used[q])
    anchored = p.get('code_anchors') or p.get('anchors') or p.get('code') or ''
    if isinstance(anchored, dict): anchored = ', '.join(anchored.get('files', []))
    if isinstance(anchored, list): anchored = ', '.join(anchored)
    quant = p.get('quantifier', '')
    if isinstance(quant, dict): quant = quant.get('text', '')
    t = f"""You are helping to evaluate a verification harness by writing a *seeded defect* for an open-source Go project. Work ONLY inside your own scratch git worktree `{wt}` (a checkout of the repository akalin/gopar: a Go implementation of the PAR1/PAR2 parity-archive formats with its own GF(2^16) arithmetic, SIMD kernels, Reed-Solomon coder and a `par` CLI). Do NOT read or write anything under /verif or /repo — in particular do not look at /verif at all; your work must be independent of it. Put your deliverables in `{o}` (create it).

Every shell command must start with: `export GOFLAGS=-mod=mod GOPROXY=off GOSUMDB=off GOTOOLCHAIN=local` (the sandbox has no network; the default `go` is 1.23).

The property that the code currently satisfies:

  ID: {pid}
  Title: {p.get('title','')}
  Statement: {p.get('statement','')}
  Quantified over: {quant}
  Code it is anchored in: {anchored}

Your task: make ONE realistic change to the non-test source code in `{wt}` that BREAKS this property, such that
  1. the repository still compiles (`go build ./...`) and the ENTIRE existing test suite still passes unedited (`cd {wt} && go test -vet=off -count=1 ./...` — run it and confirm);
  2. the breakage needs something specific to manifest — NOT something ordinary use would expose at once. It should look like a plausible bug a maintainer could introduce (an off-by-one, a wrong boundary, a dropped check, a shared buffer, a reordered statement, a wrong constant for a rare case, an optimisation that is wrong in one situation...), not sabotage;
  3. do not edit or add tests in the repository's own test files, do not touch files named verif_hooks*.go, and keep the change small (a few lines, at most ~25).

Then write a DEMONSTRATION: a new Go test file (or small Go program) that you place in `{o}` (it may be copied into the appropriate package directory of the worktree to run; say where) which FAILS with your change applied and PASSES on the unchanged code. Verify both directions yourself (to flip, save your change with `git diff > /tmp/seed{rnd}-{pid}.diff` and use `git apply -R` / `git apply` of that file; do NOT use `git stash`: the stash is shared between all worktrees of this repository and other people are working in sibling worktrees).

Deliverables in `{o}`:
  - `patch.diff`  : output of `git -C {wt} diff` for your change (only the defect, not the demonstration);
  - the demonstration file(s), plus `HOWTO.txt` saying exactly how to run the demonstration (which directory to copy it to, which command; give the command in the form `go test -vet=off -count=1 -run <TestNamePrefix> ./<pkg>/`);
  - `meta.json`   : {{"property": "{pid}", "summary": "<one line: what was changed>", "needs": "<what is needed for it to manifest>", "files": ["<changed files>"], "tests_pass": true, "demo_fails_with_patch": true, "demo_passes_without_patch": true}}

Leave the worktree with your change applied (uncommitted) and without the demonstration file in it. Report back briefly: what you changed, what it needs to manifest, and confirmation of the three checks (suite passes, demo fails with, demo passes without).

IMPORTANT — this is round {rnd}. Earlier independent attempts already used the ideas listed below; anything resembling them is NOT acceptable. Find a genuinely different mechanism in a different function (and preferably a different file, including files nobody has touched yet). Think about which part of the property's statement has NOT been attacked yet, and attack that.
For this round the defect must manifest through: {kind}
Ideas already used for THIS property:
{own}
Ideas already used for OTHER properties of the same code base (avoid these too):
{others}
Never use `git stash` (it is shared with sibling worktrees).
""" + ('Note for this property: ' + NOTES[pid] + '\n' if pid in NOTES else '')
    open(os.path.join(out, pid + '.txt'), 'w').write(t)
print('wrote', len(props), 'prompts to', out)
