#!/usr/bin/env python3
"""usage: tools/seed_batch.py <round> [ID ...]
Evaluates every finished seeded change of a round (/tmp/seed<round>-Cxx-out with meta.json): confirmation in a scratch
worktree (suite passes, demonstration fails with / passes without the patch), then the property's own quick check on
/repo with the patch applied, and - only if that misses - the checks of the neighbouring properties. One summary block
per seed is appended to /tmp/seed<round>-results.txt. Seeds already listed there are skipped."""
import sys, os, subprocess, glob, re
rnd = sys.argv[1]
only = sys.argv[2:]
V = '/verif'
NEIGH = {'C01': ['C03', 'C16', 'C14'], 'C02': ['C18', 'C01'], 'C03': ['C01', 'C20'], 'C04': ['C10', 'C14'], 'C05': ['C12', 'C17'],
         'C06': ['C03', 'C19'], 'C07': ['C11', 'C05'], 'C08': [], 'C09': ['C11'], 'C10': ['C04', 'C14'], 'C11': ['C07'],
         'C12': ['C05', 'C01'], 'C13': ['C19', 'C03'], 'C14': ['C01', 'C04'], 'C15': ['C19'], 'C16': ['C01', 'C14'],
         'C17': ['C05', 'C20'], 'C18': ['C02', 'C13'], 'C19': ['C13', 'C06'], 'C20': ['C04', 'C03', 'C17']}
res = '/tmp/seed%s-results.txt' % rnd
done = open(res).read() if os.path.exists(res) else ''
for out in sorted(glob.glob('/tmp/seed%s-C*-out' % rnd)):
    pid = re.search(r'-(C\d\d)-out', out).group(1)
    if only and pid not in only: continue
    if not os.path.exists(out + '/meta.json') or not os.path.exists(out + '/patch.diff'): continue
    if ('== %s\n' % pid) in done: continue
    def run(checks):
        r = subprocess.run(['timeout', '1500', V + '/tools/seed_auto.py', pid, out] + checks, capture_output=True, text=True)
        return '\n'.join(l[:260] for l in r.stdout.splitlines() if re.search(r'suite|demo|exit=|APPLY|TOUCHES', l))
    txt = run([pid])
    m = re.search(r'^%s exit=(\d+)' % pid, txt, re.M)
    if m and m.group(1) == '0' and NEIGH[pid]:
        r = subprocess.run(['timeout', '1500', V + '/tools/seed_run_checks.sh', out + '/patch.diff'] + NEIGH[pid], capture_output=True, text=True)
        txt += '\n' + '\n'.join(l[:260] for l in r.stdout.splitlines() if 'exit=' in l)
    open(res, 'a').write('== %s\n%s\n' % (pid, txt))
    print('== %s\n%s' % (pid, txt), flush=True)
