#!/bin/sh
# usage: tools/seed_run_checks.sh <patch.diff> [ID ...]   (default: all 20 quick checks)
# Applies the patch to /repo, runs the checks, reverts. Prints one line per check.
P=$1; shift
V=$(cd "$(dirname "$0")/.." && pwd)
IDS="$@"
[ -z "$IDS" ] && IDS="C01 C02 C03 C04 C05 C06 C07 C08 C09 C10 C11 C12 C13 C14 C15 C16 C17 C18 C19 C20"
git -C /repo diff --quiet || { echo "repo working tree not clean"; exit 2; }
git -C /repo apply "$P" || { echo "patch does not apply"; exit 2; }
# evidence / replay files written while the patch is applied do not describe /repo: keep the real ones aside
SAVE=$(mktemp -d /tmp/verif-evsave.XXXXXX)
cp -a "$V/evidence" "$SAVE/evidence"; [ -d "$V/replays" ] && cp -a "$V/replays" "$SAVE/replays"
trap 'git -C /repo checkout -- . ; git -C /repo clean -fdq; rm -rf "$V/evidence" "$V/replays"; mv "$SAVE/evidence" "$V/evidence"; [ -d "$SAVE/replays" ] && mv "$SAVE/replays" "$V/replays"; rm -rf "$SAVE"' EXIT INT TERM
for id in $IDS; do
  out=$("$V/check" "$id" ${TIER:-quick} 2>&1); rc=$?
  sigs=$(echo "$out" | grep "signature:" | sed 's/ *signature: //' | tr '\n' ';' | cut -c1-300)
  echo "$id exit=$rc $sigs"
done
