// mutgen lists simple source mutants of the non-test Go files below a repository directory: one JSON object per line
// {id, file, start, end, old, new, op, line}. A mutant is the file with bytes [start,end) replaced by new.
//
// Operators: relational boundary (< <= > >=), equality (== !=), arithmetic (+ -), logical (&& ||), dropped negation,
// integer literal +-1, "if" guard replaced by false (only guards whose body ends in return/continue/break/panic).
package main

import (
	"encoding/json"
	"fmt"
	"go/ast"
	"go/parser"
	"go/token"
	"os"
	"path/filepath"
	"strconv"
	"strings"
)

type mutant struct {
	ID    int    `json:"id"`
	File  string `json:"file"`
	Start int    `json:"start"`
	End   int    `json:"end"`
	Old   string `json:"old"`
	New   string `json:"new"`
	Op    string `json:"op"`
	Line  int    `json:"line"`
}

func main() {
	root := os.Args[1]
	pkgs := os.Args[2:]
	id := 0
	enc := json.NewEncoder(os.Stdout)
	for _, pkg := range pkgs {
		files, _ := filepath.Glob(filepath.Join(root, pkg, "*.go"))
		for _, f := range files {
			base := filepath.Base(f)
			if strings.HasSuffix(base, "_test.go") || strings.HasPrefix(base, "verif_hooks") {
				continue
			}
			src, err := os.ReadFile(f)
			if err != nil {
				panic(err)
			}
			fset := token.NewFileSet()
			af, err := parser.ParseFile(fset, f, src, 0)
			if err != nil {
				panic(err)
			}
			rel, _ := filepath.Rel(root, f)
			emit := func(start, end token.Pos, nw, op string) {
				s, e := fset.Position(start).Offset, fset.Position(end).Offset
				id++
				enc.Encode(mutant{ID: id, File: rel, Start: s, End: e, Old: string(src[s:e]), New: nw, Op: op, Line: fset.Position(start).Line})
			}
			swap := map[token.Token]string{token.LSS: "<=", token.LEQ: "<", token.GTR: ">=", token.GEQ: ">", token.EQL: "!=", token.NEQ: "==",
				token.ADD: "-", token.SUB: "+", token.LAND: "||", token.LOR: "&&"}
			ast.Inspect(af, func(n ast.Node) bool {
				switch x := n.(type) {
				case *ast.GenDecl:
					if x.Tok == token.IMPORT {
						return false
					}
				case *ast.BinaryExpr:
					if nw, ok := swap[x.Op]; ok {
						emit(x.OpPos, x.OpPos+token.Pos(len(x.Op.String())), nw, "binop:"+x.Op.String())
					}
				case *ast.UnaryExpr:
					if x.Op == token.NOT {
						emit(x.OpPos, x.OpPos+1, "", "drop-not")
					}
				case *ast.BasicLit:
					if x.Kind == token.INT {
						if v, err := strconv.ParseInt(x.Value, 0, 64); err == nil {
							emit(x.Pos(), x.End(), fmt.Sprint(v+1), "int+1")
							if v > 0 {
								emit(x.Pos(), x.End(), fmt.Sprint(v-1), "int-1")
							}
						}
					}
				case *ast.IfStmt:
					if len(x.Body.List) > 0 {
						guard := false
						switch l := x.Body.List[len(x.Body.List)-1].(type) {
						case *ast.ReturnStmt, *ast.BranchStmt:
							guard = true
						case *ast.ExprStmt:
							if c, ok := l.X.(*ast.CallExpr); ok {
								if idn, ok := c.Fun.(*ast.Ident); ok && idn.Name == "panic" {
									guard = true
								}
							}
						}
						if guard && x.Init == nil {
							emit(x.Cond.Pos(), x.Cond.End(), "false", "guard-off")
						}
					}
				}
				return true
			})
		}
	}
}
