module mutgen

go 1.23
