#!/bin/sh
# usage: tools/seed_demo.sh <ID> <pkgdir> <demo-file> <go test -run regex>
# Runs the demonstration in the scratch worktree /tmp/seedchk-<ID> with the patch applied and reverted.
export GOFLAGS=-mod=mod GOPROXY=off GOSUMDB=off GOTOOLCHAIN=local
ID=$1; PKG=$2; DEMO=$3; RUN=$4
WT=/tmp/seedchk-$ID
cp "$DEMO" "$WT/$PKG/" || exit 2
echo "--- with patch:"
(cd "$WT" && go test -vet=off -count=1 -run "$RUN" ./$PKG/ 2>&1 | tail -3)
git -C "$WT" stash -q
cp "$DEMO" "$WT/$PKG/"
echo "--- without patch:"
(cd "$WT" && go test -vet=off -count=1 -run "$RUN" ./$PKG/ 2>&1 | tail -3)
rm -f "$WT/$PKG/$(basename $DEMO)"
git -C "$WT" stash pop -q
