#!/usr/bin/env python3
"""usage: tools/mut_survivors.py <mutants.jsonl> <out.jsonl> [workers]
For every mutant (tools/mutgen): apply it in a scratch worktree of /repo, build, run the pinned suite; classify as
build-fail / test-fail / timeout / survived. Worktrees /tmp/mutwt-<k> are created and removed here."""
import sys, json, subprocess, os, threading, queue
src, out = sys.argv[1], sys.argv[2]
W = int(sys.argv[3]) if len(sys.argv) > 3 else 16
env = dict(os.environ, GOFLAGS='-mod=mod', GOPROXY='off', GOSUMDB='off', GOTOOLCHAIN='local')
muts = [json.loads(l) for l in open(src)]
q = queue.Queue()
for m in muts: q.put(m)
lock = threading.Lock()
fo = open(out, 'w')
def worker(k):
    wt = '/tmp/mutwt-%d' % k
    subprocess.run(['git', '-C', '/repo', 'worktree', 'remove', '--force', wt], capture_output=True)
    subprocess.run(['git', '-C', '/repo', 'worktree', 'add', '--detach', wt, 'HEAD'], capture_output=True, check=True)
    try:
        while True:
            try: m = q.get_nowait()
            except queue.Empty: break
            p = os.path.join(wt, m['file'])
            orig = open(p, 'rb').read()
            assert orig[m['start']:m['end']].decode() == m['old'], m
            open(p, 'wb').write(orig[:m['start']] + m['new'].encode() + orig[m['end']:])
            res = 'survived'
            try:
                pkg = './' + os.path.dirname(m['file']) + '/'
                b = subprocess.run(['go', 'build', './...'], cwd=wt, env=env, capture_output=True, timeout=120)
                if b.returncode != 0: res = 'build-fail'
                else:
                    # own process group, so that a looping test binary dies with its `go test` parent on timeout
                    pr = subprocess.Popen(['go', 'test', '-vet=off', '-count=1', './...'], cwd=wt, env=env, stdout=subprocess.DEVNULL, stderr=subprocess.DEVNULL, start_new_session=True)
                    try:
                        if pr.wait(timeout=120) != 0: res = 'test-fail'
                    except subprocess.TimeoutExpired:
                        import signal
                        os.killpg(pr.pid, signal.SIGKILL)
                        pr.wait()
                        res = 'timeout'
            except subprocess.TimeoutExpired:
                res = 'timeout'
            open(p, 'wb').write(orig)
            m['result'] = res
            with lock:
                fo.write(json.dumps(m) + '\n'); fo.flush()
    finally:
        subprocess.run(['git', '-C', '/repo', 'worktree', 'remove', '--force', wt], capture_output=True)
ts = [threading.Thread(target=worker, args=(k,)) for k in range(W)]
for t in ts: t.start()
for t in ts: t.join()
subprocess.run(['git', '-C', '/repo', 'worktree', 'prune'])
