package core

import (
	"bufio"
	"bytes"
	"encoding/json"
	"fmt"
	"io/ioutil"
	"os"
	"os/exec"
	"path/filepath"
	"regexp"
	"runtime"
	"sort"
	"strconv"
	"strings"
	"sync"
	"sync/atomic"
	"time"
)

var digitsRe = regexp.MustCompile(`[0-9]+`)

var registry = map[string]*Prop{}

// Register adds a property check.
func Register(p *Prop) { registry[p.ID] = p }

// Lookup returns a registered property.
func Lookup(id string) *Prop { return registry[id] }

// IDs lists registered property ids.
func IDs() []string {
	var s []string
	for k := range registry {
		s = append(s, k)
	}
	sort.Strings(s)
	return s
}

func envInt(name string, def int) int {
	if v := os.Getenv(name); v != "" {
		if n, err := strconv.Atoi(v); err == nil {
			return n
		}
	}
	return def
}

// Seed returns VERIF_SEED (default 1).
func Seed() int64 {
	if v := os.Getenv("VERIF_SEED"); v != "" {
		if n, err := strconv.ParseInt(v, 10, 64); err == nil {
			return n
		}
	}
	return 1
}

// VerifDir is the /verif directory.
func VerifDir() string {
	if v := os.Getenv("VERIF_DIR"); v != "" {
		return v
	}
	return "/verif"
}

// ScratchBase returns a directory for scratch files (prefers /dev/shm).
func ScratchBase() string {
	if v := os.Getenv("VERIF_SCRATCH"); v != "" {
		return v
	}
	if st, err := os.Stat("/dev/shm"); err == nil && st.IsDir() {
		return "/dev/shm"
	}
	return os.TempDir()
}

// ---------------------------------------------------------------- worker

// WorkerMain runs shard k of n and writes a Summary to outPath.
func WorkerMain(p *Prop, tier string, seed int64, shard, n int, outPath, tracePath string, deadlineUnix int64, skip map[int64]bool) int {
	rec := newRec(tier, seed)
	deadline := time.Unix(deadlineUnix, 0)
	hang := time.Duration(envInt("VERIF_HANG_S", 120)) * time.Second

	var trace *os.File
	if tracePath != "" {
		f, err := os.OpenFile(tracePath, os.O_CREATE|os.O_WRONLY|os.O_TRUNC, 0644)
		if err != nil {
			fmt.Fprintln(os.Stderr, "trace open:", err)
			return 3
		}
		trace = f
		defer f.Close()
	}

	var caseStart int64 // unix nano; 0 = idle
	rec.hb = &caseStart
	var mu sync.Mutex
	writeOut := func(done bool, g *Gen, cases int64) {
		mu.Lock()
		defer mu.Unlock()
		s := rec.summary()
		s.Done = done
		s.Cases = cases
		if g != nil {
			s.Capped = g.Capped
			s.CapNote = g.CapNote
			s.Notes = append(s.Notes, g.NoteList...)
		}
		b, _ := json.Marshal(s)
		ioutil.WriteFile(outPath, b, 0644)
	}

	if p.Setup != nil {
		p.Setup(tier, seed)
	}

	var idx int64
	g := &Gen{Tier: tier, Seed: seed}
	g.stopped = func() bool {
		if time.Now().After(deadline) {
			if !g.Capped {
				g.Capped = true
				g.CapNote = fmt.Sprintf("time budget expired after %d enumerated cases", idx)
			}
			return true
		}
		return false
	}
	go func() { // watchdog
		for {
			time.Sleep(500 * time.Millisecond)
			st := atomic.LoadInt64(&caseStart)
			if st != 0 && time.Since(time.Unix(0, st)) > hang {
				// the case goroutine is stuck: report and die
				rec2 := newRec(tier, seed)
				rec2.cur = rec.cur
				if rec.cur == nil {
					rec2.Violate("hang", fmt.Sprintf("no progress for %v while enumerating cases (the generator executes the code under test for some properties)", hang))
				} else {
					rec2.Violate("hang", fmt.Sprintf("case did not terminate within %v", hang))
				}
				s := rec2.summary()
				s.Done = false
				b, _ := json.Marshal(s)
				ioutil.WriteFile(outPath+".hang", b, 0644)
				os.Exit(4)
			}
		}
	}()
	g.emit = func(c interface{}) {
		my := idx%int64(n) == int64(shard)
		myIdx := idx
		idx++
		if !my {
			if idx&1023 == 0 {
				atomic.StoreInt64(&caseStart, time.Now().UnixNano()) // enumeration is making progress
			}
			return
		}
		if skip[myIdx] {
			return
		}
		if g.stopped() {
			return
		}
		if trace != nil {
			b, _ := json.Marshal(c)
			trace.Write(append([]byte(fmt.Sprintf("%d\t", myIdx)), append(b, '\n')...))
		}
		atomic.StoreInt64(&caseStart, time.Now().UnixNano())
		rec.runCase(p, c)
		rec.cur = nil
		atomic.StoreInt64(&caseStart, time.Now().UnixNano())
	}
	// the generator itself may execute the code under test (C12 runs schedules to enumerate prefixes): it is watched too
	atomic.StoreInt64(&caseStart, time.Now().UnixNano())
	if pi := Catch(func() { p.Gen(g) }); pi != nil {
		fmt.Fprintf(os.Stderr, "HARNESS ERROR: generator panicked: %s\n%s\n", pi.Value, pi.Stack)
		return 3
	}
	atomic.StoreInt64(&caseStart, 0)
	writeOut(true, g, idx)
	return 0
}

// ---------------------------------------------------------------- findings

// Finding is one line of known_findings.jsonl.
type Finding struct {
	Status    string `json:"status"` // "known" or "fixed"
	Property  string `json:"property"`
	Signature string `json:"signature"`
	What      string `json:"what"`
	Commit    string `json:"commit,omitempty"`
}

func loadFindings(path string) []Finding {
	var out []Finding
	f, err := os.Open(path)
	if err != nil {
		return nil
	}
	defer f.Close()
	sc := bufio.NewScanner(f)
	sc.Buffer(make([]byte, 1<<20), 1<<20)
	for sc.Scan() {
		line := strings.TrimSpace(sc.Text())
		if line == "" || strings.HasPrefix(line, "#") {
			continue
		}
		var fd Finding
		if json.Unmarshal([]byte(line), &fd) == nil {
			out = append(out, fd)
		}
	}
	return out
}

func matchFinding(fs []Finding, prop, sig string) *Finding {
	for i := range fs {
		if fs[i].Status == "known" && fs[i].Property == prop && fs[i].Signature == sig {
			return &fs[i]
		}
	}
	return nil
}

// ---------------------------------------------------------------- replay

// ReplayFile is the on-disk form of a violation artefact.
type ReplayFile struct {
	Property  string          `json:"property"`
	Tier      string          `json:"tier"`
	Seed      int64           `json:"seed"`
	Signature string          `json:"signature"`
	Detail    string          `json:"detail"`
	Case      json.RawMessage `json:"case"`
	Replays   string          `json:"replays,omitempty"`
}

// ReplayMain re-executes the case stored in a replay file. Exit 1 if any
// violation is observed.
func ReplayMain(p *Prop, path string) int {
	b, err := ioutil.ReadFile(path)
	if err != nil {
		fmt.Fprintln(os.Stderr, err)
		return 2
	}
	var rf ReplayFile
	if err := json.Unmarshal(b, &rf); err != nil {
		fmt.Fprintln(os.Stderr, err)
		return 2
	}
	c := p.NewCase()
	if err := json.Unmarshal(rf.Case, c); err != nil {
		fmt.Fprintln(os.Stderr, "case decode:", err)
		return 2
	}
	tier := rf.Tier
	if tier == "" {
		tier = "quick"
	}
	if p.Setup != nil {
		p.Setup(tier, rf.Seed)
	}
	rec := newRec(tier, rf.Seed)
	rec.runCase(p, c)
	if len(rec.Violations) == 0 {
		fmt.Println("REPLAY: no violation observed")
		return 0
	}
	for _, v := range rec.Violations {
		fmt.Printf("REPLAY: violation signature=%s\n%s\n", v.Signature, v.Detail)
	}
	return 1
}

// ---------------------------------------------------------------- driver

func mergeInto(dst, src *Summary, outc, nont map[uint64]struct{}) {
	dst.Evaluations += src.Evaluations
	dst.States += src.States
	dst.Transitions += src.Transitions
	for k, v := range src.Counters {
		dst.Counters[k] += v
	}
	for _, k := range src.Outcomes {
		outc[k] = struct{}{}
	}
	for _, k := range src.Nontrivial {
		nont[k] = struct{}{}
	}
	dst.Saturated = dst.Saturated || src.Saturated
	for sig, v := range src.Violations {
		d := dst.Violations[sig]
		if d == nil {
			cp := *v
			dst.Violations[sig] = &cp
			continue
		}
		d.Count += v.Count
		for _, e := range v.Examples {
			if len(d.Examples) < 3 {
				d.Examples = append(d.Examples, e)
			}
		}
	}
	for _, s := range src.Samples {
		if len(dst.Samples) < 6 {
			dst.Samples = append(dst.Samples, s)
		}
	}
	seen := map[string]bool{}
	for _, n := range dst.Notes {
		seen[n] = true
	}
	for _, n := range src.Notes {
		if !seen[n] {
			dst.Notes = append(dst.Notes, n)
			seen[n] = true
		}
	}
	if src.Capped {
		dst.Capped = true
		if dst.CapNote == "" {
			dst.CapNote = src.CapNote
		}
	}
	if src.Cases > dst.Cases {
		dst.Cases = src.Cases
	}
}

func shortHash(s string) string { return fmt.Sprintf("%016x", h64(s))[:10] }

// DriverMain runs a whole check: spawns workers, merges, classifies,
// writes evidence. Returns the process exit code.
func DriverMain(p *Prop, tier string) int {
	start := time.Now()
	seed := Seed()
	vdir := VerifDir()
	n := envInt("VERIF_WORKERS", runtime.NumCPU())
	if n < 1 {
		n = 1
	}
	scratch, err := ioutil.TempDir(ScratchBase(), "verif-"+p.ID+"-")
	if err != nil {
		fmt.Fprintln(os.Stderr, "scratch:", err)
		return 2
	}
	defer os.RemoveAll(scratch)
	self, _ := os.Executable()
	deadline := time.Now().Add(Budget(tier)).Unix()

	type wres struct {
		sum  *Summary
		err  error
		code int
		log  string
	}
	// worker slots: n from this binary, plus (optionally) nAlt from the alternate-architecture build
	alt := os.Getenv("VERIF_BIN_ALT")
	nAlt := 0
	if p.AltArch && alt != "" {
		nAlt = n / 2
		if nAlt < 1 {
			nAlt = 1
		}
	}
	results := make([]wres, n+nAlt)
	runWorker := func(k int, trace bool, skip []int64) (wres, int64, json.RawMessage) {
		bin, shard, of := self, k, n
		if k >= n {
			bin, shard, of = alt, k-n, nAlt
		}
		out := filepath.Join(scratch, fmt.Sprintf("w%d.json", k))
		os.Remove(out)
		os.Remove(out + ".hang")
		args := []string{"worker", p.ID, "--tier", tier, "--seed", fmt.Sprint(seed), "--shard", fmt.Sprint(shard), "--n", fmt.Sprint(of),
			"--out", out, "--deadline", fmt.Sprint(deadline)}
		tr := filepath.Join(scratch, fmt.Sprintf("w%d.trace", k))
		if trace {
			args = append(args, "--trace", tr)
		}
		if len(skip) > 0 {
			var ss []string
			for _, x := range skip {
				ss = append(ss, fmt.Sprint(x))
			}
			args = append(args, "--skip", strings.Join(ss, ","))
		}
		cmd := exec.Command(bin, args...)
		cmd.Env = append(os.Environ(), "VERIF_WORKER_SCRATCH="+filepath.Join(scratch, fmt.Sprintf("ws%d", k)))
		os.MkdirAll(filepath.Join(scratch, fmt.Sprintf("ws%d", k)), 0755)
		var buf bytes.Buffer
		cmd.Stdout = &buf
		cmd.Stderr = &buf
		err := cmd.Run()
		r := wres{err: err, log: tailStr(buf.String(), 6000)}
		if ee, ok := err.(*exec.ExitError); ok {
			r.code = ee.ExitCode()
		}
		if b, e := ioutil.ReadFile(out); e == nil {
			var s Summary
			if json.Unmarshal(b, &s) == nil {
				r.sum = &s
			}
		}
		if r.sum == nil {
			if b, e := ioutil.ReadFile(out + ".hang"); e == nil {
				var s Summary
				if json.Unmarshal(b, &s) == nil {
					r.sum = &s
				}
			}
		}
		culpritIdx := int64(-1)
		var culprit json.RawMessage
		if (r.sum == nil || !r.sum.Done) && trace {
			if b, e := ioutil.ReadFile(tr); e == nil {
				lines := bytes.Split(bytes.TrimSpace(b), []byte("\n"))
				if len(lines) > 0 && len(lines[len(lines)-1]) > 0 {
					last := lines[len(lines)-1]
					if t := bytes.IndexByte(last, '\t'); t > 0 {
						fmt.Sscan(string(last[:t]), &culpritIdx)
						culprit = append(json.RawMessage{}, last[t+1:]...)
					}
				}
			}
		}
		return r, culpritIdx, culprit
	}

	var wg sync.WaitGroup
	for k := 0; k < n+nAlt; k++ {
		wg.Add(1)
		go func(k int) {
			defer wg.Done()
			r, _, _ := runWorker(k, false, nil)
			if r.sum != nil && r.sum.Done {
				results[k] = r
				return
			}
			if r.code == 3 {
				results[k] = r
				return
			}
			// the worker died or hung: re-run in trace mode, pin the culprit case, skip it and continue,
			// so that one crashing case does not hide the rest of the shard
			crashes := &Summary{Counters: map[string]int64{}, Violations: map[string]*ViolationRec{}}
			addCrash := func(sig, detail string, ex json.RawMessage) {
				v := crashes.Violations[sig]
				if v == nil {
					v = &ViolationRec{Signature: sig, Detail: detail}
					crashes.Violations[sig] = v
				}
				v.Count++
				if ex != nil && len(v.Examples) < 3 {
					v.Examples = append(v.Examples, ex)
				}
			}
			var skip []int64
			for attempt := 0; attempt < 40; attempt++ {
				r2, idx, culprit := runWorker(k, true, skip)
				if r2.sum != nil && r2.sum.Done {
					r = r2
					break
				}
				if r2.code == 3 {
					r = r2
					break
				}
				if r2.sum != nil && len(r2.sum.Violations) > 0 && idx < 0 {
					// hang report written by the watchdog
					for sg, v := range r2.sum.Violations {
						addCrash(sg, v.Detail, nil)
					}
				}
				if idx < 0 {
					addCrash("crash-while-enumerating:"+crashKind(r2.log), "worker process died before executing a case (inside the real code driven by the case generator):\n"+r2.log, nil)
					r = r2
					r.sum = nil
					break
				}
				kind := crashKind(r2.log)
				if r2.sum != nil {
					for sg := range r2.sum.Violations {
						if strings.HasPrefix(sg, "hang") {
							kind = "hang"
						}
					}
				}
				sig := "crash:" + kind
				if kind == "hang" {
					sig = "hang"
				}
				addCrash(sig, "worker process died (or hung) while executing this case:\n"+r2.log, culprit)
				skip = append(skip, idx)
				r = r2
				r.sum = nil
			}
			if r.sum == nil {
				r.sum = &Summary{Counters: map[string]int64{}, Violations: map[string]*ViolationRec{}, Capped: true, CapNote: "a worker kept crashing; its shard is incomplete"}
			}
			if r.sum.Violations == nil {
				r.sum.Violations = map[string]*ViolationRec{}
			}
			for sg, v := range crashes.Violations {
				r.sum.Violations[sg] = v
			}
			if len(skip) > 0 {
				if r.sum.Counters == nil {
					r.sum.Counters = map[string]int64{}
				}
				r.sum.Counters["cases_that_killed_a_worker"] += int64(len(skip))
			}
			results[k] = r
		}(k)
	}
	wg.Wait()

	merged := &Summary{Counters: map[string]int64{}, Violations: map[string]*ViolationRec{}}
	outc := map[uint64]struct{}{}
	nont := map[uint64]struct{}{}
	harnessErr := false
	for k, r := range results {
		if r.sum == nil {
			fmt.Fprintf(os.Stderr, "HARNESS ERROR: worker %d produced no result (exit %d, %v)\n%s\n", k, r.code, r.err, r.log)
			harnessErr = true
			continue
		}
		if r.code == 3 {
			fmt.Fprintf(os.Stderr, "HARNESS ERROR: worker %d: %s\n", k, r.log)
			harnessErr = true
		}
		if os.Getenv("VERIF_VERBOSE") != "" && r.log != "" {
			fmt.Fprintf(os.Stderr, "[worker %d] %s\n", k, r.log)
		}
		mergeInto(merged, r.sum, outc, nont)
	}

	// classify violations
	findings := loadFindings(filepath.Join(vdir, "known_findings.jsonl"))
	var sigs []string
	for s := range merged.Violations {
		sigs = append(sigs, s)
	}
	sort.Strings(sigs)
	newViol := 0
	knownSeen := 0
	os.MkdirAll(filepath.Join(vdir, "replays"), 0755)
	for _, sig := range sigs {
		v := merged.Violations[sig]
		if f := matchFinding(findings, p.ID, sig); f != nil {
			fmt.Printf("KNOWN-FINDING: property=%s %s [signature=%s, %d case(s) this run]\n", p.ID, f.What, sig, v.Count)
			knownSeen++
			continue
		}
		newViol++
		rp := filepath.Join(vdir, "replays", fmt.Sprintf("%s-%s.json", p.ID, shortHash(sig)))
		rf := ReplayFile{Property: p.ID, Tier: tier, Seed: seed, Signature: sig, Detail: tailStr(v.Detail, 8000)}
		if len(v.Examples) > 0 {
			rf.Case = v.Examples[0]
		}
		b, _ := json.MarshalIndent(rf, "", " ")
		ioutil.WriteFile(rp, b, 0644)
		// re-execute 5x
		rep := 0
		if len(v.Examples) > 0 && !strings.HasPrefix(sig, "hang") {
			for i := 0; i < 5; i++ {
				cmd := exec.Command(self, "replay", p.ID, rp)
				cmd.Env = append(os.Environ(), "VERIF_WORKER_SCRATCH="+filepath.Join(scratch, "replay"))
				os.MkdirAll(filepath.Join(scratch, "replay"), 0755)
				err := cmd.Run()
				if err != nil {
					rep++
				}
			}
			rf.Replays = fmt.Sprintf("%d/5", rep)
			b, _ = json.MarshalIndent(rf, "", " ")
			ioutil.WriteFile(rp, b, 0644)
		}
		fmt.Printf("VIOLATION property=%s replay=%s\n", p.ID, rp)
		fmt.Printf("  signature: %s\n  cases: %d  reproduced: %s\n  detail: %s\n", sig, v.Count, rf.Replays, firstLines(v.Detail, 12))
	}

	// evidence
	exhaustive := !merged.Capped && !harnessErr
	cov := map[string]interface{}{
		"evaluations":                   merged.Evaluations,
		"distinct_nontrivial":           len(nont),
		"rule":                          p.Rule,
		"samples":                       merged.Samples,
		"states":                        merged.States,
		"transitions":                   merged.Transitions,
		"traces_validated_against_impl": merged.Evaluations,
		"distinct_outcomes":             len(outc),
		"exhaustive":                    exhaustive,
		"counters":                      merged.Counters,
		"enumerated_cases":              merged.Cases,
		"workers":                       n,
	}
	if nAlt > 0 {
		cov["alt_arch_workers"] = nAlt
	} else if p.AltArch {
		cov["alt_arch_workers"] = 0
		merged.Notes = append(merged.Notes, "alternate-architecture (GOARCH=386) workers not run: VERIF_BIN_ALT unset")
	}
	if merged.Capped {
		cov["cap"] = merged.CapNote
	}
	if merged.Saturated {
		cov["distinct_sets_saturated"] = true
	}
	if len(merged.Notes) > 0 {
		cov["notes"] = merged.Notes
	}
	if knownSeen > 0 {
		cov["known_findings_observed"] = knownSeen
	}
	if len(merged.Samples) == 0 {
		cov["samples"] = []string{"(no case executed)"}
	}
	ev := map[string]interface{}{
		"property_id": p.ID,
		"tier":        tier,
		"seed":        seed,
		"level":       p.Level,
		"coverage":    cov,
		"assumptions": p.Assumptions,
		"wall_s":      time.Since(start).Seconds(),
		"violations":  newViol,
	}
	os.MkdirAll(filepath.Join(vdir, "evidence"), 0755)
	b, _ := json.MarshalIndent(ev, "", " ")
	if err := ioutil.WriteFile(filepath.Join(vdir, "evidence", p.ID+".json"), b, 0644); err != nil {
		fmt.Fprintln(os.Stderr, "evidence write:", err)
		return 2
	}
	fmt.Printf("%s %s: cases=%d evaluations=%d states=%d transitions=%d nontrivial=%d outcomes=%d exhaustive=%v wall=%.1fs violations=%d known=%d\n",
		p.ID, tier, merged.Cases, merged.Evaluations, merged.States, merged.Transitions, len(nont), len(outc), exhaustive, time.Since(start).Seconds(), newViol, knownSeen)
	if harnessErr {
		return 2
	}
	if newViol > 0 {
		return 1
	}
	return 0
}

func fileEmpty(p string) bool {
	st, err := os.Stat(p)
	return err != nil || st.Size() == 0
}

func crashKind(log string) string {
	for _, l := range strings.Split(log, "\n") {
		if strings.HasPrefix(l, "WARNING: DATA RACE") {
			return "data race reported by the race detector"
		}
		if strings.HasPrefix(l, "panic: ") {
			return strings.TrimSpace(digitsRe.ReplaceAllString(l, "N"))
		}
		if strings.HasPrefix(l, "fatal error:") || strings.HasPrefix(l, "unexpected fault") || strings.HasPrefix(l, "SIG") {
			return strings.TrimSpace(l)
		}
	}
	return "worker-died"
}

func tailStr(s string, n int) string {
	if len(s) <= n {
		return s
	}
	return s[:n/2] + "\n...[snip]...\n" + s[len(s)-n/2:]
}

func firstLines(s string, n int) string {
	l := strings.Split(s, "\n")
	if len(l) > n {
		l = l[:n]
	}
	return strings.Join(l, "\n    ")
}
