// Package core is the small framework shared by every property check:
// deterministic case enumeration, sharded worker processes, per-case
// recording, merging, known-finding classification, evidence and replay
// files.
package core

import (
	"bytes"
	"crypto/md5"
	"encoding/json"
	"fmt"
	"hash/fnv"
	"os"
	"os/exec"
	"runtime/debug"
	"sort"
	"strings"
	"sync/atomic"
	"time"
)

// Prop describes one property check.
type Prop struct {
	ID          string
	Level       string // evidence "level"
	Rule        string // how cases are enumerated / what non-trivial means
	Assumptions []string
	// NewCase returns a pointer to a zero case value (for JSON decoding
	// of replay files).
	NewCase func() interface{}
	// Gen enumerates the cases of a tier deterministically. It must not
	// depend on the shard. The enumerated space must not depend on the
	// seed (the seed only perturbs data bytes).
	Gen func(g *Gen)
	// Run executes one case against the real code and judges it.
	Run func(c interface{}, r *Rec)
	// AltArch: if true and VERIF_BIN_ALT names a second build of the harness
	// (e.g. GOARCH=386), the driver runs additional workers from it; its
	// Gen may emit a different case list (it sees its own runtime.GOARCH).
	AltArch bool
	// Setup, if non-nil, is called once per process before Gen/Run.
	Setup func(tier string, seed int64)
}

// Gen is passed to Prop.Gen.
type Gen struct {
	Tier     string
	Seed     int64
	emit     func(c interface{})
	stopped  func() bool
	Capped   bool   // set by Gen (or the framework) when enumeration was cut short
	CapNote  string // what was fully covered below the cap
	NoteList []string
}

// Emit hands one case to the framework.
func (g *Gen) Emit(c interface{}) { g.emit(c) }

// Stopped reports whether the time budget has expired; long generators
// should poll it.
func (g *Gen) Stopped() bool { return g.stopped() }

// Note records a free-text remark for the evidence file.
func (g *Gen) Note(s string) { g.NoteList = append(g.NoteList, s) }

// Thorough reports whether the tier is "thorough".
func (g *Gen) Thorough() bool { return g.Tier == "thorough" }

// ViolationRec is one (aggregated) violation signature.
type ViolationRec struct {
	Signature string            `json:"signature"`
	Detail    string            `json:"detail"`
	Count     int               `json:"count"`
	Examples  []json.RawMessage `json:"examples"`
}

// Rec accumulates what a worker observed.
type Rec struct {
	Tier string
	Seed int64

	Evaluations int64
	States      int64
	Transitions int64
	Counters    map[string]int64
	outcomes    map[uint64]struct{}
	nontrivial  map[uint64]struct{}
	outSat      bool
	Violations  map[string]*ViolationRec
	Samples     []json.RawMessage
	Notes       map[string]struct{}

	hb        *int64 // heartbeat cell of the worker's hang watchdog
	cur       interface{}
	curJSON   json.RawMessage
	curViol   int
	sampleMax int
}

const setCap = 1 << 21

func newRec(tier string, seed int64) *Rec {
	return &Rec{Tier: tier, Seed: seed, Counters: map[string]int64{}, outcomes: map[uint64]struct{}{},
		nontrivial: map[uint64]struct{}{}, Violations: map[string]*ViolationRec{}, Notes: map[string]struct{}{}, sampleMax: 4}
}

func h64(s string) uint64 {
	h := fnv.New64a()
	h.Write([]byte(s))
	return h.Sum64()
}

// Heartbeat tells the hang watchdog that the current case is making
// progress (long cases: a state-graph search, a subtree of schedules). The
// horizon then applies to the time since the last heartbeat, i.e. to one
// execution of the real code, not to the whole case.
func (r *Rec) Heartbeat() {
	if r.hb != nil {
		atomic.StoreInt64(r.hb, time.Now().UnixNano())
	}
}

// Outcome records an observed outcome; the evidence reports how many
// distinct outcomes were seen (1 would mean nothing collided).
func (r *Rec) Outcome(s string) {
	if len(r.outcomes) >= setCap {
		r.outSat = true
		return
	}
	r.outcomes[h64(s)] = struct{}{}
}

// Nontrivial marks a distinct non-trivial case (by key).
func (r *Rec) Nontrivial(key string) {
	if len(r.nontrivial) >= setCap {
		r.outSat = true
		return
	}
	r.nontrivial[h64(key)] = struct{}{}
}

// NontrivialCase marks the current case itself as non-trivial.
func (r *Rec) NontrivialCase() { r.Nontrivial(string(r.caseJSON())) }

// AddStates / AddTransitions feed the model-checking counters.
func (r *Rec) AddStates(n int)      { r.States += int64(n) }
func (r *Rec) AddTransitions(n int) { r.Transitions += int64(n) }

// Count bumps a named counter reported in the evidence.
func (r *Rec) Count(name string, n int) { r.Counters[name] += int64(n) }

// Note records a remark (deduplicated) for the evidence.
func (r *Rec) Note(s string) { r.Notes[s] = struct{}{} }

func (r *Rec) caseJSON() json.RawMessage {
	if r.curJSON == nil {
		b, err := json.Marshal(r.cur)
		if err != nil {
			b = []byte(fmt.Sprintf("%q", fmt.Sprint(r.cur)))
		}
		r.curJSON = b
	}
	return r.curJSON
}

// Violate reports a violation for the current case. sig identifies the
// oracle clause plus a discriminator; detail is free text.
func (r *Rec) Violate(sig, detail string) {
	r.curViol++
	v := r.Violations[sig]
	if v == nil {
		v = &ViolationRec{Signature: sig, Detail: detail}
		r.Violations[sig] = v
	}
	v.Count++
	if len(v.Examples) < 3 {
		v.Examples = append(v.Examples, r.caseJSON())
	}
}

// ViolateWith reports a violation whose replayable case is c (e.g. the
// event path inside a state-graph search) instead of the current case.
func (r *Rec) ViolateWith(sig, detail string, c interface{}) {
	r.curViol++
	v := r.Violations[sig]
	if v == nil {
		v = &ViolationRec{Signature: sig, Detail: detail}
		r.Violations[sig] = v
	}
	v.Count++
	if len(v.Examples) < 3 {
		b, err := json.Marshal(c)
		if err == nil {
			v.Examples = append(v.Examples, b)
		}
	}
}

// Violatef is Violate with a formatted detail.
func (r *Rec) Violatef(sig, format string, a ...interface{}) {
	r.Violate(sig, fmt.Sprintf(format, a...))
}

// SampleExtra adds an explicit sample (any JSON-able value).
func (r *Rec) SampleExtra(v interface{}) {
	if len(r.Samples) >= r.sampleMax+4 {
		return
	}
	b, err := json.Marshal(v)
	if err == nil {
		r.Samples = append(r.Samples, b)
	}
}

// PanicFrame extracts the innermost gopar frame from a stack trace.
func PanicFrame(stack string) string {
	lines := strings.Split(stack, "\n")
	seenPanic := false
	for _, l := range lines {
		if strings.HasPrefix(l, "panic(") {
			seenPanic = true
			continue
		}
		if !seenPanic {
			continue
		}
		if strings.HasPrefix(l, "\t") {
			continue
		}
		if i := strings.Index(l, "github.com/akalin/gopar/"); i == 0 {
			// strip args
			j := strings.LastIndex(l, "(")
			if j > 0 {
				return strings.TrimPrefix(l[:j], "github.com/akalin/gopar/")
			}
			return l
		}
	}
	// fall back: first gopar frame anywhere
	for _, l := range lines {
		if strings.HasPrefix(l, "github.com/akalin/gopar/") {
			j := strings.LastIndex(l, "(")
			if j > 0 {
				return strings.TrimPrefix(l[:j], "github.com/akalin/gopar/")
			}
		}
	}
	return "unknown-frame"
}

// PanicInfo describes a recovered panic.
type PanicInfo struct {
	Value string
	Frame string
	Stack string
}

// Catch runs f and converts a panic into a PanicInfo.
func Catch(f func()) (p *PanicInfo) {
	defer func() {
		if x := recover(); x != nil {
			st := string(debug.Stack())
			p = &PanicInfo{Value: fmt.Sprint(x), Frame: PanicFrame(st), Stack: st}
		}
	}()
	f()
	return nil
}

// runCase executes one case with panic containment.
func (r *Rec) runCase(p *Prop, c interface{}) {
	r.cur = c
	r.curJSON = nil
	r.curViol = 0
	r.Evaluations++
	if pi := Catch(func() { p.Run(c, r) }); pi != nil {
		r.Violate("panic:"+pi.Frame, pi.Value+"\n"+pi.Stack)
	}
	if len(r.Samples) < r.sampleMax && (r.Evaluations&(r.Evaluations-1)) == 0 { // 1st,2nd,4th,8th...
		r.Samples = append(r.Samples, r.caseJSON())
	}
}

// Summary is what a worker writes and the driver merges.
type Summary struct {
	Evaluations int64                    `json:"evaluations"`
	States      int64                    `json:"states"`
	Transitions int64                    `json:"transitions"`
	Counters    map[string]int64         `json:"counters"`
	Outcomes    []uint64                 `json:"outcomes"`
	Nontrivial  []uint64                 `json:"nontrivial"`
	Saturated   bool                     `json:"saturated"`
	Violations  map[string]*ViolationRec `json:"violations"`
	Samples     []json.RawMessage        `json:"samples"`
	Notes       []string                 `json:"notes"`
	Capped      bool                     `json:"capped"`
	CapNote     string                   `json:"cap_note"`
	Cases       int64                    `json:"cases"`
	Done        bool                     `json:"done"`
}

func (r *Rec) summary() *Summary {
	s := &Summary{Evaluations: r.Evaluations, States: r.States, Transitions: r.Transitions, Counters: r.Counters,
		Violations: r.Violations, Samples: r.Samples, Saturated: r.outSat}
	for k := range r.outcomes {
		s.Outcomes = append(s.Outcomes, k)
	}
	for k := range r.nontrivial {
		s.Nontrivial = append(s.Nontrivial, k)
	}
	for k := range r.Notes {
		s.Notes = append(s.Notes, k)
	}
	sort.Strings(s.Notes)
	return s
}

// Budget returns the time budget for a tier (seconds), overridable with
// VERIF_BUDGET_S.
func Budget(tier string) time.Duration {
	if v := os.Getenv("VERIF_BUDGET_S"); v != "" {
		var n int
		fmt.Sscan(v, &n)
		if n > 0 {
			return time.Duration(n) * time.Second
		}
	}
	if tier == "thorough" {
		return 40 * time.Minute
	}
	return 4 * time.Minute
}

// NewSubRec returns a scratch recorder: oracles written against *Rec can be
// run on it and their findings re-reported by the caller (Drain) with a
// different replayable case.
func NewSubRec(parent *Rec) *Rec {
	s := newRec(parent.Tier, parent.Seed)
	s.hb = parent.hb
	return s
}

// Drain returns signature -> detail of everything reported to a scratch recorder.
func (r *Rec) Drain() map[string]string {
	out := map[string]string{}
	for sig, v := range r.Violations {
		out[sig] = v.Detail
	}
	r.Violations = map[string]*ViolationRec{}
	return out
}

// Sum16 is the MD5 of b (used as a compact content fingerprint in observations).
func Sum16(b []byte) [16]byte { return md5.Sum(b) }

// Aux holds auxiliary sub-commands of the harness binary ("vcheck aux <name> args..."). A property uses them to
// obtain a reference observation from a fresh process (FreshProcess), so that a differential oracle never takes its
// reference from the very process state it is testing for.
var Aux = map[string]func(args []string) int{}

// FreshProcess runs "aux name args..." in a new process of this binary and returns its standard output.
func FreshProcess(name string, args ...string) (string, error) {
	cmd := exec.Command(os.Args[0], append([]string{"aux", name}, args...)...)
	cmd.Env = os.Environ()
	var out, errb bytes.Buffer
	cmd.Stdout, cmd.Stderr = &out, &errb
	if err := cmd.Run(); err != nil {
		return "", fmt.Errorf("%v: %s", err, errb.String())
	}
	return out.String(), nil
}

// FreshProcessEnv is FreshProcess with extra environment variables (appended, so they win) and a working directory.
func FreshProcessEnv(env []string, dir, name string, args ...string) (string, error) {
	cmd := exec.Command(os.Args[0], append([]string{"aux", name}, args...)...)
	cmd.Env = append(os.Environ(), env...)
	cmd.Dir = dir
	var out, errb bytes.Buffer
	cmd.Stdout, cmd.Stderr = &out, &errb
	if err := cmd.Run(); err != nil {
		return out.String(), fmt.Errorf("%v: %s", err, errb.String())
	}
	return out.String(), nil
}
