// Package envfs is the owned environment: an in-memory filesystem that
// implements gopar's internal fileIO contract (par1 and par2), records
// every call, and can inject faults, torn writes and listing orders.
package envfs

import (
	"crypto/md5"
	"errors"
	"os"
	"sort"
	"strings"
	"sync"
	"syscall"
)

// Op is one recorded filesystem call.
type Op struct {
	Index  int
	Kind   string // "read", "find", "write"
	Path   string // path, or prefix for find
	Suffix string
	Data   []byte // written data (copy) for writes
	Sum    [16]byte
	Err    string
	Fault  string // injected fault kind, if any
	Found  []string
}

// Fault describes what to do with one call.
type Fault struct {
	Err     error // error to return (nil = none)
	Partial int   // for writes: number of bytes that reach the "disk" before the error (-1 = none, file untouched)
	Kind    string
}

// HalfRead as Fault.Partial of a read fault: the first half of the file is returned together with the error.
const HalfRead = -2

// ErrInjected is the injected non-not-exist I/O error (as requested by a hook; what the caller of the filesystem sees
// is what an operating system would hand out for such a failure, see asOSError).
var ErrInjected = errors.New("injected I/O error")

// asOSError turns a requested ErrInjected into the error a real filesystem reports: a failure after the open succeeded
// (some bytes were transferred) is a *os.PathError of the read / write itself with EIO / ENOSPC, a failure with no
// effect is one of the open with EACCES. Other requested errors pass through unchanged.
func asOSError(err error, kind, path string, partial int) error {
	if err != ErrInjected {
		return err
	}
	switch {
	case kind == "read" && partial == HalfRead:
		return &os.PathError{Op: "read", Path: path, Err: syscall.EIO}
	case kind == "write" && partial >= 0:
		return &os.PathError{Op: "write", Path: path, Err: syscall.ENOSPC}
	case kind == "find":
		return &os.PathError{Op: "readdirent", Path: path, Err: syscall.EIO}
	}
	return &os.PathError{Op: "open", Path: path, Err: syscall.EACCES}
}

// FS is the in-memory filesystem.
type FS struct {
	// mu serialises the fileIO entry points and Snapshot: code under test that calls them from several goroutines must
	// not bring the model down (what it did is judged by the checks, not by a crash of the harness)
	mu    sync.Mutex
	Files map[string][]byte
	Log   []Op
	// Hook, if set, is consulted before each call (index = len(Log)).
	Hook func(index int, kind, path string, data []byte) *Fault
	// Order, if set, permutes listing results.
	Order func(matches []string) []string
	// Dirs are paths that exist as directories (reads fail with EISDIR).
	Dirs map[string]bool
}

// New returns an empty filesystem.
func New() *FS { return &FS{Files: map[string][]byte{}} }

// Clone deep-copies the file contents (not the log or hooks).
func (fs *FS) Clone() *FS {
	n := New()
	for k, v := range fs.Files {
		n.Files[k] = append([]byte(nil), v...)
	}
	if fs.Dirs != nil {
		n.Dirs = map[string]bool{}
		for k := range fs.Dirs {
			n.Dirs[k] = true
		}
	}
	n.Order = fs.Order // the listing order is a property of the directory, not of one handle on it
	return n
}

// Put stores a copy of data.
func (fs *FS) Put(path string, data []byte) { fs.Files[path] = append([]byte{}, data...) }

// Get returns the stored bytes (nil if absent) without logging.
func (fs *FS) Get(path string) ([]byte, bool) {
	b, ok := fs.Files[path]
	return b, ok
}

// Del removes a file without logging.
func (fs *FS) Del(path string) { delete(fs.Files, path) }

// Paths returns the sorted list of file paths.
func (fs *FS) Paths() []string {
	var p []string
	for k := range fs.Files {
		p = append(p, k)
	}
	sort.Strings(p)
	return p
}

// Snapshot returns path -> content copy.
func (fs *FS) Snapshot() map[string][]byte {
	fs.mu.Lock()
	defer fs.mu.Unlock()
	m := map[string][]byte{}
	for k, v := range fs.Files {
		m[k] = append([]byte{}, v...)
	}
	return m
}

// ResetLog clears the call log.
func (fs *FS) ResetLog() { fs.Log = nil }

// Writes returns the logged write operations.
func (fs *FS) Writes() []Op {
	var w []Op
	for _, o := range fs.Log {
		if o.Kind == "write" {
			w = append(w, o)
		}
	}
	return w
}

// isDir reports whether path is a directory: listed in Dirs, or an
// ancestor of some stored file (on a real filesystem the ancestors of a
// file necessarily are directories, so reading or writing them as files
// fails with EISDIR and has no effect).
func (fs *FS) isDir(path string) bool {
	if fs.Dirs[path] {
		return true
	}
	if path == "/" {
		return true
	}
	pre := strings.TrimSuffix(path, "/") + "/"
	for k := range fs.Files {
		if strings.HasPrefix(k, pre) {
			return true
		}
	}
	return false
}

func (fs *FS) fault(kind, path string, data []byte) *Fault {
	if fs.Hook == nil {
		return nil
	}
	return fs.Hook(len(fs.Log), kind, path, data)
}

// ReadFile implements fileIO. It returns a fresh copy (see the note on
// placement at the end).
func (fs *FS) ReadFile(path string) ([]byte, error) {
	fs.mu.Lock()
	defer fs.mu.Unlock()
	op := Op{Index: len(fs.Log), Kind: "read", Path: path}
	if f := fs.fault("read", path, nil); f != nil && f.Err != nil {
		f = &Fault{Err: asOSError(f.Err, "read", path, f.Partial), Partial: f.Partial, Kind: f.Kind}
		op.Err = f.Err.Error()
		op.Fault = f.Kind
		fs.Log = append(fs.Log, op)
		if b, ok := fs.Files[path]; ok && f.Partial == HalfRead && len(b) > 0 {
			// a read that dies half-way: like ioutil.ReadFile, the bytes read so far come back WITH the error
			n := (len(b) + 1) / 2
			buf := make([]byte, n+spareCap)
			copy(buf, b[:n])
			for i := n; i < len(buf); i++ {
				buf[i] = 0xA5 ^ byte(i*7)
			}
			return buf[:n], f.Err
		}
		return nil, f.Err
	}
	if fs.isDir(path) {
		err := &os.PathError{Op: "read", Path: path, Err: syscall.EISDIR}
		op.Err = err.Error()
		fs.Log = append(fs.Log, op)
		return nil, err
	}
	b, ok := fs.Files[path]
	if !ok {
		err := &os.PathError{Op: "open", Path: path, Err: syscall.ENOENT}
		op.Err = err.Error()
		fs.Log = append(fs.Log, op)
		return nil, err
	}
	fs.Log = append(fs.Log, op)
	// The result is a fresh copy, placed like a window into a larger buffer: capacity beyond the length, and the
	// spare capacity holds non-zero bytes. A caller may append into it, but whatever it computes may only depend
	// on out[:len]: code that reslices past len (or assumes the spare room is zero) sees poison here.
	buf := make([]byte, len(b)+spareCap)
	copy(buf, b)
	for i := len(b); i < len(buf); i++ {
		buf[i] = 0xA5 ^ byte(i*7)
	}
	return buf[:len(b)], nil
}

// spareCap is the poisoned spare capacity behind every buffer ReadFile hands out.
const spareCap = 48

// FindWithPrefixAndSuffix implements par2's fileIO: literal prefix and
// suffix match within one directory (the '*' of filepath.Glob does not
// cross '/'), sorted like filepath.Glob.
func (fs *FS) FindWithPrefixAndSuffix(prefix, suffix string) ([]string, error) {
	fs.mu.Lock()
	defer fs.mu.Unlock()
	op := Op{Index: len(fs.Log), Kind: "find", Path: prefix, Suffix: suffix}
	if f := fs.fault("find", prefix, nil); f != nil && f.Err != nil {
		f = &Fault{Err: asOSError(f.Err, "find", prefix, f.Partial), Partial: f.Partial, Kind: f.Kind}
		op.Err = f.Err.Error()
		op.Fault = f.Kind
		fs.Log = append(fs.Log, op)
		return nil, f.Err
	}
	var m []string
	seen := map[string]bool{}
	match := func(k string) {
		if !seen[k] && len(k) >= len(prefix)+len(suffix) && strings.HasPrefix(k, prefix) && strings.HasSuffix(k, suffix) {
			mid := k[len(prefix) : len(k)-len(suffix)]
			if strings.Contains(mid, "/") {
				return
			}
			seen[k] = true
			m = append(m, k)
		}
	}
	for k := range fs.Files {
		match(k)
		// a directory entry matches a pattern like any other entry (filepath.Glob does not tell them apart): the
		// ancestors of k below the pattern's directory
		if strings.HasPrefix(k, prefix) {
			if i := strings.Index(k[len(prefix):], "/"); i >= 0 {
				match(k[:len(prefix)+i])
			}
		}
	}
	for k := range fs.Dirs {
		match(k)
	}
	sort.Strings(m)
	if fs.Order != nil {
		m = fs.Order(m)
	}
	op.Found = append([]string{}, m...)
	fs.Log = append(fs.Log, op)
	return m, nil
}

// WriteFile implements fileIO.
func (fs *FS) WriteFile(path string, data []byte) error {
	fs.mu.Lock()
	defer fs.mu.Unlock()
	cp := append([]byte{}, data...)
	op := Op{Index: len(fs.Log), Kind: "write", Path: path, Data: cp, Sum: md5.Sum(cp)}
	if f := fs.fault("write", path, data); f != nil && f.Err != nil {
		f = &Fault{Err: asOSError(f.Err, "write", path, f.Partial), Partial: f.Partial, Kind: f.Kind}
		op.Err = f.Err.Error()
		op.Fault = f.Kind
		if f.Partial >= 0 {
			n := f.Partial
			if n > len(cp) {
				n = len(cp)
			}
			fs.Files[path] = append([]byte{}, cp[:n]...)
		}
		fs.Log = append(fs.Log, op)
		return f.Err
	}
	if fs.isDir(path) {
		err := &os.PathError{Op: "open", Path: path, Err: syscall.EISDIR}
		op.Err = err.Error()
		fs.Log = append(fs.Log, op)
		return err
	}
	fs.Files[path] = cp
	fs.Log = append(fs.Log, op)
	return nil
}

// Diff lists paths whose content differs between two snapshots (added,
// removed or changed), sorted.
func Diff(a, b map[string][]byte) []string {
	var d []string
	for k, v := range a {
		w, ok := b[k]
		if !ok || string(v) != string(w) {
			d = append(d, k)
		}
	}
	for k := range b {
		if _, ok := a[k]; !ok {
			d = append(d, k)
		}
	}
	sort.Strings(d)
	return d
}
