package scen

import (
	"bytes"
	"fmt"
	"path"

	"github.com/akalin/gopar/par1"

	"verifh/core"
	"verifh/envfs"
	"verifh/ref/gf8"
)

// P1Config describes a PAR1 set created by gopar itself.
type P1Config struct {
	Sizes   []int    `json:"sizes"`
	Names   []string `json:"names,omitempty"`
	Volumes int      `json:"volumes"`
	Base    string   `json:"base,omitempty"` // base name of the index file (default "s")
}

// P1Set is a created set plus reference data.
type P1Set struct {
	Cfg      P1Config
	Dir      string
	Index    string
	Names    []string
	Paths    []string
	Data     [][]byte
	FS0      *envfs.FS
	VolPaths []string // .p01, .p02, ... as expected by the format
}

var p1cache = map[string]*P1Set{}

// GetP1 memoises BuildP1.
func GetP1(cfg P1Config, seed int64) (*P1Set, error) {
	key := fmt.Sprintf("%v|%d", cfg, seed)
	if s, ok := p1cache[key]; ok {
		return s, nil
	}
	s, err := BuildP1(cfg, seed)
	if err != nil {
		return nil, err
	}
	if len(p1cache) > 512 {
		p1cache = map[string]*P1Set{}
	}
	p1cache[key] = s
	return s, nil
}

// VolPath is the conventional volume path for volume v (1-based).
func VolPath(index string, v int) string {
	return index[:len(index)-len(path.Ext(index))] + fmt.Sprintf(".p%02d", v)
}

// BuildP1 creates a PAR1 set with gopar's Create on an in-memory fs.
func BuildP1(cfg P1Config, seed int64) (*P1Set, error) {
	s := &P1Set{Cfg: cfg, Dir: "/d", Index: "/d/s.par"}
	if cfg.Base != "" {
		s.Index = "/d/" + cfg.Base + ".par"
	}
	fs := envfs.New()
	for i, n := range cfg.Sizes {
		name := fmt.Sprintf("f%d", i)
		if i < len(cfg.Names) && cfg.Names[i] != "" {
			name = cfg.Names[i]
		}
		data := Content("uniq", seed, i, n, 4)
		s.Names = append(s.Names, name)
		s.Paths = append(s.Paths, path.Join(s.Dir, name))
		s.Data = append(s.Data, data)
		fs.Put(s.Paths[i], data)
	}
	err := par1.VerifCreate(fs, s.Index, s.Paths, par1.CreateOptions{NumParityFiles: cfg.Volumes})
	if err != nil {
		return nil, err
	}
	fs.ResetLog()
	s.FS0 = fs
	for v := 1; v <= cfg.Volumes; v++ {
		s.VolPaths = append(s.VolPaths, VolPath(s.Index, v))
	}
	return s, nil
}

// P1Truth is the reference view of a directory.
type P1Truth struct {
	Intact       []bool
	UsableData   int
	UnusableData int
	VolPresent   []bool // per volume 1..Volumes: present and byte-identical to what Create wrote
	VolDamaged   bool   // some present volume file differs from the original
	UsableParity int
	AllIntact    bool
	Singular     bool // the system klauspost selects (first present volumes) is singular
}

// Truth computes the reference view.
func (s *P1Set) Truth(fs *envfs.FS) P1Truth {
	var t P1Truth
	t.AllIntact = true
	var missing []int
	for i, p := range s.Paths {
		b, ok := fs.Get(p)
		in := ok && bytes.Equal(b, s.Data[i])
		t.Intact = append(t.Intact, in)
		if in {
			t.UsableData++
		} else {
			t.UnusableData++
			t.AllIntact = false
			missing = append(missing, i)
		}
	}
	var present []int
	for v, p := range s.VolPaths {
		b, ok := fs.Get(p)
		orig := s.FS0.Files[p]
		in := ok && bytes.Equal(b, orig)
		if ok && !in {
			t.VolDamaged = true
		}
		t.VolPresent = append(t.VolPresent, in)
		if in {
			t.UsableParity++
			present = append(present, v)
		}
	}
	k := len(missing)
	if k > 0 && k <= len(present) {
		m := make([][]byte, k)
		for r := 0; r < k; r++ {
			m[r] = make([]byte, k)
			for c, fi := range missing {
				m[r][c] = gf8.Pow(byte(fi+1), present[r])
			}
		}
		t.Singular = gf8.Rank(m) < k
	}
	return t
}

// P1Obs is what the real operations did.
type P1Obs struct {
	VerifyErr     error
	VerifyPanic   *core.PanicInfo
	Result        par1.VerifyResult
	VerifyWrites  int
	VerifyDiff    []string
	RepairErr     error
	RepairPanic   *core.PanicInfo
	RepairedPaths []string
	RepairLog     []envfs.Op
	Before, After map[string][]byte
}

// ObserveVerify runs the real Verify.
func (s *P1Set) ObserveVerify(fs *envfs.FS, all bool, o *P1Obs) {
	before := fs.Snapshot()
	fs.ResetLog()
	o.VerifyPanic = core.Catch(func() {
		res, err := par1.VerifVerify(fs, s.Index, par1.VerifyOptions{VerifyAllData: all})
		o.VerifyErr = err
		o.Result = res
	})
	o.VerifyWrites = len(fs.Writes())
	o.VerifyDiff = envfs.Diff(before, fs.Snapshot())
	fs.ResetLog()
}

// ObserveRepair runs the real Repair.
func (s *P1Set) ObserveRepair(fs *envfs.FS, dc bool, o *P1Obs) {
	o.Before = fs.Snapshot()
	fs.ResetLog()
	o.RepairPanic = core.Catch(func() {
		res, err := par1.VerifRepair(fs, s.Index, par1.RepairOptions{DoubleCheck: dc})
		o.RepairErr = err
		o.RepairedPaths = res.RepairedPaths
	})
	o.RepairLog = append([]envfs.Op{}, fs.Log...)
	o.After = fs.Snapshot()
	fs.ResetLog()
}

// AllOriginal reports whether every data file equals its original.
func (s *P1Set) AllOriginal(snap map[string][]byte) bool {
	for i, p := range s.Paths {
		b, ok := snap[p]
		if !ok || !bytes.Equal(b, s.Data[i]) {
			return false
		}
	}
	return true
}

// CheckWritesGeneric applies the C02 write oracle: orig maps protected
// path -> protected bytes.
func CheckWritesGeneric(orig map[string][]byte, log []envfs.Op, repaired []string, before, after map[string][]byte) [][2]string {
	var bad [][2]string
	listed := map[string]bool{}
	for _, p := range repaired {
		listed[path.Clean(p)] = true
	}
	written := map[string]bool{}
	attempted := map[string]bool{}
	for _, op := range log {
		if op.Kind != "write" {
			continue
		}
		cp := path.Clean(op.Path)
		attempted[cp] = true
		want, ok := orig[cp]
		if !ok {
			bad = append(bad, [2]string{"repair-wrote-unprotected-path", fmt.Sprintf("Repair wrote %q which is not a protected file", op.Path)})
			continue
		}
		if !bytes.Equal(op.Data, want) {
			bad = append(bad, [2]string{"repair-wrote-wrong-bytes", fmt.Sprintf("Repair wrote %d bytes to %q that differ from the protected content (%d bytes)", len(op.Data), op.Path, len(want))})
		}
		if op.Err == "" {
			written[cp] = true
			if !listed[cp] {
				bad = append(bad, [2]string{"repair-write-not-listed", fmt.Sprintf("Repair wrote %q but did not list it in its result %v", op.Path, repaired)})
			}
		}
	}
	for _, d := range envfs.Diff(before, after) {
		if !attempted[d] {
			bad = append(bad, [2]string{"repair-changed-other-file", fmt.Sprintf("%q changed although Repair did not write it", d)})
		}
	}
	return bad
}

// Orig returns protected path -> bytes.
func (s *P1Set) Orig() map[string][]byte {
	m := map[string][]byte{}
	for i, p := range s.Paths {
		m[p] = s.Data[i]
	}
	return m
}
