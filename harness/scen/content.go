// Package scen builds file sets, damage operators and observations of
// the real gopar operations for the property checks.
package scen

import (
	"fmt"
	"hash/crc32"
)

// SplitMix is a tiny deterministic PRNG (data bytes only; never used to
// choose which structures are explored).
type SplitMix struct{ s uint64 }

func NewRand(seed uint64) *SplitMix { return &SplitMix{s: seed} }

func (r *SplitMix) Next() uint64 {
	r.s += 0x9e3779b97f4a7c15
	z := r.s
	z = (z ^ (z >> 30)) * 0xbf58476d1ce4e5b9
	z = (z ^ (z >> 27)) * 0x94d049bb133111eb
	return z ^ (z >> 31)
}

// Bytes returns n pseudo-random bytes.
func (r *SplitMix) Bytes(n int) []byte {
	b := make([]byte, n)
	for i := 0; i < n; i += 8 {
		v := r.Next()
		for j := 0; j < 8 && i+j < n; j++ {
			b[i+j] = byte(v >> (8 * uint(j)))
		}
	}
	return b
}

// Content produces file content of a class. Classes:
//
//	uniq      high-entropy bytes in 0x01..0x7f (never zero, disjoint from Garbage's 0x80..0xff)
//	zero      all zero bytes
//	periodic  period-3 pattern
//	dupslice  slice 0 repeated at slice 2 (if long enough)
//	trailzero uniq with the last min(n, s) bytes zero
//	crccollide two different slices with equal CRC-32
func Content(class string, seed int64, fileIdx, n, sliceSize int) []byte {
	r := NewRand(uint64(seed)*0x1000193 + uint64(fileIdx)*0x9e3779b1 + 7)
	switch class {
	case "uniq", "":
		// bytes in 0x01..0x7f; Garbage uses 0x80..0xff, so inserted or
		// overwritten bytes can never complete an original slice by accident
		b := r.Bytes(n)
		for i := range b {
			b[i] &= 0x7f
			if b[i] == 0 {
				b[i] = byte(1 + (i*7+fileIdx)%120)
			}
		}
		return b
	case "crccollide":
		// uniq content in which slice 1 is slice 0 xor a multiple of the CRC-32 generator polynomial: two
		// DIFFERENT slices with the SAME CRC-32 (needs a slice size >= 8)
		b := Content("uniq", seed, fileIdx, n, sliceSize)
		if sliceSize >= 8 && n >= 2*sliceSize {
			copy(b[sliceSize:2*sliceSize], b[0:sliceSize])
			for i, x := range []byte{0x41, 0x06, 0x71, 0xDB, 0x01} {
				b[sliceSize+1+i] ^= x
			}
		}
		return b
	case "crcfield":
		// uniq content in which the full slices carry the boundary values of the 32-bit slice-checksum field: slice k
		// has CRC-32 crcFieldTargets[k mod 6] (its last four bytes are solved for; needs a slice size >= 4)
		b := Content("uniq", seed, fileIdx, n, sliceSize)
		if sliceSize < 4 {
			return b
		}
		for k := 0; (k+1)*sliceSize <= n; k++ {
			ForceCRC32(b[k*sliceSize:(k+1)*sliceSize], crcFieldTargets[(k+fileIdx)%len(crcFieldTargets)])
		}
		return b
	case "lookalike":
		// every file of the set starts with the SAME first 16 KiB (and files of equal length then have the same
		// 16k hash and length: anything keyed by those two mistakes one file for the other); the rest is distinct
		b := Content("uniq", seed, fileIdx, n, sliceSize)
		common := Content("uniq", seed, 9000, n, sliceSize)
		k := 16384
		if k > n {
			k = n
		}
		copy(b[:k], common[:k])
		return b
	case "crclow16":
		// slices 1..256 of the file (each of sliceSize >= 8 bytes) are pairwise different but their CRC-32s agree in
		// the low 16 bits - exactly 256 of them; every other slice of the file has different low bits
		b := Content("uniq", seed, fileIdx, n, sliceSize)
		if sliceSize < 8 || n < 258*sliceSize {
			return b
		}
		target := crc32.ChecksumIEEE(b[sliceSize:2*sliceSize]) & 0xffff
		for k := 2; k <= 256; k++ {
			sl := b[k*sliceSize : (k+1)*sliceSize]
			for v := uint32(0); ; v++ {
				// vary three bytes within the 0x01..0x7f alphabet
				sl[0], sl[1], sl[2] = byte(1+v%127), byte(1+(v/127)%127), byte(1+(v/16129)%127)
				if crc32.ChecksumIEEE(sl)&0xffff == target {
					break
				}
			}
		}
		for k := 0; (k+1)*sliceSize <= n; k++ {
			if k >= 1 && k <= 256 {
				continue
			}
			sl := b[k*sliceSize : (k+1)*sliceSize]
			for crc32.ChecksumIEEE(sl)&0xffff == target {
				sl[0] = 1 + sl[0]%126
			}
		}
		return b
	case "zero":
		return make([]byte, n)
	case "periodic":
		b := make([]byte, n)
		p := []byte{byte(1 + seed%200), byte(3 + fileIdx), 0x5a}
		for i := range b {
			b[i] = p[i%3]
		}
		return b
	case "repslice":
		// the first three slices are identical (one slice content at three locations), the rest is unique
		b := Content("uniq", seed, fileIdx, n, sliceSize)
		if n >= 4*sliceSize {
			copy(b[sliceSize:2*sliceSize], b[0:sliceSize])
			copy(b[2*sliceSize:3*sliceSize], b[0:sliceSize])
		}
		return b
	case "dupslice":
		b := Content("uniq", seed, fileIdx, n, sliceSize)
		if n >= 3*sliceSize {
			copy(b[2*sliceSize:3*sliceSize], b[0:sliceSize])
		}
		return b
	case "trailzero2":
		// only the last two bytes are zero: a last slice of 3 or more bytes keeps a non-zero head, so it is found nowhere
		// but at its own place - also after the zero bytes have been cut off (the padding stands in for them)
		b := Content("uniq", seed, fileIdx, n, sliceSize)
		for i := n - 2; i < n && i >= 1; i++ {
			b[i] = 0
		}
		return b
	case "trailzero":
		b := Content("uniq", seed, fileIdx, n, sliceSize)
		z := sliceSize
		if z > n-1 {
			z = n - 1
		}
		for i := n - z; i < n; i++ {
			b[i] = 0
		}
		return b
	}
	panic(fmt.Sprintf("unknown content class %q", class))
}

// Garbage returns n bytes that are distinct from Content's streams.
func Garbage(seed int64, tag, n int) []byte {
	r := NewRand(uint64(seed)*0x51ed27 + uint64(tag)*0x2545f491 + 0xabcdef)
	b := r.Bytes(n)
	for i := range b {
		b[i] |= 0x80
	}
	return b
}

var crcFieldTargets = []uint32{0, 1, 0xffffffff, 0x80000000, 0x0000ffff, 0xffff0000}

// ForceCRC32 rewrites the last four bytes of sl so that its CRC-32 (IEEE) equals target. The CRC is affine in those
// bytes over GF(2): solve the 32 x 32 system by elimination.
func ForceCRC32(sl []byte, target uint32) {
	tail := sl[len(sl)-4:]
	set := func(v uint32) uint32 {
		tail[0], tail[1], tail[2], tail[3] = byte(v), byte(v>>8), byte(v>>16), byte(v>>24)
		return crc32.ChecksumIEEE(sl)
	}
	c0 := set(0)
	// basis[i] = (effect on the CRC, combination of input bits producing it), reduced so that each has a distinct leading bit
	var eff, comb [32]uint32
	for i := 0; i < 32; i++ {
		e, c := set(1<<uint(i))^c0, uint32(1)<<uint(i)
		for bit := 31; bit >= 0; bit-- {
			if e>>uint(bit)&1 == 0 {
				continue
			}
			if eff[bit] == 0 {
				eff[bit], comb[bit] = e, c
				break
			}
			e ^= eff[bit]
			c ^= comb[bit]
		}
	}
	want, v := target^c0, uint32(0)
	for bit := 31; bit >= 0; bit-- {
		if want>>uint(bit)&1 == 1 {
			want ^= eff[bit]
			v ^= comb[bit]
		}
	}
	if set(v) != target {
		panic("scen: ForceCRC32 failed")
	}
}
