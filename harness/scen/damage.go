package scen

import (
	"fmt"
	"hash/crc32"

	"verifh/envfs"
)

// Dmg is one damage operator applied to a directory.
type Dmg struct {
	Op  string `json:"op"`
	F   int    `json:"f,omitempty"`   // file index (input order) or recovery-file index
	G   int    `json:"g,omitempty"`   // second file
	At  int    `json:"at,omitempty"`  // byte offset / slice index
	N   int    `json:"n,omitempty"`   // length
	Bit int    `json:"bit,omitempty"` // bit number for flips
}

func (d Dmg) String() string {
	return fmt.Sprintf("%s(f=%d,g=%d,at=%d,n=%d,bit=%d)", d.Op, d.F, d.G, d.At, d.N, d.Bit)
}

// ApplyData applies a damage operator to data file paths[d.F] (and
// paths[d.G]) of fs. recFiles are the recovery files for "delrec".
func ApplyData(fs *envfs.FS, paths []string, recFiles []string, sliceSize int, seed int64, d Dmg) {
	switch d.Op {
	case "none":
	case "del":
		fs.Del(paths[d.F])
	case "ovw": // overwrite slice At in place with different bytes
		b, ok := fs.Get(paths[d.F])
		if !ok {
			return
		}
		nb := append([]byte{}, b...)
		lo := d.At * sliceSize
		hi := lo + sliceSize
		if hi > len(nb) {
			hi = len(nb)
		}
		for i := lo; i < hi; i++ {
			nb[i] ^= 0xff
		}
		fs.Put(paths[d.F], nb)
	case "crcovw": // overwrite the FULL slice At in place with different bytes that have the SAME CRC-32 (slice size >= 8)
		b, ok := fs.Get(paths[d.F])
		lo := d.At * sliceSize
		if !ok || sliceSize < 8 || lo+sliceSize > len(b) {
			return
		}
		nb := append([]byte{}, b...)
		sl := nb[lo : lo+sliceSize]
		want := crc32.ChecksumIEEE(sl)
		sl[0] ^= 0x5a
		sl[1] ^= 0xc3
		ForceCRC32(sl, want)
		fs.Put(paths[d.F], nb)
	case "flip":
		b, ok := fs.Get(paths[d.F])
		if !ok || d.At >= len(b) {
			return
		}
		nb := append([]byte{}, b...)
		nb[d.At] ^= 1 << uint(d.Bit)
		fs.Put(paths[d.F], nb)
	case "ins":
		b, ok := fs.Get(paths[d.F])
		if !ok {
			return
		}
		at := d.At
		if at > len(b) {
			at = len(b)
		}
		nb := append([]byte{}, b[:at]...)
		nb = append(nb, Garbage(seed, d.F*131+d.At*7+d.N, d.N)...)
		nb = append(nb, b[at:]...)
		fs.Put(paths[d.F], nb)
	case "cut": // delete N bytes at At
		b, ok := fs.Get(paths[d.F])
		if !ok {
			return
		}
		at := d.At
		if at > len(b) {
			at = len(b)
		}
		end := at + d.N
		if end > len(b) {
			end = len(b)
		}
		nb := append([]byte{}, b[:at]...)
		nb = append(nb, b[end:]...)
		fs.Put(paths[d.F], nb)
	case "trunc":
		b, ok := fs.Get(paths[d.F])
		if !ok || d.At > len(b) {
			return
		}
		fs.Put(paths[d.F], b[:d.At])
	case "app":
		b, ok := fs.Get(paths[d.F])
		if !ok {
			return
		}
		nb := append([]byte{}, b...)
		nb = append(nb, Garbage(seed, 9000+d.F*17+d.N, d.N)...)
		fs.Put(paths[d.F], nb)
	case "appz": // append zero bytes
		b, ok := fs.Get(paths[d.F])
		if !ok {
			return
		}
		nb := append([]byte{}, b...)
		nb = append(nb, make([]byte, d.N)...)
		fs.Put(paths[d.F], nb)
	case "xchg":
		// bytes [At, At+N) of file F and of file G change places (both files keep their lengths)
		a, oka := fs.Get(paths[d.F])
		b, okb := fs.Get(paths[d.G])
		if oka && okb && d.At+d.N <= len(a) && d.At+d.N <= len(b) {
			a2 := append([]byte{}, a...)
			b2 := append([]byte{}, b...)
			copy(a2[d.At:d.At+d.N], b[d.At:d.At+d.N])
			copy(b2[d.At:d.At+d.N], a[d.At:d.At+d.N])
			fs.Put(paths[d.F], a2)
			fs.Put(paths[d.G], b2)
		}
	case "swap":
		a, oka := fs.Get(paths[d.F])
		b, okb := fs.Get(paths[d.G])
		if oka && okb {
			a2 := append([]byte{}, a...)
			b2 := append([]byte{}, b...)
			fs.Put(paths[d.F], b2)
			fs.Put(paths[d.G], a2)
		} else if oka {
			fs.Put(paths[d.G], a)
			fs.Del(paths[d.F])
		} else if okb {
			fs.Put(paths[d.F], b)
			fs.Del(paths[d.G])
		}
	case "copy": // content of F over G
		a, ok := fs.Get(paths[d.F])
		if ok {
			fs.Put(paths[d.G], a)
		}
	case "garbage": // replace file with N garbage bytes
		fs.Put(paths[d.F], Garbage(seed, 7000+d.F, d.N))
	case "delrec":
		if d.F < len(recFiles) {
			fs.Del(recFiles[d.F])
		}
	default:
		panic("unknown damage op " + d.Op)
	}
}

// MenuOpts selects how dense the damage menu is.
type MenuOpts struct {
	Full bool // every offset; otherwise a reduced menu
}

// DataMenu enumerates single damage operators for files of the given
// sizes.
func DataMenu(sizes []int, sliceSize int, nRec int, full bool) []Dmg {
	var m []Dmg
	for f, n := range sizes {
		m = append(m, Dmg{Op: "del", F: f})
		ns := (n + sliceSize - 1) / sliceSize
		for k := 0; k < ns; k++ {
			m = append(m, Dmg{Op: "ovw", F: f, At: k})
			if sliceSize >= 8 && (k+1)*sliceSize <= n {
				m = append(m, Dmg{Op: "crcovw", F: f, At: k}) // other bytes, same CRC-32: only the MD5 tells them apart
			}
		}
		if full {
			for at := 0; at < n; at++ {
				m = append(m, Dmg{Op: "flip", F: f, At: at, Bit: 0}, Dmg{Op: "flip", F: f, At: at, Bit: 7})
			}
			for _, l := range []int{1, sliceSize - 1, sliceSize, sliceSize + 1} {
				for at := 0; at <= n; at++ {
					m = append(m, Dmg{Op: "ins", F: f, At: at, N: l})
				}
			}
			for at := 0; at < n; at++ {
				m = append(m, Dmg{Op: "trunc", F: f, At: at})
			}
			for at := 0; at < n; at++ {
				m = append(m, Dmg{Op: "cut", F: f, At: at, N: 1})
			}
			m = append(m, Dmg{Op: "app", F: f, N: 1}, Dmg{Op: "app", F: f, N: sliceSize}, Dmg{Op: "appz", F: f, N: 2})
		} else {
			m = append(m, Dmg{Op: "flip", F: f, At: n / 2, Bit: 3})
			m = append(m, Dmg{Op: "ins", F: f, At: 0, N: 1}, Dmg{Op: "ins", F: f, At: n / 2, N: sliceSize + 1})
			m = append(m, Dmg{Op: "trunc", F: f, At: n / 2}, Dmg{Op: "cut", F: f, At: 0, N: 1})
			m = append(m, Dmg{Op: "app", F: f, N: 2}, Dmg{Op: "appz", F: f, N: 2})
		}
		for g := range sizes {
			if g > f {
				m = append(m, Dmg{Op: "swap", F: f, G: g})
			}
			if g != f {
				m = append(m, Dmg{Op: "copy", F: f, G: g})
			}
		}
	}
	for v := 0; v < nRec; v++ {
		m = append(m, Dmg{Op: "delrec", F: v})
	}
	return m
}
