package scen

import (
	"bytes"
	"encoding/binary"
	"fmt"
	"path"
	"sort"
	"strings"

	"github.com/akalin/gopar/par2"

	"verifh/core"
	"verifh/envfs"
	"verifh/ref/gf16"
	"verifh/ref/lin"
	"verifh/ref/rpar2"
	"verifh/ref/scan"
)

// P2Config describes a PAR2 set to create with gopar itself.
type P2Config struct {
	Sizes   []int    `json:"sizes"`
	Names   []string `json:"names,omitempty"` // default f0,f1,...
	Class   string   `json:"class,omitempty"`
	Classes []string `json:"classes,omitempty"` // per file, overrides Class
	Slice   int      `json:"slice"`
	Blocks  int      `json:"blocks"`
	G       int      `json:"g,omitempty"` // goroutines (default 1)
	DupFile bool     `json:"dupfile,omitempty"`
	// Generation > 0: the bytes beyond the first 16 KiB of every file come from another stream. Sets of different
	// generations share names, lengths, slice size and the first 16 KiB, hence every file id and the recovery-set id
	// (neither covers content past 16 KiB), but have different slice checksums and recovery data.
	Generation int `json:"generation,omitempty"`
	// Reused: the set is written by one Encoder object on its second load / compute / write cycle (the first cycle ran
	// over other contents of the same files)
	Reused bool `json:"reused,omitempty"`
	// ReloadFails (with Reused): between the second cycle's compute and write, a LoadFileData fails (an input is missing
	// for a moment)
	ReloadFails bool `json:"reloadfails,omitempty"`
	// Base is the base name of the index file (default "s")
	Base string `json:"base,omitempty"`
}

func (c P2Config) Key() string { return fmt.Sprintf("%v", c) }

// P2Set is a created set plus the reference view of it.
type P2Set struct {
	Cfg      P2Config
	Dir      string
	Index    string
	Names    []string // as stored in the archive (relative), input order
	Paths    []string // absolute data file paths, input order
	Data     [][]byte // originals, input order
	Ref      *rpar2.Set
	RefIdx   []int // Ref.Files[i] corresponds to input index RefIdx[i]
	FS0      *envfs.FS
	RecFiles []string            // recovery file paths, sorted
	RecExps  map[string][]uint32 // exponents per recovery file
	Consts   []uint16
}

var p2cache = map[string]*P2Set{}

// GetP2 builds (memoised per process) a set with gopar's Create on an
// in-memory filesystem. seed perturbs content bytes only.
func GetP2(cfg P2Config, seed int64) (*P2Set, error) {
	key := fmt.Sprintf("%s|%d", cfg.Key(), seed)
	if s, ok := p2cache[key]; ok {
		return s, nil
	}
	s, err := BuildP2(cfg, seed)
	if err != nil {
		return nil, err
	}
	if len(p2cache) > 512 {
		p2cache = map[string]*P2Set{}
	}
	p2cache[key] = s
	return s, nil
}

// BuildP2 builds a set.
func BuildP2(cfg P2Config, seed int64) (*P2Set, error) {
	s := &P2Set{Cfg: cfg, Dir: "/d", Index: "/d/s.par2"}
	if cfg.Base != "" {
		s.Index = "/d/" + cfg.Base + ".par2"
	}
	fs := envfs.New()
	for i, n := range cfg.Sizes {
		name := fmt.Sprintf("f%d", i)
		if i < len(cfg.Names) && cfg.Names[i] != "" {
			name = cfg.Names[i]
		}
		class := cfg.Class
		if i < len(cfg.Classes) {
			class = cfg.Classes[i]
		}
		var data []byte
		if cfg.DupFile && i > 0 && n == cfg.Sizes[0] {
			data = append([]byte{}, s.Data[0]...)
		} else {
			data = Content(class, seed, i, n, cfg.Slice)
			if cfg.Generation > 0 && n > 16384 {
				alt := Content(class, seed+int64(cfg.Generation)*100003, i, n, cfg.Slice)
				copy(data[16384:], alt[16384:])
			}
		}
		s.Names = append(s.Names, name)
		s.Paths = append(s.Paths, path.Join(s.Dir, name))
		s.Data = append(s.Data, data)
		fs.Put(s.Paths[i], data)
	}
	g := cfg.G
	if g <= 0 {
		g = 1
	}
	var err error
	if cfg.Reused {
		// the set is written by an Encoder object that has already been through a whole load / compute / write cycle over
		// other contents of the same files (the staged API behind Create, used by a caller that keeps one Encoder)
		for i, p := range s.Paths {
			fs.Put(p, Content(cfg.Class, seed+4242, i, len(s.Data[i]), cfg.Slice))
		}
		var enc *par2.Encoder
		enc, err = par2.VerifNewEncoder(fs, par2.DoNothingCreateDelegate{}, s.Dir, s.Paths, cfg.Slice, cfg.Blocks, g)
		for round := 0; round < 2 && err == nil; round++ {
			if round == 1 {
				for i, p := range s.Paths {
					fs.Put(p, s.Data[i])
				}
			}
			if err = enc.LoadFileData(); err == nil {
				if err = enc.ComputeParityData(); err == nil {
					if round == 1 && cfg.ReloadFails {
						// a reload that fails half-way (the last input is gone for a moment) between compute and write: the
						// object still describes what it loaded before
						last := s.Paths[len(s.Paths)-1]
						keep, _ := fs.Get(last)
						fs.Del(last)
						if lerr := enc.LoadFileData(); lerr == nil {
							err = fmt.Errorf("scen: LoadFileData succeeded without %s", last)
							break
						}
						fs.Put(last, keep)
					}
					err = enc.Write(s.Index)
				}
			}
		}
	} else {
		err = par2.VerifCreate(fs, s.Index, s.Paths, par2.CreateOptions{SliceByteCount: cfg.Slice, NumParityShards: cfg.Blocks, NumGoroutines: g})
	}
	if err != nil {
		return nil, err
	}
	fs.ResetLog()
	s.FS0 = fs
	var specs []rpar2.FileSpec
	for i := range s.Names {
		specs = append(specs, rpar2.FileSpec{Name: s.Names[i], Data: s.Data[i]})
	}
	s.Ref = rpar2.NewSet(cfg.Slice, specs)
	for _, rf := range s.Ref.Files {
		for i := range s.Names {
			if s.Names[i] == rf.Name {
				s.RefIdx = append(s.RefIdx, i)
			}
		}
	}
	s.RecExps = map[string][]uint32{}
	for _, p := range fs.Paths() {
		if p != s.Index && strings.HasPrefix(p, strings.TrimSuffix(s.Index, ".par2")+".") && strings.HasSuffix(p, ".par2") {
			s.RecFiles = append(s.RecFiles, p)
			s.RecExps[p] = IntactExponents(fs.Files[p], s.Ref.SetID, cfg.Slice)
		}
	}
	s.Consts = gf16.Par2Constants(s.Ref.SliceCount())
	return s, nil
}

// IntactExponents returns the distinct exponents of intact recovery
// packets of the given set in a file that is entirely well-formed (a
// file with any malformed packet contributes nothing: gopar is allowed
// to reject it).
func IntactExponents(b []byte, setID [16]byte, sliceSize int) []uint32 {
	pk, err := rpar2.Parse(b)
	if err != nil {
		return nil
	}
	seen := map[uint32]bool{}
	var out []uint32
	for _, p := range pk {
		if p.SetID == setID && p.Type == rpar2.TypeRecv && len(p.Body) == 4+sliceSize {
			e := uint32(p.Body[0]) | uint32(p.Body[1])<<8 | uint32(p.Body[2])<<16 | uint32(p.Body[3])<<24
			if !seen[e] {
				seen[e] = true
				out = append(out, e)
			}
		}
	}
	sort.Slice(out, func(i, j int) bool { return out[i] < out[j] })
	return out
}

// P2Truth is the reference view of a (possibly damaged) directory.
type P2Truth struct {
	Intact            []bool // per input file: present and byte-identical
	AllIntact         bool
	Present           []bool
	Scan              scan.Result
	Missing           []int // global slice indices (recovery-set order) not findable
	K                 int
	DamagedFileSlices int // slices belonging to files that are not intact
	Total             int
	Exps              []uint32 // distinct intact exponents available beside the index
	N                 int
	LowestSingular    bool // system on the K lowest exponents is singular
	AnySingular       bool // some K-subset of the available exponents is singular (or not checked)
}

// Truth computes the reference view of fs for set s.
func (s *P2Set) Truth(fs *envfs.FS) P2Truth {
	var t P2Truth
	t.AllIntact = true
	var surviving [][]byte
	// order of surviving files: recovery-set order (does not matter for the result)
	t.Intact = make([]bool, len(s.Names))
	t.Present = make([]bool, len(s.Names))
	for _, ii := range s.RefIdx {
		b, ok := fs.Get(s.Paths[ii])
		if ok {
			t.Present[ii] = true
			surviving = append(surviving, b)
			if bytes.Equal(b, s.Data[ii]) {
				t.Intact[ii] = true
			}
		}
		if !t.Intact[ii] {
			t.AllIntact = false
			t.DamagedFileSlices += (len(s.Data[ii]) + s.Cfg.Slice - 1) / s.Cfg.Slice
		}
	}
	slices := s.Ref.AllSlices()
	t.Total = len(slices)
	t.Scan = scan.Scan(slices, s.Cfg.Slice, surviving)
	for i, f := range t.Scan.Found {
		if !f {
			t.Missing = append(t.Missing, i)
		}
	}
	t.K = len(t.Missing)
	seen := map[uint32]bool{}
	prefix := strings.TrimSuffix(s.Index, ".par2") + "."
	for _, p := range fs.Paths() {
		if p == s.Index || !strings.HasPrefix(p, prefix) || !strings.HasSuffix(p, ".par2") || strings.Contains(p[len(prefix):], "/") {
			continue
		}
		for _, e := range IntactExponents(fs.Files[p], s.Ref.SetID, s.Cfg.Slice) {
			if !seen[e] {
				seen[e] = true
				t.Exps = append(t.Exps, e)
			}
		}
	}
	sort.Slice(t.Exps, func(i, j int) bool { return t.Exps[i] < t.Exps[j] })
	t.N = len(t.Exps)
	if t.K > 0 && t.K <= t.N {
		t.LowestSingular = s.singular(t.Exps[:t.K], t.Missing)
		t.AnySingular = t.LowestSingular
		if !t.AnySingular {
			// all K-subsets, when few
			if binom(t.N, t.K) <= 300 {
				forSubsets(t.N, t.K, func(idx []int) bool {
					ex := make([]uint32, t.K)
					for i, j := range idx {
						ex[i] = t.Exps[j]
					}
					if s.singular(ex, t.Missing) {
						t.AnySingular = true
						return false
					}
					return true
				})
			} else {
				t.AnySingular = true // not checked: be conservative
			}
		}
	}
	return t
}

func (s *P2Set) singular(exps []uint32, cols []int) bool {
	m := lin.New(len(exps), len(cols))
	for i, e := range exps {
		for j, c := range cols {
			m[i][j] = gf16.Pow(s.Consts[c], uint64(e))
		}
	}
	return lin.Singular(m)
}

func binom(n, k int) int {
	if k > n {
		return 0
	}
	r := 1
	for i := 0; i < k; i++ {
		r = r * (n - i) / (i + 1)
		if r > 1000000 {
			return r
		}
	}
	return r
}

func forSubsets(n, k int, f func([]int) bool) {
	idx := make([]int, k)
	var rec func(start, d int) bool
	rec = func(start, d int) bool {
		if d == k {
			return f(idx)
		}
		for i := start; i <= n-(k-d); i++ {
			idx[d] = i
			if !rec(i+1, d+1) {
				return false
			}
		}
		return true
	}
	rec(0, 0)
}

// P2Obs is what the real operations did.
type P2Obs struct {
	VerifyErr    error
	VerifyPanic  *core.PanicInfo
	Counts       par2.ShardCounts
	VerifyWrites int
	VerifyDiff   []string

	RepairErr     error
	RepairPanic   *core.PanicInfo
	RepairedPaths []string
	RepairLog     []envfs.Op
	Before, After map[string][]byte
}

// ObserveVerify runs the real Verify on fs (which must not change).
func (s *P2Set) ObserveVerify(fs *envfs.FS, g int, o *P2Obs) {
	if g <= 0 {
		g = 1
	}
	before := fs.Snapshot()
	fs.ResetLog()
	o.VerifyPanic = core.Catch(func() {
		res, err := par2.VerifVerify(fs, s.Index, par2.VerifyOptions{NumGoroutines: g})
		o.VerifyErr = err
		o.Counts = res.ShardCounts
	})
	o.VerifyWrites = len(fs.Writes())
	o.VerifyDiff = envfs.Diff(before, fs.Snapshot())
	fs.ResetLog()
}

// ObserveRepair runs the real Repair on fs.
func (s *P2Set) ObserveRepair(fs *envfs.FS, g int, doubleCheck bool, o *P2Obs) {
	if g <= 0 {
		g = 1
	}
	o.Before = fs.Snapshot()
	fs.ResetLog()
	o.RepairPanic = core.Catch(func() {
		res, err := par2.VerifRepair(fs, s.Index, par2.RepairOptions{NumGoroutines: g, DoubleCheck: doubleCheck})
		o.RepairErr = err
		o.RepairedPaths = res.RepairedPaths
	})
	o.RepairLog = append([]envfs.Op{}, fs.Log...)
	o.After = fs.Snapshot()
	fs.ResetLog()
}

// AllOriginal reports whether every protected file in snap equals its
// original.
func (s *P2Set) AllOriginal(snap map[string][]byte) bool {
	for i, p := range s.Paths {
		b, ok := snap[p]
		if !ok || !bytes.Equal(b, s.Data[i]) {
			return false
		}
	}
	return true
}

// CheckWrites applies the C02 write oracle to a repair observation: every
// write targets a protected file with exactly its protected bytes and is
// listed in RepairedPaths; nothing else changed. It returns a list of
// (clause, detail) pairs.
func (s *P2Set) CheckWrites(o *P2Obs) [][2]string {
	orig := map[string][]byte{}
	for i, p := range s.Paths {
		orig[p] = s.Data[i]
	}
	return CheckWritesGeneric(orig, o.RepairLog, o.RepairedPaths, o.Before, o.After)
}

// ApplyDmg applies a damage operator, including the set-aware ones that
// act on recovery files:
//
//	badrec v     replace recovery file v by a well-formed file (reference writer) whose blocks carry wrong data
//	fliprec v    flip one payload byte of recovery file v (packet MD5 then fails)
//	truncrec v   cut recovery file v in the middle of its last packet
//	foreignrec   add s.vol77+01.par2 holding packets of a different recovery set
//	emptyrec v   make recovery file v empty
//	duprec v     copy recovery file v to <base>.backup<v>.par2 (the same blocks stored twice)
func (s *P2Set) ApplyDmg(fs *envfs.FS, d Dmg, seed int64) {
	switch d.Op {
	case "badrec":
		if d.F >= len(s.RecFiles) {
			return
		}
		p := s.RecFiles[d.F]
		pk := s.Ref.CorePackets("refwriter")
		for _, e := range s.RecExps[p] {
			blk := s.Ref.RecoveryBlock(int(e))
			blk[0] ^= 0x55
			blk[len(blk)-1] ^= 0xaa
			pk = append(pk, s.Ref.RecvPacket(e, blk))
		}
		fs.Put(p, rpar2.Join(pk...))
	case "fliprec":
		if d.F >= len(s.RecFiles) {
			return
		}
		p := s.RecFiles[d.F]
		b, ok := fs.Get(p)
		if !ok {
			return
		}
		nb := append([]byte{}, b...)
		nb[len(nb)-1-d.At%8] ^= 0x10
		fs.Put(p, nb)
	case "pktrec":
		// damage to one packet of a recovery file: d.At = packet index, d.N = what is hit
		if d.F >= len(s.RecFiles) {
			return
		}
		p := s.RecFiles[d.F]
		b, ok := fs.Get(p)
		if !ok {
			return
		}
		bd := rpar2.PacketBoundaries(b)
		if d.At+1 >= len(bd) {
			return
		}
		nb := append([]byte{}, b...)
		off, end := bd[d.At], bd[d.At+1]
		setLen := func(l int) { binary.LittleEndian.PutUint64(nb[off+8:off+16], uint64(l)) }
		switch d.N {
		case 0: // length field now also covers the next packet
			if d.At+2 < len(bd) {
				setLen(bd[d.At+2] - off)
			} else {
				setLen(end - off + 4)
			}
		case 1: // length field covers the rest of the file
			setLen(len(b) - off)
			if d.At+2 >= len(bd) {
				return
			}
		case 2:
			nb[end-1] ^= 0x04
		case 3:
			nb[off+20] ^= 0x80
		case 4:
			nb[off+3] ^= 0x01
		case 5:
			setLen(end - off - 4)
		}
		fs.Put(p, nb)
	case "truncrec":
		if d.F >= len(s.RecFiles) {
			return
		}
		p := s.RecFiles[d.F]
		b, ok := fs.Get(p)
		if !ok {
			return
		}
		fs.Put(p, b[:len(b)-3])
	case "emptyrec":
		if d.F >= len(s.RecFiles) {
			return
		}
		fs.Put(s.RecFiles[d.F], nil)
	case "duprec":
		// a copy of recovery file v under another name beside the index (e.g. a backup): the same blocks twice
		if d.F >= len(s.RecFiles) {
			return
		}
		if b, ok := fs.Get(s.RecFiles[d.F]); ok {
			fs.Put(strings.TrimSuffix(s.Index, ".par2")+fmt.Sprintf(".backup%d.par2", d.F), b)
		}
	case "foreignrec":
		other := rpar2.NewSet(s.Cfg.Slice, []rpar2.FileSpec{{Name: "zz", Data: Garbage(seed, 31337, 2*s.Cfg.Slice+1)}})
		pk := other.CorePackets("refwriter")
		pk = append(pk, other.RecvPacket(0, other.RecoveryBlock(0)))
		fs.Put(strings.TrimSuffix(s.Index, ".par2")+".vol77+01.par2", rpar2.Join(pk...))
	default:
		ApplyData(fs, s.Paths, s.RecFiles, s.Cfg.Slice, seed, d)
	}
}

// RecMenu lists the recovery-file damage operators.
func RecMenu(nRec int) []Dmg {
	var m []Dmg
	for v := 0; v < nRec; v++ {
		m = append(m, Dmg{Op: "badrec", F: v}, Dmg{Op: "fliprec", F: v}, Dmg{Op: "truncrec", F: v}, Dmg{Op: "emptyrec", F: v})
	}
	m = append(m, Dmg{Op: "foreignrec"})
	return m
}

// PktRecMenu lists, for recovery file v, every (packet, header/body damage kind) pair.
func (s *P2Set) PktRecMenu(v int) []Dmg {
	var m []Dmg
	if v >= len(s.RecFiles) {
		return m
	}
	n := len(rpar2.PacketBoundaries(s.FS0.Files[s.RecFiles[v]])) - 1
	for k := 0; k < n; k++ {
		for kind := 0; kind <= 5; kind++ {
			m = append(m, Dmg{Op: "pktrec", F: v, At: k, N: kind})
		}
	}
	return m
}

// DupRecMenu lists "copy recovery file v under another name" for every v.
func DupRecMenu(nRec int) []Dmg {
	var m []Dmg
	for v := 0; v < nRec; v++ {
		m = append(m, Dmg{Op: "duprec", F: v})
	}
	return m
}
