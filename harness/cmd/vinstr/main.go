// vinstr instruments, from the current working tree of the repository,
// every non-test Go file that contains a go statement or imports
// sync / sync/atomic, and writes a `go build -overlay` description that
// (1) replaces those files by instrumented copies and (2) adds the virtual
// package github.com/akalin/gopar/rsec16/vsched. /repo itself is untouched.
package main

import (
	"bytes"
	"encoding/json"
	"flag"
	"fmt"
	"go/ast"
	"go/format"
	"go/parser"
	"go/token"
	"io/ioutil"
	"os"
	"path/filepath"
	"strconv"
	"strings"
)

const vschedPath = "github.com/akalin/gopar/rsec16/vsched"

type report struct {
	Instrumented []string `json:"instrumented"`
	Unsupported  []string `json:"unsupported"`
	GoStmts      int      `json:"go_statements"`
	Yields       int      `json:"yield_points"`
	Kernels      int      `json:"kernel_call_sites"`
}

func main() {
	repo := flag.String("repo", "/repo", "")
	out := flag.String("out", "", "output directory")
	vsrc := flag.String("vsched", "", "path of vsched.go.txt")
	flag.Parse()
	if *out == "" || *vsrc == "" {
		fmt.Fprintln(os.Stderr, "usage: vinstr -repo /repo -out DIR -vsched FILE")
		os.Exit(2)
	}
	os.MkdirAll(*out, 0755)
	rep := report{}
	overlay := map[string]string{}
	pkgs := []string{"rsec16", "par1", "par2", "gf2p16", "gf2", "memfs"}
	for _, pkg := range pkgs {
		files, _ := filepath.Glob(filepath.Join(*repo, pkg, "*.go"))
		for _, f := range files {
			if strings.HasSuffix(f, "_test.go") {
				continue
			}
			src, err := ioutil.ReadFile(f)
			if err != nil {
				continue
			}
			fset := token.NewFileSet()
			af, err := parser.ParseFile(fset, f, src, parser.ParseComments)
			if err != nil {
				fmt.Fprintln(os.Stderr, "parse:", err)
				os.Exit(2)
			}
			need, unsup := needsInstrumentation(af)
			if !need {
				continue
			}
			rel := pkg + "/" + filepath.Base(f)
			if pkg == "gf2p16" || pkg == "gf2" {
				rep.Unsupported = append(rep.Unsupported, rel+": concurrency inside "+pkg+" cannot be scheduled (import cycle with the scheduler)")
				continue
			}
			for _, u := range unsup {
				rep.Unsupported = append(rep.Unsupported, rel+": "+u)
			}
			code, err := instrument(fset, af, src, filepath.Base(f), &rep)
			if err != nil {
				rep.Unsupported = append(rep.Unsupported, rel+": "+err.Error())
				continue
			}
			dst := filepath.Join(*out, strings.Replace(rel, "/", "__", -1))
			if err := ioutil.WriteFile(dst, code, 0644); err != nil {
				panic(err)
			}
			overlay[f] = dst
			rep.Instrumented = append(rep.Instrumented, rel)
		}
	}
	vs, err := ioutil.ReadFile(*vsrc)
	if err != nil {
		panic(err)
	}
	vdst := filepath.Join(*out, "vsched.go")
	ioutil.WriteFile(vdst, vs, 0644)
	overlay[filepath.Join(*repo, "rsec16", "vsched", "vsched.go")] = vdst
	ob, _ := json.MarshalIndent(map[string]interface{}{"Replace": overlay}, "", " ")
	ioutil.WriteFile(filepath.Join(*out, "overlay.json"), ob, 0644)
	rb, _ := json.MarshalIndent(rep, "", " ")
	ioutil.WriteFile(filepath.Join(*out, "report.json"), rb, 0644)
	fmt.Println(string(rb))
}

func needsInstrumentation(af *ast.File) (bool, []string) {
	need := false
	var unsup []string
	for _, im := range af.Imports {
		p, _ := strconv.Unquote(im.Path.Value)
		if p == "sync" {
			need = true
		}
		if p == "sync/atomic" {
			need = true
			unsup = append(unsup, "sync/atomic is not modelled by the scheduler")
		}
	}
	ast.Inspect(af, func(n ast.Node) bool {
		switch x := n.(type) {
		case *ast.GoStmt:
			need = true
		case *ast.ChanType:
			unsup = append(unsup, "channels are not modelled by the scheduler")
		case *ast.SelectStmt:
			unsup = append(unsup, "select is not modelled by the scheduler")
		case *ast.SelectorExpr:
			if id, ok := x.X.(*ast.Ident); ok && id.Name == "sync" {
				switch x.Sel.Name {
				case "WaitGroup", "Mutex", "RWMutex", "Once":
				default:
					unsup = append(unsup, "sync."+x.Sel.Name+" is not modelled by the scheduler")
				}
			}
		}
		return true
	})
	return need, unsup
}

func instrument(fset *token.FileSet, af *ast.File, src []byte, base string, rep *report) ([]byte, error) {
	// keep build constraints, drop other comments (they would be misplaced by the rewriting)
	var header []string
	for _, cg := range af.Comments {
		if cg.Pos() < af.Package {
			for _, c := range cg.List {
				if strings.HasPrefix(c.Text, "//go:build") || strings.HasPrefix(c.Text, "// +build") {
					header = append(header, c.Text)
				}
			}
		}
	}
	af.Comments = nil
	af.Doc = nil

	usesGf := false
	// 1. imports: sync -> vsched under the name sync; add vsched
	for _, im := range af.Imports {
		p, _ := strconv.Unquote(im.Path.Value)
		if p == "sync" {
			im.Path.Value = strconv.Quote(vschedPath)
			im.Name = ast.NewIdent("sync")
		}
		if p == "github.com/akalin/gopar/gf2p16" {
			usesGf = true
		}
	}
	// 2. rewrite statements
	var rewriteBlock func(list []ast.Stmt) []ast.Stmt
	yieldStmt := func(pos token.Pos) ast.Stmt {
		p := fset.Position(pos)
		rep.Yields++
		return &ast.ExprStmt{X: &ast.CallExpr{Fun: &ast.SelectorExpr{X: ast.NewIdent("vsched"), Sel: ast.NewIdent("Yield")},
			Args: []ast.Expr{&ast.BasicLit{Kind: token.STRING, Value: strconv.Quote(fmt.Sprintf("%s:%d", base, p.Line))}}}}
	}
	tmp := 0
	rewriteGo := func(g *ast.GoStmt) ast.Stmt {
		rep.GoStmts++
		var pre []ast.Stmt
		call := g.Call
		var args []ast.Expr
		for _, a := range call.Args {
			tmp++
			name := fmt.Sprintf("vschedArg%d", tmp)
			pre = append(pre, &ast.AssignStmt{Lhs: []ast.Expr{ast.NewIdent(name)}, Tok: token.DEFINE, Rhs: []ast.Expr{a}})
			args = append(args, ast.NewIdent(name))
		}
		fun := call.Fun
		if _, isLit := fun.(*ast.FuncLit); !isLit {
			tmp++
			name := fmt.Sprintf("vschedFn%d", tmp)
			pre = append(pre, &ast.AssignStmt{Lhs: []ast.Expr{ast.NewIdent(name)}, Tok: token.DEFINE, Rhs: []ast.Expr{fun}})
			fun = ast.NewIdent(name)
		}
		inner := &ast.CallExpr{Fun: fun, Args: args, Ellipsis: call.Ellipsis}
		if call.Ellipsis != token.NoPos {
			inner.Ellipsis = 1
		}
		wrapper := &ast.FuncLit{Type: &ast.FuncType{Params: &ast.FieldList{}}, Body: &ast.BlockStmt{List: []ast.Stmt{&ast.ExprStmt{X: inner}}}}
		spawn := &ast.ExprStmt{X: &ast.CallExpr{Fun: &ast.SelectorExpr{X: ast.NewIdent("vsched"), Sel: ast.NewIdent("Go")}, Args: []ast.Expr{wrapper}}}
		return &ast.BlockStmt{List: append(pre, spawn)}
	}
	var rewriteStmt func(s ast.Stmt) ast.Stmt
	rewriteStmt = func(s ast.Stmt) ast.Stmt {
		switch x := s.(type) {
		case *ast.GoStmt:
			// rewrite nested function literal bodies first
			rewriteExprFuncLits(x.Call, rewriteBlockPtr(&rewriteBlock))
			return rewriteGo(x)
		case *ast.BlockStmt:
			x.List = rewriteBlock(x.List)
		case *ast.IfStmt:
			x.Body.List = rewriteBlock(x.Body.List)
			if x.Else != nil {
				x.Else = rewriteStmt(x.Else)
			}
		case *ast.ForStmt:
			x.Body.List = rewriteBlock(x.Body.List)
		case *ast.RangeStmt:
			x.Body.List = rewriteBlock(x.Body.List)
		case *ast.SwitchStmt:
			for _, cc := range x.Body.List {
				c := cc.(*ast.CaseClause)
				c.Body = rewriteBlock(c.Body)
			}
		case *ast.TypeSwitchStmt:
			for _, cc := range x.Body.List {
				c := cc.(*ast.CaseClause)
				c.Body = rewriteBlock(c.Body)
			}
		case *ast.LabeledStmt:
			x.Stmt = rewriteStmt(x.Stmt)
		}
		// function literals inside expressions of this statement
		switch x := s.(type) {
		case *ast.ExprStmt:
			rewriteExprFuncLits(x.X, rewriteBlockPtr(&rewriteBlock))
		case *ast.AssignStmt:
			for _, e := range x.Rhs {
				rewriteExprFuncLits(e, rewriteBlockPtr(&rewriteBlock))
			}
		case *ast.DeferStmt:
			rewriteExprFuncLits(x.Call, rewriteBlockPtr(&rewriteBlock))
		case *ast.ReturnStmt:
			for _, e := range x.Results {
				rewriteExprFuncLits(e, rewriteBlockPtr(&rewriteBlock))
			}
		}
		return s
	}
	rewriteBlock = func(list []ast.Stmt) []ast.Stmt {
		var out []ast.Stmt
		for _, s := range list {
			pos := s.Pos()
			ns := rewriteStmt(s)
			if _, isDecl := s.(*ast.DeclStmt); !isDecl {
				out = append(out, yieldStmt(pos))
			}
			out = append(out, ns)
		}
		return out
	}
	for _, d := range af.Decls {
		if fd, ok := d.(*ast.FuncDecl); ok && fd.Body != nil {
			fd.Body.List = rewriteBlock(fd.Body.List)
		}
	}
	// 3. kernel call sites
	ast.Inspect(af, func(n ast.Node) bool {
		if se, ok := n.(*ast.SelectorExpr); ok {
			if id, ok := se.X.(*ast.Ident); ok && id.Name == "gf2p16" && (se.Sel.Name == "MulByteSliceLE" || se.Sel.Name == "MulAndAddByteSliceLE") {
				id.Name = "vsched"
				rep.Kernels++
			}
		}
		return true
	})
	// 4. print, then patch the import block textually (adding the vsched import)
	var buf bytes.Buffer
	if err := format.Node(&buf, fset, af); err != nil {
		return nil, err
	}
	code := buf.String()
	add := "\nimport vsched " + strconv.Quote(vschedPath) + "\n"
	if usesGf {
		add += "\nvar _ gf2p16.T\n"
	}
	i := strings.Index(code, "\nimport ")
	if i < 0 {
		// no imports at all: put after the package clause
		j := strings.Index(code, "\n")
		code = code[:j+1] + add + code[j+1:]
	} else {
		code = code[:i] + add + code[i:]
	}
	// vsched import must come before use of `var _ gf2p16.T`? order of top-level decls is free in Go, but imports must precede other decls:
	if usesGf {
		code = strings.Replace(code, "\nvar _ gf2p16.T\n", "\n", 1) + "\nvar _ gf2p16.T\n"
	}
	hdr := ""
	if len(header) > 0 {
		hdr = strings.Join(header, "\n") + "\n\n"
	}
	final := "// Code generated by /verif vinstr from " + base + "; DO NOT EDIT.\n\n" + hdr + code
	res, err := format.Source([]byte(final))
	if err != nil {
		return []byte(final), fmt.Errorf("generated code does not format: %v", err)
	}
	return res, nil
}

func rewriteBlockPtr(f *func([]ast.Stmt) []ast.Stmt) func([]ast.Stmt) []ast.Stmt {
	return func(l []ast.Stmt) []ast.Stmt { return (*f)(l) }
}

// rewriteExprFuncLits instruments the bodies of function literals found in e.
func rewriteExprFuncLits(e ast.Node, rb func([]ast.Stmt) []ast.Stmt) {
	ast.Inspect(e, func(n ast.Node) bool {
		if fl, ok := n.(*ast.FuncLit); ok {
			fl.Body.List = rb(fl.Body.List)
			return false
		}
		return true
	})
}
