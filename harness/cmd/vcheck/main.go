// vcheck is the single binary behind ./check: driver, worker and replay.
package main

import (
	"flag"
	"fmt"
	"os"
	"strconv"
	"strings"

	"verifh/core"
	_ "verifh/props"
)

func usage() {
	fmt.Fprintf(os.Stderr, "usage: vcheck run <ID> <quick|thorough> | replay <ID> <file> | worker <ID> ... | list\n")
	os.Exit(2)
}

func main() {
	if len(os.Args) < 2 {
		usage()
	}
	switch os.Args[1] {
	case "list":
		for _, id := range core.IDs() {
			fmt.Println(id)
		}
	case "run":
		if len(os.Args) < 4 {
			usage()
		}
		p := core.Lookup(os.Args[2])
		if p == nil {
			fmt.Fprintln(os.Stderr, "unknown property", os.Args[2])
			os.Exit(2)
		}
		tier := os.Args[3]
		if tier != "quick" && tier != "thorough" {
			usage()
		}
		os.Exit(core.DriverMain(p, tier))
	case "replay":
		if len(os.Args) < 4 {
			usage()
		}
		p := core.Lookup(os.Args[2])
		if p == nil {
			fmt.Fprintln(os.Stderr, "unknown property", os.Args[2])
			os.Exit(2)
		}
		os.Exit(core.ReplayMain(p, os.Args[3]))
	case "worker":
		if len(os.Args) < 3 {
			usage()
		}
		p := core.Lookup(os.Args[2])
		if p == nil {
			os.Exit(2)
		}
		fs := flag.NewFlagSet("worker", flag.ExitOnError)
		tier := fs.String("tier", "quick", "")
		seed := fs.Int64("seed", 1, "")
		shard := fs.Int("shard", 0, "")
		n := fs.Int("n", 1, "")
		out := fs.String("out", "", "")
		trace := fs.String("trace", "", "")
		deadline := fs.Int64("deadline", 0, "")
		skipS := fs.String("skip", "", "")
		fs.Parse(os.Args[3:])
		skip := map[int64]bool{}
		for _, x := range strings.Split(*skipS, ",") {
			if v, err := strconv.ParseInt(x, 10, 64); err == nil {
				skip[v] = true
			}
		}
		os.Exit(core.WorkerMain(p, *tier, *seed, *shard, *n, *out, *trace, *deadline, skip))
	case "aux":
		// auxiliary entry points registered by properties: reference observations that must come from a FRESH process
		if len(os.Args) < 3 || core.Aux[os.Args[2]] == nil {
			usage()
		}
		os.Exit(core.Aux[os.Args[2]](os.Args[3:]))
	default:
		usage()
	}
}
