package ref

import (
	"bytes"
	"testing"

	"verifh/ref/gf16"
	"verifh/ref/gf8"
	"verifh/ref/lin"
	"verifh/ref/rpar1"
	"verifh/ref/rpar2"
	"verifh/ref/scan"
)

// Self-tests of the trusted base: they use only the reference packages
// (no gopar code) and known values from the specifications.

func TestGF16Axioms(t *testing.T) {
	if gf16.MulSlow(2, 0x8000) != 0x100b {
		t.Fatalf("x * x^15 must reduce to 0x100b, got %#x", gf16.MulSlow(2, 0x8000))
	}
	for a := 1; a < 65536; a += 97 {
		if gf16.Mul(uint16(a), gf16.Inv(uint16(a))) != 1 {
			t.Fatalf("a*inv(a) != 1 for %d", a)
		}
		for b := 1; b < 65536; b += 1021 {
			for c := 1; c < 65536; c += 8191 {
				l := gf16.Mul(uint16(a), gf16.Mul(uint16(b), uint16(c)))
				r := gf16.Mul(gf16.Mul(uint16(a), uint16(b)), uint16(c))
				if l != r {
					t.Fatal("associativity")
				}
				if gf16.Mul(uint16(a), uint16(b)^uint16(c)) != gf16.Mul(uint16(a), uint16(b))^gf16.Mul(uint16(a), uint16(c)) {
					t.Fatal("distributivity")
				}
			}
		}
	}
	if gf16.Pow(0, 0) != 1 || gf16.Pow(0, 5) != 0 || gf16.Pow(7, 65535) != 1 {
		t.Fatal("pow corner cases")
	}
	c := gf16.Par2Constants(4)
	if c[0] != 2 || c[1] != 4 || c[2] != 16 || c[3] != 128 {
		t.Fatalf("PAR2 constants must start 2,4,16,128 (exponents 1,2,4,7), got %v", c)
	}
	if len(gf16.Par2Constants(40000)) != 32768 {
		t.Fatal("there are exactly 32768 PAR2 constants")
	}
}

func TestGF8(t *testing.T) {
	if gf8.Mul(0x80, 2) != 0x1d {
		t.Fatalf("x^7 * x must reduce to 0x1d, got %#x", gf8.Mul(0x80, 2))
	}
	for a := 1; a < 256; a++ {
		if gf8.Mul(byte(a), gf8.Inv(byte(a))) != 1 {
			t.Fatal("inverse")
		}
	}
	if gf8.Pow(3, 0) != 1 || gf8.Pow(0, 0) != 1 {
		t.Fatal("pow")
	}
}

func TestLin(t *testing.T) {
	m := lin.M{{1, 2, 3}, {4, 5, 6}, {7, 8, 10}}
	inv, ok := lin.InverseAdj(m)
	if !ok || !lin.Equal(lin.Mul(m, inv), lin.Identity(3)) {
		t.Fatal("adjugate inverse")
	}
	if lin.Singular(m) || !lin.Singular(lin.M{{1, 2}, {2, 4}}) || lin.DetCofactor(lin.M{{1, 2}, {2, 4}}) != 0 {
		t.Fatal("singularity")
	}
	x := lin.Solve(m, lin.Identity(3))
	if !lin.Equal(x, inv) {
		t.Fatal("solve != adjugate inverse")
	}
}

func TestRpar2RoundTrip(t *testing.T) {
	set := rpar2.NewSet(4, []rpar2.FileSpec{{Name: "a", Data: []byte("hello world")}, {Name: "d/b", Data: []byte{1, 2, 3, 4, 5, 6}}})
	pk := set.CorePackets("x")
	pk = append(pk, set.RecvPacket(3, set.RecoveryBlock(3)))
	b := rpar2.Join(pk...)
	parsed, err := rpar2.Parse(b)
	if err != nil {
		t.Fatal(err)
	}
	pf, err := rpar2.Interpret(parsed)
	if err != nil {
		t.Fatal(err)
	}
	if pf.SetID != set.SetID || len(pf.Desc) != 2 || len(pf.Recv) != 1 || !pf.HasCreator {
		t.Fatal("round trip lost packets")
	}
	// recovery block 0 is the plain xor of all slices
	blk := set.RecoveryBlock(0)
	want := make([]byte, 4)
	for _, s := range set.AllSlices() {
		for i := range want {
			want[i] ^= s[i]
		}
	}
	if !bytes.Equal(blk, want) {
		t.Fatal("block 0 must be the xor of the slices")
	}
	b[len(b)-1] ^= 1
	if _, err := rpar2.Parse(b); err == nil {
		t.Fatal("strict reader accepted a corrupted packet")
	}
}

func TestRpar1RoundTrip(t *testing.T) {
	files := [][]byte{[]byte("abcdefg"), []byte("xy")}
	es := []rpar1.Entry{rpar1.MakeEntry("a\U0001F600", files[0], true), rpar1.MakeEntry("b", files[1], true)}
	b := rpar1.Write(1, es, rpar1.Parity(files, 1))
	v, err := rpar1.Parse(b)
	if err != nil {
		t.Fatal(err)
	}
	if v.Number != 1 || len(v.Entries) != 2 || v.Entries[0].Name != "a\U0001F600" || len(v.Entries[0].RawName) != 6 {
		t.Fatal("round trip")
	}
	// parity volume 1 is the plain xor (i^0 = 1)
	p := rpar1.Parity(files, 1)
	if p[0] != 'a'^'x' || p[2] != 'c' {
		t.Fatal("volume 1 must be the xor of the zero-padded files")
	}
	b[0x60] ^= 1
	if _, err := rpar1.Parse(b); err == nil {
		t.Fatal("strict reader accepted a corrupted volume")
	}
}

func TestScan(t *testing.T) {
	slices := [][]byte{{1, 2, 3, 4}, {5, 6, 0, 0}}
	r := scan.Scan(slices, 4, [][]byte{{9, 1, 2, 3, 4, 5, 6}})
	if !r.Found[0] || !r.Found[1] || !r.OverlapFree || r.CountMissing() != 0 {
		t.Fatalf("scan: %+v", r)
	}
	r = scan.Scan(slices, 4, [][]byte{{5, 6, 7}})
	if r.Found[1] {
		t.Fatal("padding only at end of file")
	}
}
