// Package gf16 is the reference model of GF(2^16) modulo
// x^16+x^12+x^3+x+1 (0x1100B), written from the definition
// (shift-and-xor carry-less multiplication with reduction). It shares no
// code and no tables with gopar's gf2p16 or gf2 packages.
package gf16

// Poly is the field polynomial.
const Poly = 0x1100B

// MulSlow multiplies by shift-and-xor with reduction after each shift.
func MulSlow(a, b uint16) uint16 {
	var acc uint32
	aa := uint32(a)
	for i := 0; i < 16; i++ {
		if b&(1<<uint(i)) != 0 {
			acc ^= aa
		}
		aa <<= 1
		if aa&0x10000 != 0 {
			aa ^= Poly
		}
	}
	return uint16(acc)
}

// Xtime multiplies by x (i.e. by 2).
func Xtime(a uint16) uint16 {
	v := uint32(a) << 1
	if v&0x10000 != 0 {
		v ^= Poly
	}
	return uint16(v)
}

var logT [65536]int32
var expT [2 * 65535]uint16

func init() {
	// 2 is primitive for 0x1100B (order 65535); checked below.
	x := uint16(1)
	for i := 0; i < 65535; i++ {
		if i > 0 && x == 1 {
			panic("gf16: 2 is not primitive")
		}
		expT[i] = x
		expT[i+65535] = x
		logT[x] = int32(i)
		x = Xtime(x)
	}
	if x != 1 {
		panic("gf16: order of 2 is not 65535")
	}
	// self-check of the table against the slow product on a spread of pairs
	for a := 1; a < 65536; a += 257 {
		for b := 1; b < 65536; b += 263 {
			if Mul(uint16(a), uint16(b)) != MulSlow(uint16(a), uint16(b)) {
				panic("gf16: table self-check failed")
			}
		}
	}
}

// Mul multiplies via the reference's own log/exp tables (base 2).
func Mul(a, b uint16) uint16 {
	if a == 0 || b == 0 {
		return 0
	}
	return expT[logT[a]+logT[b]]
}

// Inv returns the inverse (a != 0).
func Inv(a uint16) uint16 {
	if a == 0 {
		panic("gf16: inverse of zero")
	}
	return expT[(65535-logT[a])%65535]
}

// Div returns a/b (b != 0).
func Div(a, b uint16) uint16 { return Mul(a, Inv(b)) }

// Pow computes a^p by square-and-multiply with MulSlow-free table
// products; 0^0 = 1.
func Pow(a uint16, p uint64) uint16 {
	r := uint16(1)
	base := a
	for p > 0 {
		if p&1 != 0 {
			r = Mul(r, base)
		}
		base = Mul(base, base)
		p >>= 1
	}
	return r
}

// Exp2 returns 2^n.
func Exp2(n int) uint16 { return expT[n%65535] }

// Par2Constants returns the first n PAR2 input-slice constants: 2^k for
// k = 1,2,4,7,... (k not divisible by 3, 5, 17, 257), in order.
func Par2Constants(n int) []uint16 {
	out := make([]uint16, 0, n)
	for k := 1; len(out) < n && k < 65535; k++ {
		if k%3 == 0 || k%5 == 0 || k%17 == 0 || k%257 == 0 {
			continue
		}
		out = append(out, Exp2(k))
	}
	return out
}
