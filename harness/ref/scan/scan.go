// Package scan is the brute-force reference for "which protected slices
// occur, contiguously, at some byte offset of some surviving file (zero
// padding only at end of file)".
package scan

import "bytes"

// Occ is one occurrence.
type Occ struct {
	File   int // index of the surviving file
	Offset int
	Slice  int // global slice index (first index with that content)
}

// Result of a scan.
type Result struct {
	Found       []bool // per global protected slice: content occurs somewhere
	Occs        []Occ
	OverlapFree bool // all occurrences within each file are pairwise non-overlapping
}

// Window returns data[j:j+s] zero-padded at EOF.
func Window(data []byte, j, s int) []byte {
	w := make([]byte, s)
	copy(w, data[j:])
	return w
}

// Scan compares every window of every surviving file with every
// protected slice (padded).
func Scan(slices [][]byte, sliceSize int, files [][]byte) Result {
	res := Result{Found: make([]bool, len(slices)), OverlapFree: true}
	// group equal slices
	idx := map[string][]int{}
	for i, s := range slices {
		idx[string(s)] = append(idx[string(s)], i)
	}
	// for big slices, an exact pre-filter on the first 8 bytes avoids materialising every window (the comparison that
	// decides is still the full byte-wise one)
	const pre = 8
	var prefix map[[pre]byte]bool
	if sliceSize > 64 {
		prefix = map[[pre]byte]bool{}
		for _, s := range slices {
			var k [pre]byte
			copy(k[:], s)
			prefix[k] = true
		}
	}
	for fi, data := range files {
		lastEnd := -1
		for j := 0; j < len(data); j++ {
			if prefix != nil {
				var k [pre]byte
				copy(k[:], data[j:]) // zero-padded at EOF like the window itself
				if !prefix[k] {
					continue
				}
			}
			var w []byte
			if j+sliceSize <= len(data) {
				w = data[j : j+sliceSize]
			} else {
				w = Window(data, j, sliceSize)
			}
			is, ok := idx[string(w)]
			if !ok {
				continue
			}
			for _, i := range is {
				res.Found[i] = true
			}
			res.Occs = append(res.Occs, Occ{File: fi, Offset: j, Slice: is[0]})
			if j < lastEnd {
				res.OverlapFree = false
			}
			lastEnd = j + sliceSize
		}
	}
	return res
}

// CountMissing returns the number of slices not found.
func (r Result) CountMissing() int {
	n := 0
	for _, f := range r.Found {
		if !f {
			n++
		}
	}
	return n
}

// Equal is bytes.Equal (kept here so callers need no extra import).
func Equal(a, b []byte) bool { return bytes.Equal(a, b) }
