// Package rpar1 is an independent PAR 1.0 reader and writer written from
// the specification. It shares no code with gopar's par1 package.
package rpar1

import (
	"bytes"
	"crypto/md5"
	"encoding/binary"
	"fmt"
	"unicode/utf16"

	"verifh/ref/gf8"
)

// Entry is one file-list entry.
type Entry struct {
	Status  uint64 // bit 0: saved in the parity volume set
	Size    uint64
	MD5     [16]byte
	MD516k  [16]byte
	Name    string
	RawName []byte // UTF-16LE bytes
}

func (e Entry) Saved() bool { return e.Status&1 != 0 }

// Volume is a parsed PAR1 file.
type Volume struct {
	Version    uint64
	Control    [16]byte
	SetHash    [16]byte
	Number     uint64
	FileCount  uint64
	ListOffset uint64
	ListSize   uint64
	DataOffset uint64
	DataSize   uint64
	Entries    []Entry
	Data       []byte
}

func hash16k(d []byte) [16]byte {
	if len(d) > 16384 {
		d = d[:16384]
	}
	return md5.Sum(d)
}

// EncodeName returns UTF-16LE bytes (surrogate pairs for astral runes).
func EncodeName(s string) []byte {
	u := utf16.Encode([]rune(s))
	b := make([]byte, 2*len(u))
	for i, x := range u {
		binary.LittleEndian.PutUint16(b[2*i:], x)
	}
	return b
}

// MakeEntry derives an entry for a file.
func MakeEntry(name string, data []byte, saved bool) Entry {
	e := Entry{Size: uint64(len(data)), MD5: md5.Sum(data), MD516k: hash16k(data), Name: name, RawName: EncodeName(name)}
	if saved {
		e.Status = 1
	}
	return e
}

// SetHash is MD5 over the MD5s of the saved entries, in list order.
func SetHash(es []Entry) [16]byte {
	var in []byte
	for _, e := range es {
		if e.Saved() {
			in = append(in, e.MD5[:]...)
		}
	}
	return md5.Sum(in)
}

// Write serialises a volume (number 0 = index with comment as data).
func Write(number uint64, es []Entry, data []byte) []byte {
	var list []byte
	for _, e := range es {
		var h [56]byte
		binary.LittleEndian.PutUint64(h[0:], uint64(56+len(e.RawName)))
		binary.LittleEndian.PutUint64(h[8:], e.Status)
		binary.LittleEndian.PutUint64(h[16:], e.Size)
		copy(h[24:40], e.MD5[:])
		copy(h[40:56], e.MD516k[:])
		list = append(list, h[:]...)
		list = append(list, e.RawName...)
	}
	out := make([]byte, 0x60)
	copy(out[0:8], []byte{'P', 'A', 'R', 0, 0, 0, 0, 0})
	binary.LittleEndian.PutUint64(out[0x08:], 0x00010000)
	sh := SetHash(es)
	copy(out[0x20:0x30], sh[:])
	binary.LittleEndian.PutUint64(out[0x30:], number)
	binary.LittleEndian.PutUint64(out[0x38:], uint64(len(es)))
	binary.LittleEndian.PutUint64(out[0x40:], 0x60)
	binary.LittleEndian.PutUint64(out[0x48:], uint64(len(list)))
	binary.LittleEndian.PutUint64(out[0x50:], uint64(0x60+len(list)))
	binary.LittleEndian.PutUint64(out[0x58:], uint64(len(data)))
	out = append(out, list...)
	out = append(out, data...)
	return Rehash(out)
}

// Rehash recomputes the control hash in place.
func Rehash(b []byte) []byte {
	h := md5.Sum(b[0x20:])
	copy(b[0x10:0x20], h[:])
	return b
}

// Parse strictly parses a PAR1 file.
func Parse(b []byte) (*Volume, error) {
	if len(b) < 0x60 {
		return nil, fmt.Errorf("shorter than the 96-byte header")
	}
	if !bytes.Equal(b[0:8], []byte{'P', 'A', 'R', 0, 0, 0, 0, 0}) {
		return nil, fmt.Errorf("bad identification string")
	}
	v := &Volume{}
	v.Version = binary.LittleEndian.Uint64(b[0x08:])
	if uint32(v.Version) != 0x00010000 {
		return nil, fmt.Errorf("version %#x", v.Version)
	}
	copy(v.Control[:], b[0x10:0x20])
	if md5.Sum(b[0x20:]) != v.Control {
		return nil, fmt.Errorf("control hash is not MD5 of bytes [0x20:]")
	}
	copy(v.SetHash[:], b[0x20:0x30])
	v.Number = binary.LittleEndian.Uint64(b[0x30:])
	v.FileCount = binary.LittleEndian.Uint64(b[0x38:])
	v.ListOffset = binary.LittleEndian.Uint64(b[0x40:])
	v.ListSize = binary.LittleEndian.Uint64(b[0x48:])
	v.DataOffset = binary.LittleEndian.Uint64(b[0x50:])
	v.DataSize = binary.LittleEndian.Uint64(b[0x58:])
	if v.ListOffset != 0x60 {
		return nil, fmt.Errorf("file list offset %#x", v.ListOffset)
	}
	if v.ListOffset+v.ListSize != v.DataOffset {
		return nil, fmt.Errorf("data offset %#x != list offset + list size %#x", v.DataOffset, v.ListOffset+v.ListSize)
	}
	if v.DataOffset+v.DataSize != uint64(len(b)) {
		return nil, fmt.Errorf("data offset+size %#x != file length %#x", v.DataOffset+v.DataSize, len(b))
	}
	off := uint64(0x60)
	for i := uint64(0); i < v.FileCount; i++ {
		if off+56 > v.DataOffset {
			return nil, fmt.Errorf("entry %d overruns the file list", i)
		}
		es := binary.LittleEndian.Uint64(b[off:])
		if es < 58 || (es-56)%2 != 0 || off+es > v.DataOffset {
			return nil, fmt.Errorf("entry %d: bad entry size %d", i, es)
		}
		var e Entry
		e.Status = binary.LittleEndian.Uint64(b[off+8:])
		e.Size = binary.LittleEndian.Uint64(b[off+16:])
		copy(e.MD5[:], b[off+24:off+40])
		copy(e.MD516k[:], b[off+40:off+56])
		e.RawName = b[off+56 : off+es]
		u := make([]uint16, len(e.RawName)/2)
		for k := range u {
			u[k] = binary.LittleEndian.Uint16(e.RawName[2*k:])
		}
		e.Name = string(utf16.Decode(u))
		v.Entries = append(v.Entries, e)
		off += es
	}
	if off != v.DataOffset {
		return nil, fmt.Errorf("file list ends at %#x, data starts at %#x", off, v.DataOffset)
	}
	if SetHash(v.Entries) != v.SetHash {
		return nil, fmt.Errorf("set hash is not MD5 of the saved files' MD5s")
	}
	v.Data = b[v.DataOffset:]
	return v, nil
}

// Parity computes parity volume v (1-based) for the saved files (in list
// order, numbered from 1), zero-padded to the longest.
func Parity(files [][]byte, v int) []byte {
	n := 0
	for _, f := range files {
		if len(f) > n {
			n = len(f)
		}
	}
	out := make([]byte, n)
	for i, f := range files {
		c := gf8.Pow(byte(i+1), v-1)
		for j, x := range f {
			out[j] ^= gf8.Mul(c, x)
		}
	}
	return out
}
