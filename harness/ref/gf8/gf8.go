// Package gf8 is the reference GF(2^8) modulo x^8+x^4+x^3+x^2+1 (0x11D)
// used by PAR 1.0, by shift-and-xor; independent of klauspost/reedsolomon.
package gf8

// Mul multiplies in GF(2^8) mod 0x11D.
func Mul(a, b byte) byte {
	var acc uint16
	aa := uint16(a)
	for i := 0; i < 8; i++ {
		if b&(1<<uint(i)) != 0 {
			acc ^= aa
		}
		aa <<= 1
		if aa&0x100 != 0 {
			aa ^= 0x11D
		}
	}
	return byte(acc)
}

// Pow computes a^n with 0^0 = 1 (a^0 = 1 for every a).
func Pow(a byte, n int) byte {
	r := byte(1)
	for i := 0; i < n; i++ {
		r = Mul(r, a)
	}
	return r
}

// Inv by exhaustive search.
func Inv(a byte) byte {
	for b := 1; b < 256; b++ {
		if Mul(a, byte(b)) == 1 {
			return byte(b)
		}
	}
	panic("gf8: no inverse")
}

// Rank of a matrix by Gaussian elimination.
func Rank(m [][]byte) int {
	a := make([][]byte, len(m))
	for i := range m {
		a[i] = append([]byte{}, m[i]...)
	}
	rows := len(a)
	if rows == 0 {
		return 0
	}
	cols := len(a[0])
	r := 0
	for c := 0; c < cols && r < rows; c++ {
		p := -1
		for i := r; i < rows; i++ {
			if a[i][c] != 0 {
				p = i
				break
			}
		}
		if p < 0 {
			continue
		}
		a[r], a[p] = a[p], a[r]
		inv := Inv(a[r][c])
		for i := r + 1; i < rows; i++ {
			if a[i][c] == 0 {
				continue
			}
			f := Mul(a[i][c], inv)
			for j := c; j < cols; j++ {
				a[i][j] ^= Mul(f, a[r][j])
			}
		}
		r++
	}
	return r
}
