// Package rpar2 is an independent PAR2 2.0 reader and writer written
// from the specification. It shares no code with gopar's par2 package.
package rpar2

import (
	"bytes"
	"crypto/md5"
	"encoding/binary"
	"fmt"
	"hash/crc32"
	"sort"

	"verifh/ref/gf16"
)

var Magic = []byte{'P', 'A', 'R', '2', 0, 'P', 'K', 'T'}

func typ(s string) [16]byte {
	var t [16]byte
	copy(t[:], s)
	return t
}

var (
	TypeMain     = typ("PAR 2.0\x00Main")
	TypeFileDesc = typ("PAR 2.0\x00FileDesc")
	TypeIFSC     = typ("PAR 2.0\x00IFSC")
	TypeRecv     = typ("PAR 2.0\x00RecvSlic")
	TypeCreator  = typ("PAR 2.0\x00Creator")
)

// Packet frames a body (whose length must be a multiple of 4).
func Packet(setID, t [16]byte, body []byte) []byte {
	if len(body)%4 != 0 {
		panic("rpar2: body not multiple of 4")
	}
	out := make([]byte, 64+len(body))
	copy(out[0:8], Magic)
	binary.LittleEndian.PutUint64(out[8:16], uint64(64+len(body)))
	copy(out[32:48], setID[:])
	copy(out[48:64], t[:])
	copy(out[64:], body)
	h := md5.Sum(out[32:])
	copy(out[16:32], h[:])
	return out
}

// Rehash recomputes the packet MD5 of a framed packet in place (after
// its fields were edited) and returns it.
func Rehash(pkt []byte) []byte {
	h := md5.Sum(pkt[32:])
	copy(pkt[16:32], h[:])
	return pkt
}

func pad4(b []byte) []byte {
	for len(b)%4 != 0 {
		b = append(b, 0)
	}
	return b
}

// FileSpec is an input file: name as stored in the archive, content.
type FileSpec struct {
	Name string
	Data []byte
}

// Checksum is one IFSC entry.
type Checksum struct {
	MD5 [16]byte
	CRC uint32
}

// File is a protected file with everything derived per the spec.
type File struct {
	Name   string
	Data   []byte
	ID     [16]byte
	MD5    [16]byte
	MD516k [16]byte
	Slices [][]byte // zero-padded to the slice size
	Sums   []Checksum
}

// Set is a recovery set.
type Set struct {
	SliceSize int
	Files     []*File // in file-ID order (little-endian 128-bit)
	SetID     [16]byte
	MainBody  []byte
	NonRecov  [][16]byte
}

func hash16k(d []byte) [16]byte {
	if len(d) > 16384 {
		d = d[:16384]
	}
	return md5.Sum(d)
}

// IDLess orders ids as little-endian 128-bit integers.
func IDLess(a, b [16]byte) bool {
	for i := 15; i >= 0; i-- {
		if a[i] != b[i] {
			return a[i] < b[i]
		}
	}
	return false
}

// FileID computes the spec's file id.
func FileID(h16k [16]byte, length uint64, name string) [16]byte {
	var buf []byte
	buf = append(buf, h16k[:]...)
	var l [8]byte
	binary.LittleEndian.PutUint64(l[:], length)
	buf = append(buf, l[:]...)
	buf = append(buf, name...)
	return md5.Sum(buf)
}

// NewFile derives a File.
func NewFile(sliceSize int, fs FileSpec) *File {
	f := &File{Name: fs.Name, Data: fs.Data}
	f.MD5 = md5.Sum(fs.Data)
	f.MD516k = hash16k(fs.Data)
	f.ID = FileID(f.MD516k, uint64(len(fs.Data)), fs.Name)
	for off := 0; off < len(fs.Data); off += sliceSize {
		s := make([]byte, sliceSize)
		copy(s, fs.Data[off:])
		f.Slices = append(f.Slices, s)
		f.Sums = append(f.Sums, Checksum{MD5: md5.Sum(s), CRC: crc32.ChecksumIEEE(s)})
	}
	return f
}

// NewSet builds a set from input files.
func NewSet(sliceSize int, files []FileSpec) *Set {
	s := &Set{SliceSize: sliceSize}
	for _, fsp := range files {
		s.Files = append(s.Files, NewFile(sliceSize, fsp))
	}
	sort.SliceStable(s.Files, func(i, j int) bool { return IDLess(s.Files[i].ID, s.Files[j].ID) })
	s.Seal()
	return s
}

// Seal recomputes the main packet body and set id from the current
// file list.
func (s *Set) Seal() {
	body := make([]byte, 12)
	binary.LittleEndian.PutUint64(body[0:8], uint64(s.SliceSize))
	binary.LittleEndian.PutUint32(body[8:12], uint32(len(s.Files)))
	for _, f := range s.Files {
		body = append(body, f.ID[:]...)
	}
	for _, id := range s.NonRecov {
		body = append(body, id[:]...)
	}
	s.MainBody = body
	s.SetID = md5.Sum(body)
}

// AllSlices returns the input slices in recovery-set order.
func (s *Set) AllSlices() [][]byte {
	var out [][]byte
	for _, f := range s.Files {
		out = append(out, f.Slices...)
	}
	return out
}

// SliceCount returns the number of input slices.
func (s *Set) SliceCount() int {
	n := 0
	for _, f := range s.Files {
		n += len(f.Slices)
	}
	return n
}

// RecoveryBlock computes block e = sum_i slice_i * c_i^e on LE 16-bit
// words.
func (s *Set) RecoveryBlock(e int) []byte {
	slices := s.AllSlices()
	consts := gf16.Par2Constants(len(slices))
	if len(consts) < len(slices) {
		panic("rpar2: too many slices")
	}
	out := make([]byte, s.SliceSize)
	for i, sl := range slices {
		c := gf16.Pow(consts[i], uint64(e))
		if c == 0 {
			continue
		}
		for w := 0; w+1 < len(sl); w += 2 {
			x := uint16(sl[w]) | uint16(sl[w+1])<<8
			if x == 0 {
				continue
			}
			y := gf16.Mul(c, x)
			out[w] ^= byte(y)
			out[w+1] ^= byte(y >> 8)
		}
	}
	return out
}

// MainPacket etc. return framed packets.
func (s *Set) MainPacket() []byte { return Packet(s.SetID, TypeMain, s.MainBody) }

func DescBody(f *File) []byte {
	body := append([]byte{}, f.ID[:]...)
	body = append(body, f.MD5[:]...)
	body = append(body, f.MD516k[:]...)
	var l [8]byte
	binary.LittleEndian.PutUint64(l[:], uint64(len(f.Data)))
	body = append(body, l[:]...)
	body = append(body, f.Name...)
	return pad4(body)
}

func IFSCBody(f *File) []byte {
	body := append([]byte{}, f.ID[:]...)
	for _, c := range f.Sums {
		body = append(body, c.MD5[:]...)
		var x [4]byte
		binary.LittleEndian.PutUint32(x[:], c.CRC)
		body = append(body, x[:]...)
	}
	return body
}

func (s *Set) DescPacket(f *File) []byte { return Packet(s.SetID, TypeFileDesc, DescBody(f)) }
func (s *Set) IFSCPacket(f *File) []byte { return Packet(s.SetID, TypeIFSC, IFSCBody(f)) }
func (s *Set) CreatorPacket(c string) []byte {
	return Packet(s.SetID, TypeCreator, pad4([]byte(c)))
}
func (s *Set) RecvPacket(e uint32, data []byte) []byte {
	body := make([]byte, 4, 4+len(data))
	binary.LittleEndian.PutUint32(body, e)
	body = append(body, data...)
	return Packet(s.SetID, TypeRecv, body)
}

// CorePackets returns creator, main, and per-file desc+ifsc packets (a
// conventional index file, as separate packets).
func (s *Set) CorePackets(creator string) [][]byte {
	out := [][]byte{s.CreatorPacket(creator), s.MainPacket()}
	for _, f := range s.Files {
		out = append(out, s.DescPacket(f), s.IFSCPacket(f))
	}
	return out
}

// Join concatenates packets.
func Join(p ...[]byte) []byte { return bytes.Join(p, nil) }

// ---------------------------------------------------------------- reader

// Pkt is a parsed packet.
type Pkt struct {
	Offset int
	SetID  [16]byte
	Type   [16]byte
	Body   []byte
}

// Parse strictly parses a packet stream: the whole input must be a
// sequence of well-formed packets.
func Parse(b []byte) ([]Pkt, error) {
	var out []Pkt
	off := 0
	for off < len(b) {
		if len(b)-off < 64 {
			return out, fmt.Errorf("offset %d: trailing %d bytes, shorter than a packet header", off, len(b)-off)
		}
		if !bytes.Equal(b[off:off+8], Magic) {
			return out, fmt.Errorf("offset %d: bad magic", off)
		}
		l := binary.LittleEndian.Uint64(b[off+8 : off+16])
		if l < 64 || l%4 != 0 {
			return out, fmt.Errorf("offset %d: bad length %d", off, l)
		}
		if l > uint64(len(b)-off) {
			return out, fmt.Errorf("offset %d: length %d exceeds remaining %d", off, l, len(b)-off)
		}
		end := off + int(l)
		h := md5.Sum(b[off+32 : end])
		if !bytes.Equal(h[:], b[off+16:off+32]) {
			return out, fmt.Errorf("offset %d: packet MD5 mismatch", off)
		}
		var p Pkt
		p.Offset = off
		copy(p.SetID[:], b[off+32:off+48])
		copy(p.Type[:], b[off+48:off+64])
		p.Body = b[off+64 : end]
		out = append(out, p)
		off = end
	}
	return out, nil
}

// ParsedFile is the semantic content of one PAR2 file.
type ParsedFile struct {
	SetID      [16]byte
	HasMain    bool
	SliceSize  uint64
	RecovIDs   [][16]byte
	NonRecov   [][16]byte
	Desc       map[[16]byte]DescInfo
	IFSC       map[[16]byte][]Checksum
	Recv       map[uint32][]byte
	RecvCounts map[uint32]int
	Creator    string
	HasCreator bool
	Packets    int
}

// DescInfo is a parsed file description.
type DescInfo struct {
	MD5, MD516k [16]byte
	Length      uint64
	Name        string
	RawName     []byte
}

// Interpret strictly interprets the packets of one file, which must all
// belong to one set.
func Interpret(pk []Pkt) (*ParsedFile, error) {
	pf := &ParsedFile{Desc: map[[16]byte]DescInfo{}, IFSC: map[[16]byte][]Checksum{}, Recv: map[uint32][]byte{}, RecvCounts: map[uint32]int{}}
	if len(pk) == 0 {
		return nil, fmt.Errorf("no packets")
	}
	pf.SetID = pk[0].SetID
	pf.Packets = len(pk)
	for _, p := range pk {
		if p.SetID != pf.SetID {
			return nil, fmt.Errorf("offset %d: packet of another set", p.Offset)
		}
		switch p.Type {
		case TypeMain:
			if len(p.Body) < 12 || (len(p.Body)-12)%16 != 0 {
				return nil, fmt.Errorf("main packet: bad body length %d", len(p.Body))
			}
			if md5.Sum(p.Body) != pf.SetID {
				return nil, fmt.Errorf("main packet: set id is not MD5 of the main packet body")
			}
			ss := binary.LittleEndian.Uint64(p.Body[0:8])
			n := binary.LittleEndian.Uint32(p.Body[8:12])
			if ss == 0 || ss%4 != 0 {
				return nil, fmt.Errorf("main packet: slice size %d", ss)
			}
			total := (len(p.Body) - 12) / 16
			if int(n) > total {
				return nil, fmt.Errorf("main packet: recovery set count %d > ids %d", n, total)
			}
			var ids [][16]byte
			for i := 0; i < total; i++ {
				var id [16]byte
				copy(id[:], p.Body[12+16*i:])
				ids = append(ids, id)
			}
			rec, non := ids[:n], ids[n:]
			for i := 1; i < len(rec); i++ {
				if !IDLess(rec[i-1], rec[i]) {
					return nil, fmt.Errorf("main packet: recovery set ids not strictly ascending (little-endian 128-bit) at %d", i)
				}
			}
			for i := 1; i < len(non); i++ {
				if !IDLess(non[i-1], non[i]) {
					return nil, fmt.Errorf("main packet: non-recovery ids not ascending at %d", i)
				}
			}
			if pf.HasMain && (pf.SliceSize != ss || len(pf.RecovIDs) != len(rec)) {
				return nil, fmt.Errorf("conflicting main packets")
			}
			pf.HasMain, pf.SliceSize, pf.RecovIDs, pf.NonRecov = true, ss, rec, non
		case TypeFileDesc:
			if len(p.Body) < 56+1 {
				return nil, fmt.Errorf("file description: body too short")
			}
			var id [16]byte
			var d DescInfo
			copy(id[:], p.Body[0:16])
			copy(d.MD5[:], p.Body[16:32])
			copy(d.MD516k[:], p.Body[32:48])
			d.Length = binary.LittleEndian.Uint64(p.Body[48:56])
			raw := p.Body[56:]
			name := raw
			if i := bytes.IndexByte(raw, 0); i >= 0 {
				name = raw[:i]
				for _, z := range raw[i:] {
					if z != 0 {
						return nil, fmt.Errorf("file description: non-zero byte after name terminator")
					}
				}
				if len(raw)-i > 3 {
					return nil, fmt.Errorf("file description: more than 3 padding bytes")
				}
			}
			for _, ch := range name {
				if ch >= 0x80 {
					return nil, fmt.Errorf("file description: non-ASCII name")
				}
			}
			d.Name = string(name)
			d.RawName = raw
			if FileID(d.MD516k, d.Length, d.Name) != id {
				return nil, fmt.Errorf("file description %q: file id is not MD5(hash16k, length, name)", d.Name)
			}
			pf.Desc[id] = d
		case TypeIFSC:
			if len(p.Body) < 16 || (len(p.Body)-16)%20 != 0 {
				return nil, fmt.Errorf("IFSC: bad body length %d", len(p.Body))
			}
			var id [16]byte
			copy(id[:], p.Body[0:16])
			var cs []Checksum
			for o := 16; o < len(p.Body); o += 20 {
				var c Checksum
				copy(c.MD5[:], p.Body[o:o+16])
				c.CRC = binary.LittleEndian.Uint32(p.Body[o+16 : o+20])
				cs = append(cs, c)
			}
			pf.IFSC[id] = cs
		case TypeRecv:
			if len(p.Body) < 8 {
				return nil, fmt.Errorf("recovery packet: body too short")
			}
			e := binary.LittleEndian.Uint32(p.Body[0:4])
			if old, ok := pf.Recv[e]; ok && !bytes.Equal(old, p.Body[4:]) {
				return nil, fmt.Errorf("recovery packet: exponent %d twice with different data", e)
			}
			pf.Recv[e] = p.Body[4:]
			pf.RecvCounts[e]++
		case TypeCreator:
			b := p.Body
			if i := bytes.IndexByte(b, 0); i >= 0 {
				b = b[:i]
			}
			pf.Creator = string(b)
			pf.HasCreator = true
		default:
			// unknown packet types are allowed by the spec
		}
	}
	return pf, nil
}

// LooseRecovery scans b for intact packets at every byte offset (a
// reader that resynchronises on the magic) and returns, for the given
// set, the distinct exponents of intact recovery packets with a payload
// of sliceSize bytes.
func LooseRecovery(b []byte, setID [16]byte, sliceSize int) map[uint32]bool {
	out := map[uint32]bool{}
	for off := 0; off+64 <= len(b); off++ {
		if b[off] != 'P' || !bytes.Equal(b[off:off+8], Magic) {
			continue
		}
		l := binary.LittleEndian.Uint64(b[off+8 : off+16])
		if l < 64 || l%4 != 0 || l > uint64(len(b)-off) {
			continue
		}
		end := off + int(l)
		h := md5.Sum(b[off+32 : end])
		if !bytes.Equal(h[:], b[off+16:off+32]) {
			continue
		}
		var sid, t [16]byte
		copy(sid[:], b[off+32:off+48])
		copy(t[:], b[off+48:off+64])
		if sid != setID || t != TypeRecv {
			continue
		}
		body := b[off+64 : end]
		if len(body) != 4+sliceSize {
			continue
		}
		out[binary.LittleEndian.Uint32(body[0:4])] = true
	}
	return out
}

// PacketBoundaries returns the offsets at which packets start, plus the
// end offset, for a well-formed stream.
func PacketBoundaries(b []byte) []int {
	pk, _ := Parse(b)
	var out []int
	for _, p := range pk {
		out = append(out, p.Offset)
	}
	out = append(out, len(b))
	return out
}
