// Package lin is reference linear algebra over GF(2^16): determinant by
// cofactor expansion and by plain Gaussian elimination, inverse by
// adjugate, matrix product. It uses ref/gf16 only.
package lin

import "verifh/ref/gf16"

// M is a dense matrix.
type M [][]uint16

func New(r, c int) M {
	m := make(M, r)
	for i := range m {
		m[i] = make([]uint16, c)
	}
	return m
}

func (m M) Clone() M {
	n := make(M, len(m))
	for i := range m {
		n[i] = append([]uint16{}, m[i]...)
	}
	return n
}

func Identity(n int) M {
	m := New(n, n)
	for i := 0; i < n; i++ {
		m[i][i] = 1
	}
	return m
}

// Mul is the row-by-column product.
func Mul(a, b M) M {
	out := New(len(a), len(b[0]))
	for i := range a {
		for j := range b[0] {
			var t uint16
			for k := range b {
				t ^= gf16.Mul(a[i][k], b[k][j])
			}
			out[i][j] = t
		}
	}
	return out
}

func Equal(a, b M) bool {
	if len(a) != len(b) {
		return false
	}
	for i := range a {
		if len(a[i]) != len(b[i]) {
			return false
		}
		for j := range a[i] {
			if a[i][j] != b[i][j] {
				return false
			}
		}
	}
	return true
}

func minor(m M, r, c int) M {
	n := len(m)
	out := New(n-1, n-1)
	ii := 0
	for i := 0; i < n; i++ {
		if i == r {
			continue
		}
		jj := 0
		for j := 0; j < n; j++ {
			if j == c {
				continue
			}
			out[ii][jj] = m[i][j]
			jj++
		}
		ii++
	}
	return out
}

// DetCofactor computes the determinant by Laplace expansion (n small).
func DetCofactor(m M) uint16 {
	n := len(m)
	if n == 1 {
		return m[0][0]
	}
	if n == 2 {
		return gf16.Mul(m[0][0], m[1][1]) ^ gf16.Mul(m[0][1], m[1][0])
	}
	var d uint16
	for j := 0; j < n; j++ {
		if m[0][j] == 0 {
			continue
		}
		d ^= gf16.Mul(m[0][j], DetCofactor(minor(m, 0, j)))
	}
	return d
}

// Rank by Gaussian elimination (column pivoting over rows, any shape).
func Rank(m M) int {
	a := m.Clone()
	rows := len(a)
	if rows == 0 {
		return 0
	}
	cols := len(a[0])
	r := 0
	for c := 0; c < cols && r < rows; c++ {
		p := -1
		for i := r; i < rows; i++ {
			if a[i][c] != 0 {
				p = i
				break
			}
		}
		if p < 0 {
			continue
		}
		a[r], a[p] = a[p], a[r]
		inv := gf16.Inv(a[r][c])
		for i := r + 1; i < rows; i++ {
			if a[i][c] == 0 {
				continue
			}
			f := gf16.Mul(a[i][c], inv)
			for j := c; j < cols; j++ {
				a[i][j] ^= gf16.Mul(f, a[r][j])
			}
		}
		r++
	}
	return r
}

// Singular reports whether a square matrix is singular (elimination).
func Singular(m M) bool { return Rank(m) < len(m) }

// InverseAdj computes the inverse via the adjugate (n small); ok=false
// if singular.
func InverseAdj(m M) (M, bool) {
	n := len(m)
	d := DetCofactor(m)
	if d == 0 {
		return nil, false
	}
	di := gf16.Inv(d)
	out := New(n, n)
	if n == 1 {
		out[0][0] = di
		return out, true
	}
	for i := 0; i < n; i++ {
		for j := 0; j < n; j++ {
			// characteristic 2: signs vanish; adj[j][i] = det(minor(i,j))
			out[j][i] = gf16.Mul(di, DetCofactor(minor(m, i, j)))
		}
	}
	return out, true
}

// Solve solves M x = N for square non-singular M (returns nil if
// singular) by Gauss-Jordan written independently of gopar's.
func Solve(m, n M) M {
	k := len(m)
	a := m.Clone()
	b := n.Clone()
	for c := 0; c < k; c++ {
		p := -1
		for i := c; i < k; i++ {
			if a[i][c] != 0 {
				p = i
			}
		} // deliberately picks the LAST candidate pivot, unlike gopar
		if p < 0 {
			return nil
		}
		a[c], a[p] = a[p], a[c]
		b[c], b[p] = b[p], b[c]
		inv := gf16.Inv(a[c][c])
		for j := range a[c] {
			a[c][j] = gf16.Mul(a[c][j], inv)
		}
		for j := range b[c] {
			b[c][j] = gf16.Mul(b[c][j], inv)
		}
		for i := 0; i < k; i++ {
			if i == c || a[i][c] == 0 {
				continue
			}
			f := a[i][c]
			for j := range a[i] {
				a[i][j] ^= gf16.Mul(f, a[c][j])
			}
			for j := range b[i] {
				b[i][j] ^= gf16.Mul(f, b[c][j])
			}
		}
	}
	return b
}

// Transpose returns the transpose of m.
func Transpose(m M) M {
	if len(m) == 0 {
		return m
	}
	t := New(len(m[0]), len(m))
	for i := range m {
		for j := range m[i] {
			t[j][i] = m[i][j]
		}
	}
	return t
}
