package props

import (
	"bytes"
	"fmt"
	"hash/crc32"
	"os"
	"path/filepath"
	"sort"
	"strings"
	"time"

	"github.com/akalin/gopar/par1"
	"github.com/akalin/gopar/par2"

	"verifh/core"
	"verifh/envfs"
	"verifh/ref/scan"
	"verifh/scen"
)

// C14: convergence and idempotence over histories — explicit-state search
// of the directory-state graph; every transition calls the real
// Verify/Repair.

type c14Event struct {
	Op string `json:"op"` // dmg, restore, delv, restv, verify, repair, repairdc
	F  int    `json:"f,omitempty"`
	W  int    `json:"w,omitempty"` // content variant for dmg
}

type c14Case struct {
	Model string         `json:"model"`           // p2small, p2large, p1
	Path  []c14Event     `json:"path,omitempty"`  // nil: full search; else replay this event sequence from the initial state
	Inter *interfereCase `json:"inter,omitempty"` // pairs / triples of top-level calls in one process (interfere.go)
	Dec   *decProtoCase  `json:"dec,omitempty"`   // operation sequences on one exported Decoder object (decproto.go)
}

// content variants
const (
	vOrig = iota
	vMissing
	vFirstChanged
	vLastDropped
	vPrepended
	vOther
	vEmpty
	vAppendedGarbage // one non-zero byte appended
	vAppendedZero    // one zero byte appended (inside the zero padding of a short last slice, or a new window of zeros)
	vSameCRC         // the first slice overwritten in place with other bytes that have the same CRC-32 (slice size >= 8)
	nVariants
)

type c14Model struct {
	disk     bool // run Verify / Repair through the exported API on a real directory
	name     string
	par1     bool
	nFiles   int
	variants []int // usable variants
	active   []int // files that damage / restore events touch (nil: all); the others stay original
	paths    []string
	data     [][]byte
	vols     []string // recovery / volume file paths
	volData  [][]byte
	fs0      *envfs.FS
	index    string
	listing  int // 1: directory listings come back reversed, 2: rotated by one (in-memory models)
	p2       *scen.P2Set
	p1       *scen.P1Set
	seed     int64
}

func (m *c14Model) variant(f, w int) ([]byte, bool) {
	d := m.data[f]
	switch w {
	case vOrig:
		return d, true
	case vMissing:
		return nil, false
	case vFirstChanged:
		nb := append([]byte{}, d...)
		nb[0] ^= 0x80
		return nb, true
	case vSameCRC:
		nb := append([]byte{}, d...)
		if len(nb) >= 8 {
			want := crc32.ChecksumIEEE(nb[:8])
			nb[0] ^= 0x5a
			nb[1] ^= 0xc3
			scen.ForceCRC32(nb[:8], want)
		}
		return nb, true
	case vLastDropped:
		return d[:len(d)-1], true
	case vPrepended:
		return append([]byte{0xEE}, d...), true
	case vOther:
		return m.data[(f+1)%m.nFiles], true
	case vEmpty:
		return []byte{}, true
	case vAppendedGarbage:
		return append(append([]byte{}, d...), 0xC3), true
	case vAppendedZero:
		return append(append([]byte{}, d...), 0), true
	}
	panic("bad variant")
}

type c14State []int // nFiles variant ids, then len(vols) presence bits

func (s c14State) key() string { return fmt.Sprint([]int(s)) }

func (m *c14Model) initial() c14State {
	s := make(c14State, m.nFiles+len(m.vols))
	for i := range m.vols {
		s[m.nFiles+i] = 1
	}
	return s
}

func (m *c14Model) build(s c14State) *envfs.FS {
	fs := m.fs0.Clone()
	for f := 0; f < m.nFiles; f++ {
		b, ok := m.variant(f, s[f])
		if ok {
			fs.Put(m.paths[f], b)
		} else {
			fs.Del(m.paths[f])
		}
	}
	for v := range m.vols {
		if s[m.nFiles+v] == 0 {
			fs.Del(m.vols[v])
		}
	}
	return fs
}

// classify maps a directory back to a state; ok=false if some file holds
// content that is none of the variants.
func (m *c14Model) classify(fs *envfs.FS) (c14State, string) {
	s := make(c14State, m.nFiles+len(m.vols))
	for f := 0; f < m.nFiles; f++ {
		b, ok := fs.Get(m.paths[f])
		found := -1
		if !ok {
			found = vMissing
		} else {
			for _, w := range m.variants {
				if vb, vok := m.variant(f, w); vok && bytes.Equal(vb, b) {
					found = w
					break
				}
			}
		}
		if found < 0 {
			return nil, fmt.Sprintf("%s holds %d bytes that are none of the modelled contents", m.paths[f], len(b))
		}
		s[f] = found
	}
	for v := range m.vols {
		b, ok := fs.Get(m.vols[v])
		if ok {
			if !bytes.Equal(b, m.volData[v]) {
				return nil, fmt.Sprintf("%s was modified", m.vols[v])
			}
			s[m.nFiles+v] = 1
		}
	}
	return s, ""
}

func (m *c14Model) events(s c14State) []c14Event {
	var ev []c14Event
	for f := 0; f < m.nFiles; f++ {
		if m.active != nil && !containsInt(m.active, f) {
			continue
		}
		for _, w := range m.variants {
			if w != vOrig && w != s[f] {
				ev = append(ev, c14Event{Op: "dmg", F: f, W: w})
			}
		}
		if s[f] != vOrig {
			ev = append(ev, c14Event{Op: "restore", F: f})
		}
	}
	for v := range m.vols {
		if s[m.nFiles+v] == 1 {
			ev = append(ev, c14Event{Op: "delv", F: v})
		} else {
			ev = append(ev, c14Event{Op: "restv", F: v})
		}
	}
	ev = append(ev, c14Event{Op: "verify"}, c14Event{Op: "repair"}, c14Event{Op: "repairdc"})
	return ev
}

type c14Verdict struct {
	err    string
	needed bool
	poss   bool
	counts string
}

// order installs the model's listing order on fs.
func (m *c14Model) order(fs *envfs.FS) {
	switch m.listing {
	case 1:
		fs.Order = func(l []string) []string {
			out := append([]string{}, l...)
			for i, j := 0, len(out)-1; i < j; i, j = i+1, j-1 {
				out[i], out[j] = out[j], out[i]
			}
			return out
		}
	case 2:
		fs.Order = func(l []string) []string {
			if len(l) < 2 {
				return l
			}
			return append(append([]string{}, l[1:]...), l[0])
		}
	}
}

func (m *c14Model) verify(fs *envfs.FS) (c14Verdict, *core.PanicInfo, []string) {
	before := fs.Snapshot()
	m.order(fs)
	var v c14Verdict
	if m.disk {
		root := c14DiskRoot()
		defer os.RemoveAll(root)
		materialize(root, fs.Files)
		pi := core.Catch(func() {
			if m.par1 {
				res, err := par1.Verify(c14Spell(filepath.Join(root, m.index)), par1.VerifyOptions{VerifyAllData: true})
				if err != nil {
					v.err = err.Error()
					return
				}
				v.needed, v.poss, v.counts = res.FileCounts.RepairNeeded(), res.FileCounts.RepairPossible(), fmt.Sprintf("%+v", res)
			} else {
				res, err := par2.Verify(c14Spell(filepath.Join(root, m.index)), par2.VerifyOptions{NumGoroutines: 1})
				if err != nil {
					v.err = err.Error()
					return
				}
				v.needed, v.poss, v.counts = res.ShardCounts.RepairNeeded(), res.ShardCounts.RepairPossible(), fmt.Sprintf("%+v", res)
			}
		})
		return v, pi, envfs.Diff(before, readTree(root))
	}
	pi := core.Catch(func() {
		if m.par1 {
			res, err := par1.VerifVerify(fs, m.index, par1.VerifyOptions{VerifyAllData: true})
			if err != nil {
				v.err = err.Error()
				return
			}
			v.needed = res.FileCounts.RepairNeeded()
			v.poss = res.FileCounts.RepairPossible()
			v.counts = fmt.Sprintf("%+v", res)
		} else {
			res, err := par2.VerifVerify(fs, m.index, par2.VerifyOptions{NumGoroutines: 1})
			if err != nil {
				v.err = err.Error()
				return
			}
			v.needed = res.ShardCounts.RepairNeeded()
			v.poss = res.ShardCounts.RepairPossible()
			v.counts = fmt.Sprintf("%+v", res)
		}
	})
	return v, pi, envfs.Diff(before, fs.Snapshot())
}

func (m *c14Model) repair(fs *envfs.FS, dc bool) (paths []string, err error, pi *core.PanicInfo, writes int) {
	if m.disk {
		root := c14DiskRoot()
		defer os.RemoveAll(root)
		materialize(root, fs.Files)
		// make every file old, so that any (re)write is visible through its modification time
		old := time.Now().Add(-48 * time.Hour)
		for p := range fs.Files {
			os.Chtimes(filepath.Join(root, p), old, old)
		}
		pi = core.Catch(func() {
			if m.par1 {
				res, e := par1.Repair(c14Spell(filepath.Join(root, m.index)), par1.RepairOptions{DoubleCheck: dc})
				paths, err = res.RepairedPaths, e
			} else {
				res, e := par2.Repair(c14Spell(filepath.Join(root, m.index)), par2.RepairOptions{DoubleCheck: dc, NumGoroutines: 1})
				paths, err = res.RepairedPaths, e
			}
		})
		for i := range paths {
			if abs, e := filepath.Abs(paths[i]); e == nil {
				paths[i] = abs // reported the way the index path was spelled
			}
			paths[i] = strings.TrimPrefix(paths[i], root)
		}
		after := readTree(root)
		for p := range after {
			if st, e := os.Stat(filepath.Join(root, p)); e == nil && st.ModTime().After(old.Add(time.Hour)) {
				writes++
			}
		}
		fs.Files = after
		return
	}
	fs.ResetLog()
	m.order(fs)
	pi = core.Catch(func() {
		if m.par1 {
			res, e := par1.VerifRepair(fs, m.index, par1.RepairOptions{DoubleCheck: dc})
			paths, err = res.RepairedPaths, e
		} else {
			res, e := par2.VerifRepair(fs, m.index, par2.RepairOptions{DoubleCheck: dc, NumGoroutines: 1})
			paths, err = res.RepairedPaths, e
		}
	})
	writes = len(fs.Writes())
	fs.ResetLog()
	return
}

// lostSlices counts protected slices (PAR1: files) whose content is not present.
func (m *c14Model) lost(fs *envfs.FS) int {
	if m.par1 {
		n := 0
		for f := 0; f < m.nFiles; f++ {
			if b, ok := fs.Get(m.paths[f]); !ok || !bytes.Equal(b, m.data[f]) {
				n++
			}
		}
		return n
	}
	var surv [][]byte
	for f := 0; f < m.nFiles; f++ {
		if b, ok := fs.Get(m.paths[f]); ok {
			surv = append(surv, b)
		}
	}
	return scan.Scan(m.p2.Ref.AllSlices(), m.p2.Cfg.Slice, surv).CountMissing()
}

func (m *c14Model) capacity(s c14State) int {
	n := 0
	for v := range m.vols {
		if s[m.nFiles+v] == 1 {
			if m.par1 {
				n++
			} else {
				n += len(m.p2.RecExps[m.vols[v]])
			}
		}
	}
	return n
}

var c14DiskSeq int

func c14DiskRoot() string {
	c14DiskSeq++
	return filepath.Join(workerScratch(), fmt.Sprintf("c14-%d", c14DiskSeq))
}

// c14Spell varies how the disk models name the index file: absolute, relative to the working directory of the process
// (which lies elsewhere, so the path starts with ".."), and relative with "./" in front. The spelling must not matter.
func c14Spell(abs string) string {
	wd, err := os.Getwd()
	if err != nil {
		return abs
	}
	rel, err := filepath.Rel(wd, abs)
	if err != nil {
		return abs
	}
	switch c14DiskSeq % 3 {
	case 1:
		return rel
	case 2:
		return "./" + rel
	}
	return abs
}

func c14Build(name string, seed int64) *c14Model {
	m := &c14Model{name: name, seed: seed}
	if strings.HasSuffix(name, "-disk") {
		m.disk = true
		name = strings.TrimSuffix(name, "-disk")
	}
	if strings.HasSuffix(name, "-rev") {
		m.listing = 1
		name = strings.TrimSuffix(name, "-rev")
	}
	if strings.HasSuffix(name, "-rot") {
		m.listing = 2
		name = strings.TrimSuffix(name, "-rot")
	}
	all := []int{vOrig, vMissing, vFirstChanged, vLastDropped, vPrepended, vOther, vEmpty, vAppendedGarbage, vAppendedZero}
	// "p2base:<b>" / "p1base:<b>": the small models with the index file named <b>.par2 / <b>.par (base names that end in
	// the characters of the extension, contain dots, or look like a recovery file's own name)
	setBase := ""
	if i := strings.Index(name, "base:"); i == 2 {
		setBase = name[i+5:]
		name = map[string]string{"p2": "p2small", "p1": "p1"}[name[:2]]
	}
	switch name {
	case "p2small", "p2large", "p2huge", "p2four", "p2stray-first", "p2stray-mid", "p2stray-own", "p2stray-ownmid", "p2-16k", "p2crc8":
		// small model: a slice-aligned file and a file with a short last slice, both ending in zero bytes, so that
		// "last byte dropped" / "zero byte appended" are length-only damage that leaves every slice in place
		cfg := scen.P2Config{Sizes: []int{12, 6}, Slice: 4, Blocks: 4, Class: "trailzero", Base: setBase}
		if name == "p2large" {
			cfg = scen.P2Config{Sizes: []int{11, 6, 9}, Slice: 4, Blocks: 8, Class: "uniq"}
		}
		if name == "p2huge" {
			cfg = scen.P2Config{Sizes: []int{11, 6, 9}, Slice: 4, Blocks: 16, Class: "uniq"}
		}
		if name == "p2four" {
			cfg = scen.P2Config{Sizes: []int{5, 6, 9, 3}, Slice: 4, Blocks: 4, Class: "uniq"}
		}
		if name == "p2crc8" {
			// 8-byte slices: the smallest size at which two different slices can share a CRC-32 (variant vSameCRC)
			cfg = scen.P2Config{Sizes: []int{24, 13}, Slice: 8, Blocks: 3, Class: "uniq"}
		}
		if name == "p2-16k" {
			// a file whose length is exactly the span of the 16k hash (its neighbours 16383 / 16385 are in C01's sets)
			cfg = scen.P2Config{Sizes: []int{16384, 100}, Slice: 4096, Blocks: 3, Class: "uniq"}
		}
		s, err := scen.GetP2(cfg, seed)
		if err != nil {
			panic(err)
		}
		m.p2 = s
		m.nFiles = len(cfg.Sizes)
		m.paths, m.data, m.vols, m.fs0, m.index = s.Paths, s.Data, s.RecFiles, s.FS0, s.Index
		m.variants = all
		if name == "p2-16k" {
			m.variants = []int{vOrig, vMissing, vFirstChanged}
		}
		if name == "p2crc8" {
			m.variants = []int{vOrig, vMissing, vFirstChanged, vSameCRC}
		}
		if setBase != "" {
			m.variants = []int{vOrig, vMissing, vFirstChanged, vPrepended}
		}
		if strings.HasPrefix(name, "p2stray") {
			// a file that matches the recovery-file pattern but holds no packet of this set (the index of another set),
			// listed first / between the real recovery files: it must be passed over without disturbing its neighbours
			other, err := scen.GetP2(scen.P2Config{Sizes: []int{5}, Slice: 4, Blocks: 1, Class: "uniq"}, seed+31)
			if err != nil {
				panic(err)
			}
			m.fs0 = s.FS0.Clone()
			stray := "/d/s.old.par2"
			if name == "p2stray-mid" || name == "p2stray-ownmid" {
				stray = strings.TrimSuffix(m.vols[0], ".par2") + "~.par2" // sorts right after the first recovery file
			}
			m.fs0.Put(stray, other.FS0.Files[other.Index])
			if strings.HasPrefix(name, "p2stray-own") {
				// ... or holds packets of THIS set but no recovery block: a backup copy of the index file kept beside it
				if name == "p2stray-own" {
					m.fs0.Del(stray)
					stray = "/d/s.backup.par2"
				}
				m.fs0.Put(stray, s.FS0.Files[s.Index])
			}
			m.variants = []int{vOrig, vMissing, vFirstChanged, vPrepended}
		}
	case "p1", "p1large":
		cfg := scen.P1Config{Sizes: []int{7, 4, 9}, Volumes: 2, Base: setBase}
		if name == "p1large" {
			cfg = scen.P1Config{Sizes: []int{7, 4, 9, 2}, Volumes: 3}
		}
		s, err := scen.GetP1(cfg, seed)
		if err != nil {
			panic(err)
		}
		m.p1 = s
		m.par1 = true
		m.nFiles = len(cfg.Sizes)
		m.paths, m.data, m.vols, m.fs0, m.index = s.Paths, s.Data, s.VolPaths, s.FS0, s.Index
		m.variants = []int{vOrig, vMissing, vFirstChanged, vEmpty, vOther}
		if setBase != "" {
			m.variants = []int{vOrig, vMissing, vFirstChanged}
		}
	case "p1full", "p1vol99":
		// PAR1 at the format's limits: 254 files + 2 volumes fill the 256-shard space; volume number 99 is the last one the
		// naming scheme (.p01 .. .p99) allows. Events touch the first and last file and the lowest / highest volume.
		var cfg scen.P1Config
		if name == "p1full" {
			sz := make([]int, 254)
			for i := range sz {
				sz[i] = 2 + i%3
			}
			cfg = scen.P1Config{Sizes: sz, Volumes: 2}
		} else {
			cfg = scen.P1Config{Sizes: []int{7, 4, 9}, Volumes: 99}
		}
		s, err := scen.GetP1(cfg, seed)
		if err != nil {
			panic(err)
		}
		m.p1 = s
		m.par1 = true
		m.nFiles = len(cfg.Sizes)
		m.paths, m.data, m.index = s.Paths, s.Data, s.Index
		m.fs0 = s.FS0.Clone()
		m.active = []int{0, m.nFiles - 1}
		m.variants = []int{vOrig, vMissing, vFirstChanged}
		for i, v := range s.VolPaths {
			if i == 0 || i == len(s.VolPaths)-1 {
				m.vols = append(m.vols, v)
			} else {
				m.fs0.Del(v) // the volumes in between never arrived
			}
		}
	default:
		panic("unknown model " + name)
	}
	for _, v := range m.vols {
		m.volData = append(m.volData, m.fs0.Files[v])
	}
	return m
}

// step applies one event to state s (running the real operation for
// verify/repair), checks the invariants, and returns the successor.
func (m *c14Model) step(s c14State, ev c14Event, r *core.Rec, path []c14Event, verdicts map[string]c14Verdict) c14State {
	viol := func(sig, f string, a ...interface{}) {
		r.ViolateWith(sig, fmt.Sprintf(f, a...)+fmt.Sprintf("\nstate before=%v event=%+v", []int(s), ev), &c14Case{Model: m.name, Path: append(append([]c14Event{}, path...), ev)})
	}
	ns := append(c14State{}, s...)
	switch ev.Op {
	case "dmg":
		ns[ev.F] = ev.W
		return ns
	case "restore":
		ns[ev.F] = vOrig
		return ns
	case "delv":
		ns[m.nFiles+ev.F] = 0
		return ns
	case "restv":
		ns[m.nFiles+ev.F] = 1
		return ns
	case "verify":
		fs := m.build(s)
		v, pi, diff := m.verify(fs)
		r.AddTransitions(1)
		if pi != nil {
			viol("verify-panic:"+pi.Frame, "%s", pi.Value)
			return ns
		}
		if len(diff) > 0 {
			viol("verify-changed-state", "Verify changed %v", diff)
		}
		if old, ok := verdicts[s.key()]; ok && old != v {
			viol("verify-differs-for-equal-states", "same directory, different Verify results: %+v vs %+v", old, v)
		}
		verdicts[s.key()] = v
		return ns
	case "repair", "repairdc":
		fs := m.build(s)
		lostBefore := m.lost(fs)
		before := fs.Snapshot()
		paths, err, pi, _ := m.repair(fs, ev.Op == "repairdc")
		r.AddTransitions(1)
		if pi != nil {
			viol("repair-panic:"+pi.Frame, "%s", pi.Value)
			return ns
		}
		after, why := m.classify(fs)
		if after == nil {
			viol("repair-left-unmodelled-content", "%s", why)
			return ns
		}
		if err == nil {
			for f := 0; f < m.nFiles; f++ {
				if after[f] != vOrig {
					viol("repair-success-but-file-not-original", "Repair returned nil but file %d is in state %d", f, after[f])
				}
			}
			// Verify must be clean
			v, vpi, _ := m.verify(fs.Clone())
			r.AddTransitions(1)
			if vpi != nil {
				viol("verify-panic:"+vpi.Frame, "%s", vpi.Value)
			} else if v.err != "" || v.needed {
				viol("verify-not-clean-after-successful-repair", "after a successful Repair, Verify says %+v", v)
			}
			// a further Repair (both modes) rewrites nothing and reports nothing
			for _, dc := range []bool{false, true} {
				fs2 := fs.Clone()
				p2, err2, pi2, w2 := m.repair(fs2, dc)
				r.AddTransitions(1)
				if pi2 != nil {
					viol("repair-panic:"+pi2.Frame, "%s", pi2.Value)
				} else if err2 != nil {
					viol("second-repair-failed:"+errClass(err2), "a further Repair (dc=%v) after a successful one returned %v", dc, err2)
				} else if w2 != 0 || len(p2) != 0 {
					viol("second-repair-not-idempotent", "a further Repair (dc=%v) after a successful one performed %d writes and reported %v", dc, w2, p2)
				}
			}
			if len(paths) > 0 {
				r.Nontrivial("repaired:" + s.key())
			}
		} else {
			// failed: each file keeps its previous content or regains its original
			for f := 0; f < m.nFiles; f++ {
				p := m.paths[f]
				pb, pok := before[p]
				ab, aok := fs.Get(p)
				same := pok == aok && bytes.Equal(pb, ab)
				if !same && !(aok && bytes.Equal(ab, m.data[f])) {
					viol("failed-repair-increased-damage", "Repair failed (%v) and file %d now holds neither its previous content nor its original", err, f)
				}
			}
			if la := m.lost(fs); la > lostBefore {
				// content that was still present somewhere before the call (possibly under another file's name) is gone:
				// the failed call has made the set harder to repair
				viol("failed-repair-increased-damage", "Repair failed (%v): %d protected slices / files were unfindable before the call, %d after it", err, lostBefore, la)
			}
			r.Nontrivial("failed:" + s.key())
		}
		for v := range m.vols {
			if after[m.nFiles+v] != s[m.nFiles+v] {
				viol("repair-changed-recovery-files", "recovery file %d presence changed", v)
			}
		}
		return after
	}
	panic("bad event")
}

// converge: from state s, with every recovery file restored, Repair must
// reach the original state whenever capacity suffices.
func (m *c14Model) converge(s c14State, r *core.Rec, path []c14Event) {
	ns := append(c14State{}, s...)
	p2 := append([]c14Event{}, path...)
	for v := range m.vols {
		if ns[m.nFiles+v] == 0 {
			ns[m.nFiles+v] = 1
			p2 = append(p2, c14Event{Op: "restv", F: v})
		}
	}
	fs := m.build(ns)
	lost := m.lost(fs)
	if lost > m.capacity(ns) {
		r.Count("beyond_capacity_even_with_all_recovery_files", 1)
		return
	}
	_, err, pi, _ := m.repair(fs, false)
	r.AddTransitions(1)
	if pi != nil {
		return // reported by step
	}
	after, _ := m.classify(fs)
	ok := err == nil && after != nil
	if ok {
		for f := 0; f < m.nFiles; f++ {
			if after[f] != vOrig {
				ok = false
			}
		}
	}
	if !ok {
		if err != nil && strings.Contains(err.Error(), "singular") {
			r.Count("converge_singular", 1)
			return
		}
		r.ViolateWith("no-convergence-with-all-recovery-files", fmt.Sprintf("state %v: %d slices/files lost <= capacity %d, but Repair with every recovery file present did not restore the originals (err=%v)", []int(ns), lost, m.capacity(ns), err),
			&c14Case{Model: m.name, Path: append(p2, c14Event{Op: "repair"})})
	}
}

func c14Search(m *c14Model, r *core.Rec) {
	type node struct {
		s    c14State
		path []c14Event
	}
	init := m.initial()
	seen := map[string]bool{init.key(): true}
	verdicts := map[string]c14Verdict{}
	queue := []node{{init, nil}}
	depth := 0
	var deepest []c14Event
	perEvent := map[string]int{}
	for len(queue) > 0 {
		n := queue[0]
		queue = queue[1:]
		if len(n.path) > depth {
			depth = len(n.path)
			deepest = n.path
		}
		m.converge(n.s, r, n.path)
		r.Heartbeat()
		for _, ev := range m.events(n.s) {
			perEvent[ev.Op]++
			ns := m.step(n.s, ev, r, n.path, verdicts)
			if ev.Op == "dmg" || ev.Op == "restore" || ev.Op == "delv" || ev.Op == "restv" {
				r.AddTransitions(1)
			}
			if ns == nil {
				continue
			}
			if !seen[ns.key()] {
				seen[ns.key()] = true
				queue = append(queue, node{ns, append(append([]c14Event{}, n.path...), ev)})
			}
		}
	}
	r.AddStates(len(seen))
	r.Count("max_depth_"+m.name, depth)
	r.SampleExtra(map[string]interface{}{"model": m.name, "states": len(seen), "deepest_path": deepest})
	var ks []string
	for k := range perEvent {
		ks = append(ks, k)
	}
	sort.Strings(ks)
	for _, k := range ks {
		r.Count("events_"+k, perEvent[k])
	}
	r.Outcome(fmt.Sprintf("%s states=%d", m.name, len(seen)))
	for k, v := range verdicts {
		r.Outcome(k + v.counts + v.err)
	}
}

func init() {
	core.Register(&core.Prop{
		ID:    "C14",
		Level: "model_checking",
		Rule: "explicit-state breadth-first search to closure of the directory-state graph. PAR2 small: 2 files (one slice-aligned, both ending in zero bytes) x 9 contents {original, missing, first byte changed, last byte dropped, one byte prepended, other file's content, empty, garbage byte appended, zero byte appended} x 3 recovery files {present, absent}; PAR2 large: 3 files x 9 contents x 4 recovery files; PAR2 with a file of exactly 16384 bytes (3 contents, slice 4096); PAR2 small with a stray file matching the recovery-file pattern (another set's index) listed first / between the recovery files, or a copy of the set's own index under such a name (2 files x 4 contents x 3 recovery files); the small and the stray-file models with directory listings returned reversed / rotated; PAR1: 3 files x 5 contents x 2 volumes; PAR1 at the format's limits: 254 files + volumes .p01/.p02 (full 256-shard space; events on the first and last file, 3 contents) and 3 files with volumes .p01 and .p99 of 99 (the volumes in between never arrived); the small PAR2 / PAR1 models under 8 other index base names each (ending in characters of the extension, dotted, named like a recovery file, with a blank; 4 contents / 3 contents; alternately in memory and on disk); thorough adds 3 files x 9 contents x 5 recovery files (16 blocks), 4 files x 9 contents x 3 recovery files, and PAR1 4 files x 5 contents x 3 volumes. " +
			"Plus the Decoder protocol search: EVERY sequence of <=6 (thorough 7) operations {LoadFileData, LoadParityData, both, counts, Repair, Repair+check, delete a, change a, delete b, restore data, delete / restore first recovery file} on ONE exported Decoder object (PAR1, PAR2; in memory via the constructor hook; <=4 (thorough 5) through the exported constructor on a real directory); calls are judged when the object's last loads match the directory (counts == truth; Repair succeeds iff lost <= capacity, restores exactly the damaged files, makes no file worse). " +
			"Plus non-interference inside one process: every ordered pair, and every triple whose middle call fails or is interrupted (thorough: every triple), of 54 top-level calls (PAR1/PAR2 x Verify in 6 states, Repair in 4 states x 2 sets, Verify / Repair of a twin set with the same geometry and paths but other contents, Repair and Create interrupted by a torn write, Create in 7 variants incl. other block counts); the reference observation of each call comes from a fresh process, each on a private in-memory directory, run back to back with garbage collection off; the last call's full observation (error, result, every write, final directory) must equal that of the same call made alone. " +
			"Events: damage(f,w), restore(f), delete/restore recovery file, Verify, Repair, Repair+double-check. The small PAR2 and the PAR1 model are searched twice: on the owned in-memory filesystem and through the exported API on a real directory (rewrites detected by modification time). Every Verify/Repair transition executes the real code on a fresh filesystem built from the state (gopar keeps no state between calls). Invariants on every transition: Verify leaves the state unchanged and gives equal results for equal states; successful Repair => all original, Verify clean, a further Repair in both modes writes nothing and lists nothing; failed Repair => every file holds its previous content or its original, and no protected content that was findable before the call (under whatever name) is unfindable after it; from every reachable state, restoring all recovery files and repairing reaches the original whenever capacity suffices. non-trivial = states in which Repair wrote files or failed",
		Assumptions: []string{"state abstraction = exact directory contents (no merging), so no hidden futures are lost", "gopar keeps no state between top-level calls (each builds its decoder from disk)"},
		NewCase:     func() interface{} { return &c14Case{} },
		Gen: func(g *core.Gen) {
			g.Emit(&c14Case{Model: "p2large"})
			g.Emit(&c14Case{Model: "p2small"})
			g.Emit(&c14Case{Model: "p1"})
			// the same small models with every Verify / Repair transition executed through the exported API on a real directory
			g.Emit(&c14Case{Model: "p2small-disk"})
			g.Emit(&c14Case{Model: "p1-disk"})
			g.Emit(&c14Case{Model: "p2-16k"})
			g.Emit(&c14Case{Model: "p2crc8"})
			g.Emit(&c14Case{Model: "p2stray-first"})
			g.Emit(&c14Case{Model: "p2stray-mid"})
			g.Emit(&c14Case{Model: "p2stray-own"})
			g.Emit(&c14Case{Model: "p2stray-ownmid-rev"})
			// directory listings that come back in another order (reversed, rotated)
			g.Emit(&c14Case{Model: "p2small-rev"})
			g.Emit(&c14Case{Model: "p2small-rot"})
			g.Emit(&c14Case{Model: "p2stray-first-rev"})
			g.Emit(&c14Case{Model: "p2stray-mid-rot"})
			g.Emit(&c14Case{Model: "p1full"})
			g.Emit(&c14Case{Model: "p1vol99"})
			// other names for the index file: ending in characters of the extension, dotted, looking like a recovery file
			for i, b := range []string{"data", "a", "photos2", "foo.par", "s.par2", "s.vol00+01", "pp", "Backup 2"} {
				g.Emit(&c14Case{Model: "p2base:" + b + []string{"", "-disk"}[i%2]})
			}
			for i, b := range []string{"data", "a", "extra", "foo.par", "s.p01", "par", "r.", "Backup p"} {
				g.Emit(&c14Case{Model: "p1base:" + b + []string{"-disk", ""}[i%2]})
			}
			// non-interference of top-level calls within one process: all ordered pairs (and triples) of calls on private directories
			interfereGen(func(ic *interfereCase) { g.Emit(&c14Case{Model: "interfere", Inter: ic}) }, g.Thorough())
			// the staged exported API behind Verify / Repair: every operation sequence on ONE Decoder object
			depth, diskDepth := 6, 4
			if g.Thorough() {
				depth, diskDepth = 7, 5
			}
			for _, f := range []string{"p2", "p1"} {
				decProtoGen(f, depth, false, func(d *decProtoCase) { g.Emit(&c14Case{Model: "decproto", Dec: d}) })
				decProtoGen(f, diskDepth, true, func(d *decProtoCase) { g.Emit(&c14Case{Model: "decproto", Dec: d}) })
			}
			if !g.Thorough() {
				// quick tier: one step deeper below the two-event prefixes that first take a recovery file away and then damage
				// a data file (the histories in which recovery data arrives LATER than the first, refused Repair)
				for _, f := range []string{"p2", "p1"} {
					for _, ev := range []int{dpDelA, dpDelB, dpChangeA} {
						for x := 0; x < dpNOps; x++ {
							g.Emit(&c14Case{Model: "decproto", Dec: &decProtoCase{Fmt: f, Prefix: []int{dpDelVol0, ev, x}, Depth: depth + 1}})
						}
					}
				}
			}
			if g.Thorough() {
				g.Emit(&c14Case{Model: "p1full-disk"})
				g.Emit(&c14Case{Model: "p1vol99-disk"})
				g.Emit(&c14Case{Model: "p2four"})
				g.Emit(&c14Case{Model: "p2huge"})
				g.Emit(&c14Case{Model: "p1large"})
			}
		},
		Run: func(ci interface{}, r *core.Rec) {
			c := ci.(*c14Case)
			if c.Inter != nil {
				interfereRun(c.Inter, r)
				return
			}
			if c.Dec != nil {
				decProtoRun(c.Dec, r, func(d *decProtoCase) interface{} { return &c14Case{Model: "decproto", Dec: d} })
				return
			}
			m := c14Build(c.Model, r.Seed)
			if c.Path == nil {
				c14Search(m, r)
				return
			}
			// replay of an event path
			s := m.initial()
			verdicts := map[string]c14Verdict{}
			for i, ev := range c.Path {
				if i == len(c.Path)-1 && ev.Op == "repair" {
					m.converge(s, r, c.Path[:i])
				}
				s = m.step(s, ev, r, c.Path[:i], verdicts)
				if s == nil {
					return
				}
			}
		},
	})
}

func containsInt(xs []int, x int) bool {
	for _, y := range xs {
		if y == x {
			return true
		}
	}
	return false
}
