package props

import (
	"fmt"
	"strings"

	"verifh/core"
	"verifh/scen"
)

// c16SizeOrder is "vcheck aux c16-size-order <seed> <s1> <s2> ...": in a fresh process, one displaced-slice scenario per
// slice size, in the given order (what the search needs for one window length must not depend on the window lengths the
// process handled before). Prints "ok" or what went wrong.
func c16SizeOrder(args []string) int {
	var seed int64 = 1
	if len(args) > 0 {
		fmt.Sscan(args[0], &seed)
		args = args[1:]
	}
	for _, a := range args {
		s := 0
		fmt.Sscan(a, &s)
		n := 4*s + s/2
		cfg := scen.P2Config{Sizes: []int{n, s + 1}, Slice: s, Blocks: 3, Class: "uniq"}
		set, err := scen.GetP2(cfg, seed)
		if err != nil {
			fmt.Printf("slice %d: create failed: %v\n", s, err)
			return 0
		}
		total := (n+s-1)/s + 2
		for _, ed := range []scen.Dmg{{Op: "ins", F: 0, At: 1, N: 1}, {Op: "cut", F: 0, At: s + 1, N: 2}, {Op: "ins", F: 0, At: 2*s + 1, N: s + 1}} {
			fs := set.FS0.Clone()
			set.ApplyDmg(fs, ed, seed)
			lost := c16Lost(n, s, ed.Op == "ins", ed.At, ed.N)
			var o scen.P2Obs
			set.ObserveVerify(fs, 1, &o)
			if o.VerifyPanic != nil || o.VerifyErr != nil {
				fmt.Printf("slice %d edit %+v: Verify failed: %v %v\n", s, ed, o.VerifyErr, o.VerifyPanic)
				return 0
			}
			// the geometry is an upper bound on the loss (see the self-check of the main cases)
			if o.Counts.UsableDataShardCount < total-lost {
				fmt.Printf("slice %d edit %+v: Verify found %d of %d slices, at least %d are there\n", s, ed, o.Counts.UsableDataShardCount, total, total-lost)
				return 0
			}
			if lost > 3 {
				continue
			}
			set.ObserveRepair(fs, 1, true, &o)
			if o.RepairPanic != nil || o.RepairErr != nil || !set.AllOriginal(o.After) {
				fmt.Printf("slice %d edit %+v: Repair with 3 blocks for %d lost slices: %v %v, all original: %v\n", s, ed, lost, o.RepairErr, o.RepairPanic, set.AllOriginal(o.After))
				return 0
			}
		}
	}
	fmt.Println("ok")
	return 0
}

// c16Permute calls f with every permutation of v.
func c16Permute(v []int, f func([]int)) {
	var rec func(k int)
	rec = func(k int) {
		if k == len(v) {
			f(append([]int{}, v...))
			return
		}
		for i := k; i < len(v); i++ {
			v[k], v[i] = v[i], v[k]
			rec(k + 1)
			v[k], v[i] = v[i], v[k]
		}
	}
	rec(0)
}

// C16: slices are found at any byte offset.

// c16Lost computes, from the edit geometry alone, which slices of a file
// of length n (slice size s) are destroyed by inserting (ins=true) or
// deleting L bytes at position p. High-entropy, zero-free content is
// assumed (no accidental matches).
func c16Lost(n, s int, ins bool, p, L int) int {
	ns := (n + s - 1) / s
	lost := 0
	for k := 0; k < ns; k++ {
		lo := k * s
		hi := lo + s
		partial := false
		if hi > n {
			hi = n
			partial = true
		}
		if ins {
			if p > lo && p < hi {
				lost++
			} else if partial && p == hi {
				lost++ // appended bytes follow the short last slice: its zero padding is no longer at EOF
			}
		} else {
			end := p + L
			if end > n {
				end = n
			}
			if p < hi && end > lo {
				lost++
			}
		}
	}
	return lost
}

func c16Gen(g *core.Gen) {
	// every 97th scenario also runs through the exported API on a real directory, from another working directory and
	// with the index path spelled absolutely / relatively (diskTwinP2): where the slices are looked for must not depend
	// on how the index file was named
	nEmit := 0
	emit := func(c *p2Case) {
		nEmit++
		if nEmit%97 == 0 && c.PriorGen == 0 {
			c.DiskTwin = true
		}
		g.Emit(c)
	}
	// every order in which a fresh process can meet 3 (thorough 4) slice sizes
	orderSizes := [][]int{{4, 12, 20}, {8, 64, 1000}}
	if g.Thorough() {
		orderSizes = [][]int{{4, 8, 20, 64}, {12, 16, 256, 4096}}
	}
	for _, os := range orderSizes {
		c16Permute(os, func(p []int) { g.Emit(&p2Case{Order: p}) })
	}
	ss := []int{4, 8, 12, 16}
	if g.Thorough() {
		ss = []int{4, 8, 12, 16, 20, 32, 48}
	}
	for _, s := range ss {
		for _, n := range []int{3 * s, 3*s + 1, 4*s - 1, 5*s + s/2} {
			for _, second := range []bool{false, true} {
				sizes := []int{n}
				if second {
					sizes = []int{n, 2*s + 1}
				}
				cfg := scen.P2Config{Sizes: sizes, Slice: s, Blocks: 7, Class: "uniq"}
				if second && s == 8 {
					// interaction: displaced slices in a file that lives in a sub-directory, several goroutines
					cfg.Names = []string{"sub/dir/a b", "other/c"}
					cfg.G = 3
				}
				for L := 1; L <= 2*s+1; L++ {
					for p := 0; p <= n; p++ {
						for _, ins := range []bool{true, false} {
							if !ins && (p >= n || p+L > n) {
								continue
							}
							if !ins && L >= n {
								continue
							}
							lost := c16Lost(n, s, ins, p, L)
							op := scen.Dmg{Op: "cut", F: 0, At: p, N: L}
							if ins {
								op = scen.Dmg{Op: "ins", F: 0, At: p, N: L}
							}
							if lost > 7 {
								continue
							}
							// verify with all blocks present, and repair with exactly `lost` blocks left
							emit(&p2Case{Cfg: cfg, Dmg: []scen.Dmg{op}, G: 1, AutoPrune: true, Extra: []string{"c16"}})
						}
					}
				}
			}
		}
		_ = s
	}
	// duplicates x displacement: a slice repeated inside a file / a whole file stored twice, with bytes inserted or cut
	// at every offset of the (second) copy - hits on already located slices must not end the search for the others
	for _, s := range []int{4, 8} {
		for _, cfg := range []scen.P2Config{
			{Sizes: []int{6*s + 1, 2 * s}, Slice: s, Blocks: 7, Class: "dupslice"},
			{Sizes: []int{5*s + 3, s}, Slice: s, Blocks: 7, Class: "repslice"},
			{Sizes: []int{5 * s}, Slice: s, Blocks: 7, Class: "repslice"},
			{Sizes: []int{3 * s, 3 * s, 2*s + 1}, Slice: s, Blocks: 7, Class: "uniq", DupFile: true},
		} {
			for f := 0; f < 2 && f < len(cfg.Sizes); f++ {
				n := cfg.Sizes[f]
				for p := 0; p <= n; p++ {
					for _, L := range []int{1, s} {
						emit(&p2Case{Cfg: cfg, Dmg: []scen.Dmg{{Op: "ins", F: f, At: p, N: L}}, G: 1, AutoPrune: true, Extra: []string{"c16"}})
						if p+L <= n && L < n {
							emit(&p2Case{Cfg: cfg, Dmg: []scen.Dmg{{Op: "cut", F: f, At: p, N: L}}, G: 1, AutoPrune: true, Extra: []string{"c16"}})
						}
					}
				}
			}
		}
	}
	// exactly 256 pairwise different slices whose CRC-32s agree in their low 16 bits (any 8- or 16-bit counter over
	// checksum prefixes wraps exactly there), reached while sliding: bytes inserted / deleted in front of them
	for _, n := range []int{258, 300} {
		cfg := scen.P2Config{Sizes: []int{8*n + 3, 20}, Slice: 8, Blocks: 7, Class: "crclow16"}
		for _, op := range []scen.Dmg{{Op: "ins", F: 0, At: 0, N: 1}, {Op: "ins", F: 0, At: 3, N: 5}, {Op: "cut", F: 0, At: 0, N: 1}, {Op: "cut", F: 0, At: 2, N: 9}, {Op: "ins", F: 0, At: 8 * 100, N: 3}} {
			emit(&p2Case{Cfg: cfg, Dmg: []scen.Dmg{op}, G: 1, AutoPrune: true, Extra: []string{"c16"}})
		}
	}
	// files whose last bytes are zero and get cut off (the zero padding of the scan window stands in for them): every
	// truncation point, with last slices of 3 / 2 bytes (slice 4) and 7 / 3 bytes (slice 8), alone and with an insert in
	// front; plus same-size displacement - n bytes inserted at a and n bytes cut at b in one file, every a < b
	for _, cfg := range []scen.P2Config{{Sizes: []int{11, 6}, Slice: 4, Blocks: 4, Class: "trailzero2"}, {Sizes: []int{23, 11}, Slice: 8, Blocks: 4, Class: "trailzero2"}} {
		for f, n := range cfg.Sizes {
			for at := 1; at < n; at++ {
				emit(&p2Case{Cfg: cfg, Dmg: []scen.Dmg{{Op: "trunc", F: f, At: at}}, G: 1, AutoPrune: true, Extra: []string{"c16"}})
				emit(&p2Case{Cfg: cfg, Dmg: []scen.Dmg{{Op: "ins", F: f, At: 0, N: 1}, {Op: "trunc", F: f, At: at}}, G: 1, AutoPrune: true, Extra: []string{"c16"}})
			}
		}
	}
	{
		cfg := scen.P2Config{Sizes: []int{30, 9}, Slice: 4, Blocks: 8, Class: "uniq"}
		for n := 1; n <= 5; n++ {
			for a := 0; a < 30; a++ {
				for b := a + 1; b+n <= 30+n; b++ {
					// after the insert at a the file has 30+n bytes; cutting n bytes at b > a restores the size
					emit(&p2Case{Cfg: cfg, Dmg: []scen.Dmg{{Op: "ins", F: 0, At: a, N: n}, {Op: "cut", F: 0, At: b, N: n}}, G: 1, AutoPrune: true, Extra: []string{"c16"}})
				}
			}
		}
	}
	// files whose length is an exact multiple of the slice size (their last slice has no padding): bytes inserted in
	// front of the last slice AND bytes appended behind it - the last slice survives away from home with data after it;
	// also the whole content of such a file found inside another file, followed by more bytes
	for _, cfg := range []scen.P2Config{{Sizes: []int{12, 8}, Slice: 4, Blocks: 5, Class: "uniq"}, {Sizes: []int{16, 24}, Slice: 8, Blocks: 5, Class: "uniq"}} {
		for f, n := range cfg.Sizes {
			for at := 0; at <= n; at++ {
				for k := 1; k <= 3; k++ {
					for _, m := range []int{1, cfg.Slice - 1, cfg.Slice, cfg.Slice + 1} {
						emit(&p2Case{Cfg: cfg, Dmg: []scen.Dmg{{Op: "ins", F: f, At: at, N: k}, {Op: "app", F: f, N: m}}, G: 1, AutoPrune: true, Extra: []string{"c16"}})
					}
				}
			}
			for g2 := range cfg.Sizes {
				if g2 != f {
					for _, m := range []int{1, cfg.Slice, cfg.Slice + 1} {
						emit(&p2Case{Cfg: cfg, Dmg: []scen.Dmg{{Op: "copy", F: f, G: g2}, {Op: "app", F: g2, N: m}, {Op: "del", F: f}}, G: 1, AutoPrune: true, Extra: []string{"c16"}})
					}
				}
			}
		}
	}
	// slices carrying the boundary values of the 32-bit checksum field (0, 1, 0xffffffff, 0x80000000, ...), displaced by
	// every insert / cut of 1..slice+1 bytes at every offset of the first two slices and at the file's end
	for _, cfg := range []scen.P2Config{{Sizes: []int{59, 20}, Slice: 8, Blocks: 4, Class: "crcfield"}, {Sizes: []int{26, 9}, Slice: 4, Blocks: 3, Class: "crcfield"}} {
		for f := range cfg.Sizes {
			for at := 0; at <= 2*cfg.Slice; at++ {
				for n := 1; n <= cfg.Slice+1; n++ {
					emit(&p2Case{Cfg: cfg, Dmg: []scen.Dmg{{Op: "ins", F: f, At: at, N: n}}, G: 1, AutoPrune: true, Extra: []string{"c16"}})
					emit(&p2Case{Cfg: cfg, Dmg: []scen.Dmg{{Op: "cut", F: f, At: at, N: n}}, G: 1, AutoPrune: true, Extra: []string{"c16"}})
				}
			}
		}
	}
	// two files of equal length that exchanged slices at the same offsets (every non-empty proper subset of the slices,
	// aligned and displaced by half a slice): no recovery block is needed, each file is put together from slices found in
	// two different places. All of them also as disk twins (buffers as the real filesystem hands them out).
	for _, sl := range []int{8, 64, 512} {
		for _, ns := range []int{2, 3} {
			cfg := scen.P2Config{Sizes: []int{ns * sl, ns * sl}, Slice: sl, Blocks: 2, Class: "uniq"}
			for mask := 1; mask < 1<<uint(ns)-1; mask++ {
				var ops []scen.Dmg
				for k := 0; k < ns; k++ {
					if mask&(1<<uint(k)) != 0 {
						ops = append(ops, scen.Dmg{Op: "xchg", F: 0, G: 1, At: k * sl, N: sl})
					}
				}
				g.Emit(&p2Case{Cfg: cfg, Dmg: ops, G: 1, AutoPrune: true, Extra: []string{"c16"}, DiskTwin: true})
			}
			g.Emit(&p2Case{Cfg: cfg, Dmg: []scen.Dmg{{Op: "xchg", F: 0, G: 1, At: sl / 2, N: sl}}, G: 1, AutoPrune: true, Extra: []string{"c16"}, DiskTwin: true})
		}
	}
	// files of 16383 / 16384 / 16385 bytes (the span of the format's 16k hash), rewritten by Repair from displaced slices:
	// bytes inserted at the front / inside a slice / cut, and the content under the second file's name
	for _, n := range []int{16383, 16384, 16385} {
		for _, sl := range []int{1024, 4096, 16384} {
			cfg := scen.P2Config{Sizes: []int{n, 700}, Slice: sl, Blocks: 3, Class: "uniq"}
			for _, op := range []scen.Dmg{{Op: "ins", F: 0, At: 0, N: 1}, {Op: "ins", F: 0, At: sl/2 + 3, N: 5}, {Op: "cut", F: 0, At: 1, N: 2}, {Op: "ins", F: 0, At: n, N: 3}} {
				emit(&p2Case{Cfg: cfg, Dmg: []scen.Dmg{op}, G: 1, AutoPrune: true, Extra: []string{"c16"}})
			}
			emit(&p2Case{Cfg: cfg, Dmg: []scen.Dmg{{Op: "swap", F: 0, G: 1}}, G: 1, AutoPrune: true, Extra: []string{"c16"}})
		}
	}
	// the same displaced-slice search right after another generation of the set (same ids, other content) was decoded in this process
	genGenerationCases(func(c *p2Case) { c.Extra = []string{"c16"}; emit(c) }, true)
	// slice sizes at and around powers of two up to 64 KiB (rolling-CRC tables are built per window length): a 5-slice
	// file, insert / delete at a few positions, second file present
	bigS := []int{2000, 4096, 16384, 32764, 32768, 32772, 65536}
	if !g.Thorough() {
		bigS = []int{2000, 32768, 65536}
	}
	for _, s := range bigS {
		n := 4*s + s/2
		cfg := scen.P2Config{Sizes: []int{n, s + 3}, Slice: s, Blocks: 7, Class: "uniq"}
		for _, p := range []int{0, 1, s - 1, s, s + 1, 2*s + 7, n - 1, n} {
			for _, L := range []int{1, 3, s - 1, s, s + 5} {
				for _, ins := range []bool{true, false} {
					if !ins && p+L > n {
						continue
					}
					op := scen.Dmg{Op: "cut", F: 0, At: p, N: L}
					if ins {
						op = scen.Dmg{Op: "ins", F: 0, At: p, N: L}
					}
					emit(&p2Case{Cfg: cfg, Dmg: []scen.Dmg{op}, G: 2, AutoPrune: true, Extra: []string{"c16"}})
				}
			}
		}
	}
	for _, s := range ss {
		// content of f under g's name
		cfg := scen.P2Config{Sizes: []int{3*s + 1, 2 * s, 4*s - 1}, Slice: s, Blocks: 7, Class: "uniq"}
		for f := 0; f < 3; f++ {
			for h := 0; h < 3; h++ {
				if f == h {
					continue
				}
				if f < h {
					emit(&p2Case{Cfg: cfg, Dmg: []scen.Dmg{{Op: "swap", F: f, G: h}}, AutoPrune: true, Extra: []string{"c16"}})
				}
				// rename f to h's name (h's content is lost): exactly h's slices need blocks
				emit(&p2Case{Cfg: cfg, Dmg: []scen.Dmg{{Op: "copy", F: f, G: h}, {Op: "del", F: f}}, AutoPrune: true, Extra: []string{"c16"}})
				emit(&p2Case{Cfg: cfg, Dmg: []scen.Dmg{{Op: "copy", F: f, G: h}}, AutoPrune: true, Extra: []string{"c16"}})
			}
		}
	}
}

func init() {
	core.Aux["c16-size-order"] = c16SizeOrder
	core.Register(&core.Prop{
		ID:    "C16",
		Level: "model_checking",
		Rule: "(later rounds added: checksum-field boundary contents under displacement; zero tails of two bytes x every truncation point; same-size displacement for every a < b; aligned files with an insert in front of the last slice and bytes appended behind it; every 97th scenario as a disk twin; fresh processes that meet 3 (thorough 4) slice sizes in every order; files of 16383..16385 bytes x slice {1024, 4096, 16384} x 5 edits; two equally long files that exchanged every subset of their slices, on disk too) full product: slice size {4,8,12,16 (quick), +20,32,48 (thorough)} x file length {3s,3s+1,4s-1,5s+s/2} x {insert,delete} x every position 0..len x every edit length 1..2s+1 x second file present/absent, " +
			"plus every ordered pair (content of f under g's name: swap, overwrite, rename); plus slice sizes {2000, 32768, 65536} (thorough also 4096, 16384, 32764, 32772) x 8 edit positions x 5 edit lengths. Recovery files are deleted so that exactly as many blocks remain as slices the edit touches. " +
			"Oracle: Verify usable == slices found by brute-force scan == edit geometry; Repair must succeed with exactly that many blocks (a found slice that consumed a block would make it fail). non-trivial = edit destroys >=1 and leaves >=1 slice",
		Assumptions: []string{"content is high-entropy and zero-free so the occurrence set is overlap-free (self-checked per case by the brute-force scan)"},
		NewCase:     func() interface{} { return &p2Case{} },
		Gen:         c16Gen,
		Run: func(ci interface{}, r *core.Rec) {
			c := ci.(*p2Case)
			if len(c.Order) > 0 {
				args := []string{fmt.Sprint(r.Seed)}
				for _, s := range c.Order {
					args = append(args, fmt.Sprint(s))
				}
				out, err := core.FreshProcess("c16-size-order", args...)
				r.AddStates(len(c.Order))
				r.AddTransitions(6 * len(c.Order))
				if err != nil || strings.TrimSpace(out) != "ok" {
					r.Violatef("displaced-slices-depend-on-earlier-slice-sizes", "fresh process, slice sizes in the order %v: %v %s", c.Order, err, strings.TrimSpace(out))
				}
				r.Outcome(fmt.Sprintf("order %v", c.Order))
				r.NontrivialCase()
				return
			}
			extra := c.Extra
			c.Extra = nil
			run := runP2(c, r, p2Clauses{ExactUsable: true, RepairWithinCapacity: true})
			c.Extra = extra
			if run == nil {
				return
			}
			t := run.T
			if !t.Scan.OverlapFree {
				r.Count("coincidental_overlap", 1)
			}
			if t.N != t.K {
				r.Count("blocks_left_differ_from_lost_slices", 1)
			}
			if len(c.Dmg) == 1 && (c.Dmg[0].Op == "ins" || c.Dmg[0].Op == "cut") {
				// the geometry is an upper bound: a byte next to the edit that happens to equal the
				// byte it replaced can re-complete a slice (the brute-force scan is the truth)
				want := c16Lost(c.Cfg.Sizes[0], c.Cfg.Slice, c.Dmg[0].Op == "ins", c.Dmg[0].At, c.Dmg[0].N)
				if t.K > want {
					r.Violatef("harness-self-check:geometry", "edit geometry predicts at most %d lost slices, brute-force scan %d", want, t.K)
				} else if t.K < want {
					r.Count("coincidental_recompletion", 1)
				} else {
					r.Count("geometry_equals_scan", 1)
				}
			}
			if t.K > 0 && t.K < t.Total {
				r.NontrivialCase()
			}
		},
	})
}
