package props

import (
	"go/ast"
	"go/parser"
	"go/token"
	"os"
	"path/filepath"
	"strings"
)

// seamLintError is non-empty when non-test par1/par2 sources reach the
// OS other than through defaultFileIO (then the recorder would be blind).
var seamLintError string
var seamLintDone bool

func repoDir() string {
	if v := os.Getenv("VERIF_REPO"); v != "" {
		return v
	}
	return "/repo"
}

func lintFileIOSeam() {
	if seamLintDone {
		return
	}
	seamLintDone = true
	banned := map[string]bool{"os.Create": true, "os.OpenFile": true, "os.Open": true, "os.Remove": true, "os.RemoveAll": true, "os.Rename": true, "os.WriteFile": true,
		"os.ReadFile": true, "os.Mkdir": true, "os.MkdirAll": true, "os.Truncate": true, "os.Symlink": true, "os.Link": true, "os.Chmod": true, "os.ReadDir": true,
		"ioutil.WriteFile": true, "ioutil.ReadFile": true, "ioutil.ReadDir": true, "ioutil.TempFile": true, "ioutil.TempDir": true, "filepath.Glob": true, "filepath.Walk": true, "filepath.WalkDir": true,
		"os.Chdir": true}
	var bad []string
	for _, pkg := range []string{"par1", "par2"} {
		files, _ := filepath.Glob(filepath.Join(repoDir(), pkg, "*.go"))
		for _, f := range files {
			if strings.HasSuffix(f, "_test.go") {
				continue
			}
			fset := token.NewFileSet()
			af, err := parser.ParseFile(fset, f, nil, 0)
			if err != nil {
				continue
			}
			ast.Inspect(af, func(n ast.Node) bool {
				// calls inside methods of defaultFileIO are the seam itself
				if fd, ok := n.(*ast.FuncDecl); ok && fd.Recv != nil && len(fd.Recv.List) == 1 {
					if id, ok := fd.Recv.List[0].Type.(*ast.Ident); ok && id.Name == "defaultFileIO" {
						return false
					}
				}
				if ce, ok := n.(*ast.CallExpr); ok {
					if se, ok := ce.Fun.(*ast.SelectorExpr); ok {
						if id, ok := se.X.(*ast.Ident); ok {
							name := id.Name + "." + se.Sel.Name
							if banned[name] {
								bad = append(bad, fset.Position(ce.Pos()).String()+": "+name)
							}
						}
					}
				}
				return true
			})
		}
	}
	if len(bad) > 0 {
		seamLintError = "par1/par2 touch the filesystem outside defaultFileIO: " + strings.Join(bad, "; ")
	}
}
