package props

import (
	"bytes"
	"crypto/md5"
	"fmt"
	"io/ioutil"
	"os"
	"os/exec"
	"path/filepath"
	"sort"
	"strings"
	"verifh/envfs"
	"verifh/ref/rpar2"

	"github.com/akalin/gopar/par1"
	"github.com/akalin/gopar/par2"

	"verifh/core"
	"verifh/scen"
)

// C17: Create is deterministic and invariant under irrelevant variation.

type c17Case struct {
	Fmt         string `json:"fmt"`   // p2, p1
	N           int    `json:"n"`     // number of files
	Perm        int    `json:"perm"`  // index of the permutation of the input list (PAR2 only)
	G           int    `json:"g"`     // goroutines
	Cwd         string `json:"cwd"`   // set, parent, unrelated
	Spell       string `json:"spell"` // rel, abs, dotslash, dblslash, updown
	Via         string `json:"via"`   // lib, cli
	Rep         int    `json:"rep,omitempty"`
	Big         bool   `json:"big,omitempty"`         // slice size 96 and larger files, so that the goroutine option really splits the work
	Blocks      int    `json:"blocks,omitempty"`      // recovery blocks / volumes (default 3)
	PriorBlocks int    `json:"priorblocks,omitempty"` // history inside the process: an unrelated Create with this many blocks ran just before
	Link        int    `json:"link,omitempty"`        // 1: the first input is a symbolic link (relative) to its bytes, which lie beside it under another name; 2: absolute link to bytes outside the set directory. The link's own name and place are what counts
	PriorGen    bool   `json:"priorgen,omitempty"`    // history inside the process (with Look): a Create of ANOTHER GENERATION of the same inputs - same names, lengths and first 16 KiB, other tails - ran just before in a directory of its own
	Names       int    `json:"names,omitempty"`       // 1: directory names that are string prefixes of sibling file names (photos/ and photos.txt, photos/deep/ and photos/deep.bak)
	Look        bool   `json:"look,omitempty"`        // look-alike inputs: every file 17000 bytes with the same first 16 KiB, different tails (slice size 1000)
	DupK        int    `json:"dupk,omitempty"`        // with Dup: which input is mentioned twice (index into the listed order)
	DupAt       int    `json:"dupat,omitempty"`       // with Dup: 0 = the second mention goes to the end of the list; k>0 = it is inserted at position k-1
	Dup         string `json:"dup,omitempty"`         // the first input is listed a second time (at the end), spelled in this style
	Glitch      int    `json:"glitch,omitempty"`      // k > 0: in-memory Create whose k-th write fails once (without effect / torn, see c17RunGlitch); then Create again over what is left
	Tie         int    `json:"tie,omitempty"`         // PAR2: two inputs whose file ids agree in their Tie most significant bytes (Tie > 0) or -Tie least significant bytes (Tie < 0), plus a third file, in all six listing orders
	Stale       int    `json:"stale,omitempty"`       // the set directory already holds output files: 1 = longer garbage under the same names, 2 = shorter, 3 = unrelated text; 4 = a real earlier Create over the same inputs with ONE block; 5 = a real earlier identical Create whose recovery files were then deleted / corrupted
}

var c17Names = []string{"f0", "sub/f1", "f2", "sub/deep/f3"}
var c17PrefixNames = []string{"photos/f1", "photos.txt", "photos/deep/f3", "photos/deep.bak"}
var c17Sizes = []int{11, 6, 9, 4}
var c17BigSizes = []int{300, 96, 200, 50}

func (c *c17Case) blocks() int {
	if c.Blocks > 0 {
		return c.Blocks
	}
	return 3
}

func (c *c17Case) slice() int {
	if c.Look {
		return 1000
	}
	if c.Big {
		return 96
	}
	return 4
}

func c17Spell(style, cwd, abs string) string {
	rel, err := filepath.Rel(cwd, abs)
	if err != nil {
		panic(err)
	}
	switch style {
	case "rel":
		return rel
	case "abs":
		return abs
	case "dotslash":
		return "./" + rel
	case "dblslash":
		if i := strings.Index(rel, "/"); i >= 0 {
			return rel[:i] + "//" + rel[i+1:]
		}
		return ".//" + rel
	case "updown":
		if i := strings.Index(rel, "/"); i > 0 && rel[:i] != ".." {
			return rel[:i] + "/../" + rel
		}
		return "../" + filepath.Base(cwd) + "/" + rel
	}
	panic("bad style")
}

func c17ReadOutputs(dir, base string) map[string][]byte {
	out := map[string][]byte{}
	ents, _ := ioutil.ReadDir(dir)
	for _, e := range ents {
		n := e.Name()
		if !e.IsDir() && strings.HasPrefix(n, base+".") {
			b, _ := ioutil.ReadFile(filepath.Join(dir, n))
			out[n] = b
		}
	}
	return out
}

var c17Seq int

// c17Create builds a fresh directory tree, runs one Create as described and
// returns the written set files.
func c17Create(c *c17Case, seed int64, r *core.Rec) (map[string][]byte, error) {
	return c17CreateIn(c, seed, r, nil)
}

// c17CreateIn: stale maps output file names to content placed in the set directory before Create runs.
func c17CreateIn(c *c17Case, seed int64, r *core.Rec, stale map[string][]byte) (map[string][]byte, error) {
	c17Seq++
	root := filepath.Join(workerScratch(), fmt.Sprintf("c17-%d", c17Seq))
	os.RemoveAll(root)
	defer os.RemoveAll(root)
	// directory names with characters that mean something to formatters, globbers and shells (they are part of the
	// index path whenever it is spelled from outside the set directory)
	setDir := filepath.Join(root, "pa%r\u00e9nt", "se%20t %d") // a non-ASCII directory above the set: stored names are relative to the index and stay ASCII
	unrelated := filepath.Join(root, "else", "where")
	os.MkdirAll(unrelated, 0755)
	var abs []string
	for i := 0; i < c.N; i++ {
		name := c17Names[i]
		if c.Names == 1 {
			name = c17PrefixNames[i]
		}
		if c.Fmt == "p1" {
			name = filepath.Base(name) // PAR1 stores base names; keep all files in the set directory
		}
		p := filepath.Join(setDir, name)
		os.MkdirAll(filepath.Dir(p), 0755)
		sz := c17Sizes[i]
		if c.Big {
			sz = c17BigSizes[i]
		}
		class := "uniq"
		if c.Look {
			class, sz = "lookalike", 17000
		}
		ioutil.WriteFile(p, scen.Content(class, seed, i, sz, 4), 0644)
		abs = append(abs, p)
	}
	if c.Link != 0 && len(abs) > 0 {
		target := abs[0] + ".target"
		linkTo := filepath.Base(target)
		if c.Link == 2 {
			os.MkdirAll(unrelated, 0755)
			target = filepath.Join(unrelated, "bytes-of-f0")
			linkTo = target
		}
		if os.Rename(abs[0], target) == nil {
			if os.Symlink(linkTo, abs[0]) != nil {
				os.Rename(target, abs[0])
			}
		}
	}
	for n, b := range stale {
		ioutil.WriteFile(filepath.Join(setDir, n), b, 0644)
	}
	if c.Stale == 4 || c.Stale == 5 {
		// history: an earlier run of the real Create in the same directory
		blocks := 3
		if c.Stale == 4 {
			blocks = 1
		}
		var e error
		if c.Fmt == "p2" {
			e = par2.Create(filepath.Join(setDir, "s.par2"), abs, par2.CreateOptions{SliceByteCount: c.slice(), NumParityShards: blocks, NumGoroutines: 1})
		} else {
			e = par1.Create(filepath.Join(setDir, "s.par"), abs, par1.CreateOptions{NumParityFiles: blocks})
		}
		if e != nil {
			return nil, fmt.Errorf("earlier Create failed: %v", e)
		}
		if c.Stale == 5 {
			first := true
			for n, b := range c17ReadOutputs(setDir, "s") {
				if n == "s.par2" || n == "s.par" {
					continue
				}
				if first {
					os.Remove(filepath.Join(setDir, n))
					first = false
				} else {
					nb := append([]byte{}, b...)
					nb[len(nb)-1] ^= 0x40
					ioutil.WriteFile(filepath.Join(setDir, n), nb, 0644)
				}
			}
		}
	}
	if c.Fmt == "p2" {
		perms := permutations(c.N)
		pm := perms[c.Perm%len(perms)]
		na := make([]string, c.N)
		for i, j := range pm {
			na[i] = abs[j]
		}
		abs = na
	}
	cwd := setDir
	switch c.Cwd {
	case "parent":
		cwd = filepath.Dir(setDir)
	case "unrelated":
		cwd = unrelated
	}
	// decoys: a working directory other than the set directory holds look-alikes of the inputs (alternately a directory
	// and a regular file of other content under the same base name) and of the set files; none of them is part of this
	// Create, and none may influence or be touched by it
	decoys := map[string][]byte{}
	if cwd != setDir {
		for i, a := range abs {
			b := filepath.Join(cwd, filepath.Base(a))
			if i%2 == 0 {
				os.MkdirAll(b, 0755)
			} else {
				decoys[b] = []byte(fmt.Sprintf("decoy %d", i))
			}
		}
		for _, n := range []string{"s.par", "s.par2", "s.p01", "s.vol0+1.par2"} {
			decoys[filepath.Join(cwd, n)] = []byte("decoy set file " + n)
		}
		for p, b := range decoys {
			ioutil.WriteFile(p, b, 0644)
		}
	}
	defer func() {
		for p, b := range decoys {
			if got, e := ioutil.ReadFile(p); e != nil || !bytes.Equal(got, b) {
				r.Violatef("create-touched-the-working-directory", "%+v: %s (not part of this Create) was changed or removed", *c, p)
				return
			}
		}
	}()
	ext := ".par2"
	if c.Fmt == "p1" {
		ext = ".par"
	}
	parAbs := filepath.Join(setDir, "s"+ext)
	parArg := c17Spell(c.Spell, cwd, parAbs)
	var args []string
	for _, a := range abs {
		args = append(args, c17Spell(c.Spell, cwd, a))
	}
	if c.Dup != "" {
		extra := c17Spell(c.Dup, cwd, abs[c.DupK%len(abs)])
		if c.DupAt == 0 || c.DupAt-1 >= len(args) {
			args = append(args, extra)
		} else {
			at := c.DupAt - 1
			args = append(args[:at], append([]string{extra}, args[at:]...)...)
		}
	}
	if c.Via != "cli" && (c.PriorBlocks > 0 || c.PriorGen) {
		// the earlier Create of this process: other inputs with another block count, or another generation of these inputs
		priorDir := filepath.Join(root, "prior")
		var pin []string
		for i := 0; i < c.N; i++ {
			name := c17Names[i]
			if c.Fmt == "p1" {
				name = filepath.Base(name)
			}
			pp := filepath.Join(priorDir, name)
			os.MkdirAll(filepath.Dir(pp), 0755)
			var b []byte
			if c.PriorGen {
				b, _ = ioutil.ReadFile(abs[i%len(abs)])
				b = append([]byte{}, b...)
				alt := scen.Content("uniq", seed+777, i, len(b), 4)
				if len(b) > 16384 {
					copy(b[16384:], alt[16384:])
				}
				pp = filepath.Join(priorDir, strings.TrimPrefix(abs[i%len(abs)], setDir+"/"))
				os.MkdirAll(filepath.Dir(pp), 0755)
			} else {
				b = scen.Content("uniq", seed+55, i, c17Sizes[i]+3, 4)
			}
			ioutil.WriteFile(pp, b, 0644)
			pin = append(pin, pp)
		}
		pb := c.PriorBlocks
		if pb == 0 {
			pb = c.blocks()
		}
		var perr error
		if c.Fmt == "p2" {
			perr = par2.Create(filepath.Join(priorDir, "s.par2"), pin, par2.CreateOptions{SliceByteCount: c.slice(), NumParityShards: pb, NumGoroutines: c.G})
		} else {
			perr = par1.Create(filepath.Join(priorDir, "s.par"), pin, par1.CreateOptions{NumParityFiles: pb})
		}
		if perr != nil {
			return nil, fmt.Errorf("earlier Create failed: %v", perr)
		}
		r.AddTransitions(1)
	}
	var err error
	if c.Via == "cli" {
		bin := os.Getenv("VERIF_PAR_BIN")
		if bin == "" {
			return nil, fmt.Errorf("VERIF_PAR_BIN not set")
		}
		cl := []string{"-g", fmt.Sprint(c.G), "c", "-s", fmt.Sprint(c.slice()), "-c", fmt.Sprint(c.blocks()), parArg}
		cl = append(cl, args...)
		cmd := exec.Command(bin, cl...)
		cmd.Dir = cwd
		var outb bytes.Buffer
		cmd.Stdout = &outb
		cmd.Stderr = &outb
		if e := cmd.Run(); e != nil {
			err = fmt.Errorf("par %v: %v\n%s", cl, e, tailOf(outb.String(), 800))
		}
	} else {
		old, _ := os.Getwd()
		if e := os.Chdir(cwd); e != nil {
			panic(e)
		}
		pi := core.Catch(func() {
			if c.Fmt == "p2" {
				err = par2.Create(parArg, args, par2.CreateOptions{SliceByteCount: c.slice(), NumParityShards: c.blocks(), NumGoroutines: c.G})
			} else {
				err = par1.Create(parArg, args, par1.CreateOptions{NumParityFiles: c.blocks()})
			}
		})
		os.Chdir(old)
		if pi != nil {
			r.Violate("create-panic:"+pi.Frame, pi.Value+"\n"+pi.Stack)
			return nil, fmt.Errorf("panic")
		}
	}
	r.AddTransitions(1)
	if err != nil {
		return nil, err
	}
	return c17ReadOutputs(setDir, "s"), nil
}

func tailOf(s string, n int) string {
	if len(s) > n {
		return s[len(s)-n:]
	}
	return s
}

var c17Base = map[string]map[string][]byte{}

// c17RunDup: an input listed twice. Whatever Create does with it (error, protect it twice, ignore the repeat), the
// outcome must not depend on how the two mentions are spelled.
var c17DupBase = map[string]*c17DupRes{}

type c17DupRes struct {
	err error
	out map[string][]byte
}

func c17RunDup(c *c17Case, r *core.Rec) {
	key := fmt.Sprintf("%s/%d", c.Fmt, c.N)
	base := c17DupBase[key]
	if base == nil {
		b := &c17Case{Fmt: c.Fmt, N: c.N, G: 1, Cwd: "set", Spell: "rel", Via: "cli", Dup: "rel"}
		out, err := c17Create(b, r.Seed, r)
		base = &c17DupRes{err, out}
		c17DupBase[key] = base
	}
	got, err := c17Create(c, r.Seed, r)
	r.AddStates(1)
	r.Outcome(fmt.Sprintf("dup %s %d err=%v files=%d", c.Fmt, c.N, err != nil, len(got)))
	if (err != nil) != (base.err != nil) {
		r.Violatef("duplicate-input-outcome-depends-on-spelling", "%+v: Create returned %v, but with both mentions spelled alike (relative, from the set directory) it returned %v", *c, err, base.err)
		return
	}
	if err == nil {
		if len(got) != len(base.out) {
			r.Violatef("create-file-names-vary", "%+v wrote %d files, the same list spelled alike %d", *c, len(got), len(base.out))
			return
		}
		for n, b := range got {
			if !bytes.Equal(b, base.out[n]) {
				r.Violatef("create-output-varies", "%+v: %s differs from the run with both mentions spelled alike", *c, n)
				return
			}
		}
	}
	r.NontrivialCase()
}

// File ids are compared as 128-bit numbers, most significant byte last. A comparison that looks at part of the id only
// (the top quadword, the low quadword, the first differing byte of one half) is a total order on almost all inputs; it
// shows on ids that agree in exactly the part it looks at. c17TiePair finds two names whose ids agree in k bytes at the
// top (k > 0) or bottom (k < 0) of the id for the fixed content below; k = 8 at the top is a stored pair (a 2^32-step
// search), the others are found by a birthday search of at most a few million MD5s.
func c17TieContent(tail byte) []byte {
	data := make([]byte, 16384+64)
	for i := 0; i < 16384; i++ {
		data[i] = byte(i*7 + i/256)
	}
	for i := 16384; i < len(data); i++ {
		data[i] = tail + byte(i)
	}
	return data
}

var c17TieCache = map[int][2]string{8: {"ea294c8c11ecf2a9.bin", "8d0431380f8a31e6.bin"}}

func c17TiePair(k int) ([2]string, bool) {
	if p, ok := c17TieCache[k]; ok {
		return p, true
	}
	content := c17TieContent(1)
	h16 := md5.Sum(content[:16384])
	n := k
	if n < 0 {
		n = -n
	}
	if n > 5 {
		return [2]string{}, false
	}
	seen := map[string]string{}
	for i := 0; i < 1<<23; i++ {
		name := fmt.Sprintf("t%x.bin", i)
		id := rpar2.FileID(h16, uint64(len(content)), name)
		key := string(id[16-n:])
		if k < 0 {
			key = string(id[:n])
		}
		if other, ok := seen[key]; ok {
			oid := rpar2.FileID(h16, uint64(len(content)), other)
			if oid != id {
				c17TieCache[k] = [2]string{other, name}
				return c17TieCache[k], true
			}
		}
		seen[key] = name
	}
	return [2]string{}, false
}

func c17RunTie(c *c17Case, r *core.Rec) {
	pair, ok := c17TiePair(c.Tie)
	if !ok {
		r.Note(fmt.Sprintf("no id tie of %d bytes found", c.Tie))
		return
	}
	c1, c2 := c17TieContent(1), c17TieContent(2)
	h16 := md5.Sum(c1[:16384])
	id1, id2 := rpar2.FileID(h16, uint64(len(c1)), pair[0]), rpar2.FileID(h16, uint64(len(c2)), pair[1])
	n := c.Tie
	if n < 0 {
		n = -n
	}
	if (c.Tie > 0 && !bytes.Equal(id1[16-n:], id2[16-n:])) || (c.Tie < 0 && !bytes.Equal(id1[:n], id2[:n])) || id1 == id2 {
		r.Violatef("harness:tie-pair-does-not-tie", "%v: %x %x", pair, id1, id2)
		return
	}
	files := map[string][]byte{"/d/" + pair[0]: c1, "/d/" + pair[1]: c2, "/d/other.dat": bytes.Repeat([]byte("some other file "), 500)}
	names := []string{"/d/" + pair[0], "/d/" + pair[1], "/d/other.dat"}
	var first map[string][]byte
	for pi, pm := range permutations(3) {
		fs := envfs.New()
		for p, b := range files {
			fs.Put(p, b)
		}
		in := []string{names[pm[0]], names[pm[1]], names[pm[2]]}
		var err error
		if pn := core.Catch(func() {
			err = par2.VerifCreate(fs, "/d/s.par2", in, par2.CreateOptions{SliceByteCount: 1024, NumParityShards: 3, NumGoroutines: c.G})
		}); pn != nil {
			r.Violate("create-panic:"+pn.Frame, pn.Value+"\n"+pn.Stack)
			return
		}
		r.AddTransitions(1)
		if err != nil {
			r.Violatef("create-failed-under-variation:"+errClass(err), "inputs %v (file ids agree in %d bytes): %v", in, c.Tie, err)
			return
		}
		out := map[string][]byte{}
		for _, w := range fs.Writes() {
			out[w.Path] = w.Data
		}
		if pi == 0 {
			first = out
			continue
		}
		if d := envfs.Diff(first, out); len(d) > 0 {
			r.Violatef("create-output-varies", "two inputs whose file ids agree in %d bytes (%x, %x): listing order %v gives other bytes in %v than listing order 0,1,2", c.Tie, id1, id2, pm, d)
			return
		}
	}
	r.AddStates(6)
	r.Outcome(fmt.Sprintf("tie %d", c.Tie))
	r.NontrivialCase()
}

// c17RunGlitch: the files of a Create that reports success are the baseline's bytes whatever the environment did on the
// way (a write that fails once, without effect or after half of the bytes), and a Create repeated over the leftovers of
// an interrupted one ends with exactly the baseline's files.
func c17RunGlitch(c *c17Case, r *core.Rec) {
	mk := func() (*envfs.FS, []string) {
		fs := envfs.New()
		var in []string
		for i, n := range []int{700, 64, 1300} {
			p := fmt.Sprintf("/d/g%d.dat", i)
			fs.Put(p, scen.Content("uniq", r.Seed, i, n, 64))
			in = append(in, p)
		}
		return fs, in
	}
	create := func(fs *envfs.FS, in []string) (err error, pn *core.PanicInfo) {
		pn = core.Catch(func() {
			if c.Fmt == "p1" {
				err = par1.VerifCreate(fs, "/d/s.par", in, par1.CreateOptions{NumParityFiles: 5})
			} else {
				err = par2.VerifCreate(fs, "/d/s.par2", in, par2.CreateOptions{SliceByteCount: 64, NumParityShards: 11, NumGoroutines: c.G})
			}
		})
		return
	}
	base, in := mk()
	if err, pn := create(base, in); err != nil || pn != nil {
		r.Violatef("baseline-create-failed", "%v %v", err, pn)
		return
	}
	want := base.Snapshot()
	nw := len(base.Writes())
	if c.Glitch > nw {
		r.Note(fmt.Sprintf("Create makes only %d writes", nw))
		return
	}
	for _, partial := range []int{-1, 0, 1, 1 << 30} {
		fs, in := mk()
		seenW := 0
		fs.Hook = func(index int, kind, path string, data []byte) *envfs.Fault {
			if kind != "write" {
				return nil
			}
			seenW++
			if seenW != c.Glitch {
				return nil
			}
			pt := partial
			if pt == 1 {
				pt = len(data) / 2
			}
			return &envfs.Fault{Err: envfs.ErrInjected, Partial: pt, Kind: "glitch"}
		}
		err, pn := create(fs, in)
		r.AddTransitions(1)
		if pn != nil {
			r.Violate("create-panic:"+pn.Frame, pn.Value)
			return
		}
		what := fmt.Sprintf("%s, write %d of %d fails once (%d bytes reach the file)", c.Fmt, c.Glitch, nw, partial)
		if err == nil {
			if d := envfs.Diff(want, fs.Snapshot()); len(d) > 0 {
				r.Violatef("create-output-varies-with-transient-fault", "%s: Create reported success, but %v differ from the files of an undisturbed run", what, d)
				return
			}
			r.Outcome("glitch absorbed")
		} else {
			r.Outcome("glitch reported")
		}
		fs.Hook = nil
		err, pn = create(fs, in)
		r.AddTransitions(1)
		if err != nil || pn != nil {
			r.Violatef("create-failed-after-interrupted-create:"+errClass(err), "%s; Create again: %v %v", what, err, pn)
			return
		}
		if d := envfs.Diff(want, fs.Snapshot()); len(d) > 0 {
			r.Violatef("create-output-varies-after-interrupted-create", "%s; after Create again %v differ from the files of an undisturbed run", what, d)
			return
		}
	}
	r.AddStates(4)
	r.NontrivialCase()
}

func c17Run(ci interface{}, r *core.Rec) {
	c := ci.(*c17Case)
	if c.Glitch > 0 {
		c17RunGlitch(c, r)
		return
	}
	if c.Tie != 0 {
		c17RunTie(c, r)
		return
	}
	if c.Dup != "" {
		c17RunDup(c, r)
		return
	}
	key := fmt.Sprintf("%s/%d/%v/%v/%d/%d", c.Fmt, c.N, c.Big, c.Look, c.blocks(), c.Names)
	base, ok := c17Base[key]
	if !ok {
		// the baseline comes from the built command, i.e. from a fresh process: a baseline made by a library call in this
		// worker process would share whatever the process has accumulated with the runs it is compared to
		b := &c17Case{Fmt: c.Fmt, N: c.N, Perm: 0, G: 1, Cwd: "set", Spell: "rel", Via: "cli", Big: c.Big, Look: c.Look, Blocks: c.Blocks, Names: c.Names}
		var err error
		base, err = c17Create(b, r.Seed, r)
		if err != nil {
			r.Violatef("baseline-create-failed:"+errClass(err), "%v", err)
			return
		}
		c17Base[key] = base
	}
	var stale map[string][]byte
	if c.Stale > 0 && c.Stale <= 3 {
		stale = map[string][]byte{}
		for n, b := range base {
			switch c.Stale {
			case 1:
				stale[n] = append(append([]byte{}, b...), scen.Garbage(r.Seed, len(n), 40+len(b)/2)...)
			case 2:
				stale[n] = b[:len(b)/2]
			case 3:
				stale[n] = bytes.Repeat([]byte("earlier output "), 1+len(b)/8)
			}
		}
	}
	got, err := c17CreateIn(c, r.Seed, r, stale)
	r.AddStates(1)
	if err != nil {
		r.Violatef("create-failed-under-variation:"+errClass(err), "%+v: %v", *c, err)
		return
	}
	var names, bnames []string
	for n := range got {
		names = append(names, n)
	}
	for n := range base {
		bnames = append(bnames, n)
	}
	sort.Strings(names)
	sort.Strings(bnames)
	if strings.Join(names, ",") != strings.Join(bnames, ",") {
		r.Violatef("create-file-names-vary", "%+v wrote %v, baseline %v", *c, names, bnames)
		return
	}
	for _, n := range names {
		if !bytes.Equal(got[n], base[n]) {
			r.Violatef("create-output-varies", "%+v: %s differs from the baseline run (cwd=set dir, relative paths, listed order, g=1)", *c, n)
			return
		}
	}
	r.Outcome(fmt.Sprintf("%s %d files=%d", c.Fmt, c.N, len(names)))
	if c.Perm != 0 || c.G != 1 || c.Cwd != "set" || c.Spell != "rel" || c.Via != "lib" || c.Stale != 0 {
		r.NontrivialCase()
	}
}

func c17Gen(g *core.Gen) {
	for _, k := range []int{1, 2, 3, 4, 5, 8, -1, -2, -3, -4, -5} {
		for _, gg := range []int{1, 3} {
			g.Emit(&c17Case{Fmt: "p2", Tie: k, G: gg})
		}
	}
	// a write that fails once: PAR2 index + 4 recovery files (11 blocks), PAR1 index + 5 volumes
	for k := 1; k <= 6; k++ {
		g.Emit(&c17Case{Fmt: "p1", Glitch: k, G: 1})
		if k <= 5 {
			g.Emit(&c17Case{Fmt: "p2", Glitch: k, G: 1 + k%2})
		}
	}
	cwds := []string{"set", "parent", "unrelated"}
	spells := []string{"rel", "abs", "dotslash", "dblslash", "updown"}
	for _, f := range []string{"p2", "p1"} {
		for n := 1; n <= 4; n++ {
			np := 1
			if f == "p2" {
				np = len(permutations(n))
			}
			for pm := 0; pm < np; pm++ {
				for gg := 1; gg <= 8; gg++ {
					if f == "p1" && gg > 1 {
						continue
					}
					for _, cw := range cwds {
						for _, sp := range spells {
							g.Emit(&c17Case{Fmt: f, N: n, Perm: pm, G: gg, Cwd: cw, Spell: sp, Via: "lib"})
							if gg == 1 || gg == 3 {
								if g.Thorough() || n <= 3 || pm%4 == 0 {
									g.Emit(&c17Case{Fmt: f, N: n, Perm: pm, G: gg, Cwd: cw, Spell: sp, Via: "cli"})
								}
							}
						}
					}
				}
			}
			// slice size 96 with files of several slices: every goroutine count 1..16 really partitions the shards
			if f == "p2" {
				for pm := 0; pm < np; pm++ {
					for gg := 1; gg <= 16; gg++ {
						for ci, cw := range cwds {
							sp := spells[(pm+gg+ci)%len(spells)]
							g.Emit(&c17Case{Fmt: f, N: n, Perm: pm, G: gg, Cwd: cw, Spell: sp, Via: "lib", Big: true})
							if gg == 2 || gg == 3 || gg == 5 {
								if g.Thorough() || pm%3 == 0 {
									g.Emit(&c17Case{Fmt: f, N: n, Perm: pm, G: gg, Cwd: cw, Spell: sp, Via: "cli", Big: true})
								}
							}
						}
					}
				}
			}
			// Create into a directory that already holds (longer / shorter / foreign) files under the output names
			for st := 1; st <= 5; st++ {
				for _, via := range []string{"lib", "cli"} {
					for _, big := range []bool{false, true} {
						if big && f == "p1" {
							continue
						}
						g.Emit(&c17Case{Fmt: f, N: n, G: 2, Cwd: cwds[st%3], Spell: spells[(st+n)%5], Via: via, Stale: st, Big: big})
					}
				}
			}
			// directory names that are prefixes of sibling file names: every permutation (each file directly after each other)
			if n >= 2 {
				for pm := 0; pm < np; pm++ {
					g.Emit(&c17Case{Fmt: f, N: n, Perm: pm, G: 1 + pm%2, Cwd: cwds[pm%3], Spell: spells[pm%5], Via: "lib", Names: 1})
				}
			}
			// other block counts (several recovery files, a clamped last one), alone and right after an unrelated Create
			// with yet another block count in the same process
			for _, b := range []int{5, 6, 7, 9, 12} {
				for _, pb := range []int{0, 5, 6, 9, 20} {
					g.Emit(&c17Case{Fmt: f, N: n, G: 1 + (b+pb)%3, Cwd: cwds[(b+pb)%3], Spell: "rel", Via: "lib", Blocks: b, PriorBlocks: pb})
				}
			}
			// the first input is a symbolic link to its bytes
			for li := 1; li <= 2; li++ {
				for ci, cw := range cwds {
					for _, sp := range spells {
						via := "lib"
						if (ci+len(sp)+li)%3 == 0 {
							via = "cli"
						}
						g.Emit(&c17Case{Fmt: f, N: n, G: 1 + ci, Cwd: cw, Spell: sp, Via: via, Link: li})
					}
				}
			}
			// look-alike inputs (same length, same first 16 KiB): every permutation x goroutines {1,3}
			if n >= 2 {
				for pm := 0; pm < np; pm++ {
					for _, gg := range []int{1, 3} {
						g.Emit(&c17Case{Fmt: f, N: n, Perm: pm, G: gg, Cwd: cwds[pm%3], Spell: spells[pm%5], Via: "lib", Look: true})
						g.Emit(&c17Case{Fmt: f, N: n, Perm: pm, G: gg, Cwd: cwds[pm%3], Spell: spells[pm%5], Via: "lib", Look: true, PriorGen: true})
					}
				}
			}
			// an input listed twice: every choice of the repeated input x every position of the second mention
			for k := 0; k < n; k++ {
				for at := 0; at <= n; at++ {
					g.Emit(&c17Case{Fmt: f, N: n, G: 1, Cwd: "set", Spell: "rel", Via: "lib", Dup: "rel", DupK: k, DupAt: at})
				}
			}
			// an input listed twice, the two mentions spelled alike or differently
			for ci, cw := range cwds {
				for _, sp := range spells {
					for _, dp := range spells {
						via := "lib"
						if (ci+len(sp)+len(dp))%4 == 0 {
							via = "cli"
						}
						g.Emit(&c17Case{Fmt: f, N: n, G: 1, Cwd: cw, Spell: sp, Via: via, Dup: dp})
					}
				}
			}
			for rep := 1; rep <= 3; rep++ {
				g.Emit(&c17Case{Fmt: f, N: n, G: 1, Cwd: "set", Spell: "rel", Via: "lib", Rep: rep})
				g.Emit(&c17Case{Fmt: f, N: n, G: 1, Cwd: "set", Spell: "rel", Via: "cli", Rep: rep})
			}
		}
	}
}

func init() {
	core.Register(&core.Prop{
		ID:    "C17",
		Level: "model_checking",
		Rule: "(later rounds added: a Create whose k-th write fails once - without effect, empty, half, whole file written - for every k: success only with the undisturbed bytes, and a Create repeated over the leftovers gives the undisturbed bytes; inputs whose file ids agree in 1..5 / 8 bytes in all listing orders; an earlier Create in the same process - other inputs with another block count, or another generation of the same inputs; decoys named like the inputs and set files in the other working directories; a non-ASCII directory above the set; the first input a symbolic link) full product on real directories: {PAR2, PAR1} x 1-4 files (PAR2 names in sub-directories) x EVERY permutation of the input list (PAR2) x goroutines 1..8 x working directory {set directory, its parent, an unrelated directory} x path spelling {relative, absolute, ./x, d//x, d/../d/x} for the index path and every input, through the library (the worker chdir()s, one scenario at a time) and through the built par command (g in {1,3}); the same for a set with slice size 96 and multi-slice files x goroutines 1..16 (so that the goroutine option really partitions the shards); repeated runs; names in which a directory name is a string prefix of a sibling file name x every permutation; block counts {5,6,7,9,12} alone and right after an unrelated Create with {5,6,9,20} blocks in the same process; look-alike inputs (equal length, identical first 16 KiB, different tails) x every permutation x g {1,3}; an input listed twice - every choice of the repeated input x every position of its second mention, and for every pair of spellings of its two mentions x working directory (whatever Create does with a repeated input, the outcome - error or bytes - must equal that of the list with both mentions spelled alike). " +
			"Oracle: the set of files written and every byte equal the baseline run (the built command in a fresh process: set directory, relative paths, listed order, g=1). non-trivial = any variation differs from the baseline configuration",
		Assumptions: []string{"file contents, names relative to the index, slice size and block count are held fixed; everything else varies"},
		NewCase:     func() interface{} { return &c17Case{} },
		Gen:         c17Gen,
		Run:         c17Run,
	})
}
