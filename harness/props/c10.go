package props

import (
	"bytes"
	"fmt"
	"path"
	"runtime/debug"
	"sort"

	"github.com/akalin/gopar/par1"

	"verifh/core"
	"verifh/envfs"
	"verifh/ref/gf8"
	"verifh/ref/rpar1"
	"verifh/scen"
)

// C10: PAR1 files conform to the PAR 1.0 layout in both directions.

type c10Case struct {
	Dir string `json:"dir"` // "write": gopar writes, reference reads; "read": reference writes, gopar reads
	// write direction
	Sizes   []int    `json:"sizes,omitempty"`
	Names   []string `json:"names,omitempty"`
	Volumes int      `json:"volumes,omitempty"`
	Twin    int      `json:"twin,omitempty"` // history in the process: first a Create that differs from this one in ONE respect: 1 other names (same contents), 2 other contents (same names and lengths), 3 another volume count, 4 one more file, 5 the same inputs listed in reverse
	// read direction
	Status  []int         `json:"status,omitempty"`  // per entry status bits (bit0 saved, bit1 checked)
	Comment int           `json:"comment,omitempty"` // 0 none, 1 ASCII, 2 binary, 3 1 KiB
	NameSet int           `json:"nameset,omitempty"`
	Missing []int         `json:"missing,omitempty"` // entry indices (saved) whose file is missing; negative: corrupted
	VolGone []int         `json:"volgone,omitempty"` // volumes (1-based) absent
	BadVol  int           `json:"badvol,omitempty"`  // volume (1-based) whose parity data is wrong but whose hashes are valid (0 none)
	Filler  int           `json:"filler,omitempty"`  // this many additional NON-saved entries (files not in the parity set) are listed after the others
	DC      bool          `json:"dc,omitempty"`
	Dec     *decProtoCase `json:"dec,omitempty"` // Dir "decproto": operation sequences on one exported Decoder object over a reference-written set
	Enc     *encProtoCase `json:"enc,omitempty"` // Dir "encproto": operation sequences on one exported Encoder object
}

var c10NameSets = [][]string{
	{"a.bin", "b.bin", "c.bin", "d.bin", "e.bin"},
	{"plain.txt", "café.bin", "文件.dat", "\U0001F600x\U00010348.bin", "ünï.cödé"},
	{"with space", "UPPER.TXT", "x", "\U0001F4BEdisk", "tab\there"},
	{"a", "b", "c", "d", "e"}, // every name exactly one UTF-16 code unit: the smallest possible entries
	{"世", "界", "x", "y", "z"},
	// code points on the limits of the encodings involved: 7-bit / 8-bit / 11-bit / 16-bit boundaries, the edges of the
	// surrogate range, the first and last supplementary code point
	{"a\u007fb", "a\u0080b", "a\u0081b", "\u0080", "\u07ffx"},
	{"\u0800", "\ud7ff", "\ue000", "\uffff", "\U00010000"},
	{"\U0010ffff.x", "\u00ff", "\u0100", "x\u007f", "\u0080\u0080"},
	// legitimate single-component names that look like something else to a careless check: dots in a row, a leading dot,
	// a trailing dot, a drive-letter look-alike, a tilde, a leading dash
	{"notes..txt", "..profile", "v1..2.bin", "...", "a.."},
	{".hidden", "trailing.", "C:name", "~", "-rf"},
	// names that differ only by a blank at either end: trimming turns one into the other
	{"report ", "report", " report", "report  ", "rep ort"},
}

func c10WriteDir(c *c10Case, r *core.Rec) {
	fs := envfs.New()
	var paths []string
	var datas [][]byte
	for i, n := range c.Sizes {
		p := path.Join("/d", c.Names[i])
		d := scen.Content("uniq", r.Seed, i, n, 4)
		fs.Put(p, d)
		paths = append(paths, p)
		datas = append(datas, d)
	}
	if c.Twin != 0 {
		// the near twin runs first, in the same process, on a filesystem of its own, with garbage collection off until
		// the judged Create is done: whatever is remembered under a key that forgets the one differing aspect comes back
		oldGC := debug.SetGCPercent(-1)
		defer debug.SetGCPercent(oldGC)
		tfs := envfs.New()
		var tpaths []string
		for i, n := range c.Sizes {
			name, seedOff := c.Names[i], 0
			if c.Twin == 1 {
				name = "twin-" + name
			}
			if c.Twin == 2 {
				seedOff = 500
			}
			tp := path.Join("/d", name)
			tfs.Put(tp, scen.Content("uniq", r.Seed, i+seedOff, n, 4))
			tpaths = append(tpaths, tp)
		}
		tv := c.Volumes
		switch c.Twin {
		case 3:
			tv = c.Volumes + 1
		case 4:
			tfs.Put("/d/one-more", scen.Content("uniq", r.Seed, 77, 9, 4))
			tpaths = append(tpaths, "/d/one-more")
		case 5:
			for i, j := 0, len(tpaths)-1; i < j; i, j = i+1, j-1 {
				tpaths[i], tpaths[j] = tpaths[j], tpaths[i]
			}
		}
		var terr error
		if pi := core.Catch(func() { terr = par1.VerifCreate(tfs, "/d/s.par", tpaths, par1.CreateOptions{NumParityFiles: tv}) }); pi != nil || terr != nil {
			r.Violatef("create-failed:twin", "the near-twin Create failed: %v %v", pi, terr)
			return
		}
		r.AddTransitions(1)
	}
	var err error
	if pi := core.Catch(func() { err = par1.VerifCreate(fs, "/d/s.par", paths, par1.CreateOptions{NumParityFiles: c.Volumes}) }); pi != nil {
		r.Violate("create-panic:"+pi.Frame, pi.Value+"\n"+pi.Stack)
		return
	}
	r.AddStates(1)
	r.AddTransitions(1)
	if err != nil {
		r.Violatef("create-failed:"+errClass(err), "%v", err)
		return
	}
	files := map[string][]byte{}
	for _, op := range fs.Writes() {
		files[op.Path] = op.Data
	}
	c10Validate(files, "/d/s", c.Names, datas, c.Volumes, r)
	r.Outcome(fmt.Sprintf("write %v %d", c.Sizes, c.Volumes))
	r.NontrivialCase()
}

// c10Validate judges the files of one written PAR1 set (path -> bytes; base = index path without ".par") with the
// reference reader against the file contents the set is supposed to protect.
func c10Validate(files map[string][]byte, base string, names []string, datas [][]byte, volumes int, r *core.Rec) {
	want := map[string]int{base + ".par": 0}
	for v := 1; v <= volumes; v++ {
		want[fmt.Sprintf("%s.p%02d", base, v)] = v
	}
	got := map[string]bool{}
	var order []string
	for p := range files {
		order = append(order, p)
	}
	sort.Strings(order)
	for _, opPath := range order {
		opData := files[opPath]
		got[opPath] = true
		num, ok := want[opPath]
		if !ok {
			r.Violatef("unexpected-output-name", "Create wrote %q", opPath)
			continue
		}
		vol, perr := rpar1.Parse(opData)
		if perr != nil {
			r.Violatef("output-not-conformant", "%s: %v", opPath, perr)
			continue
		}
		if vol.Number != uint64(num) {
			r.Violatef("volume-number-wrong", "%s: volume number %d", opPath, vol.Number)
		}
		if len(vol.Entries) != len(names) {
			r.Violatef("entry-count-wrong", "%s: %d entries for %d files", opPath, len(vol.Entries), len(names))
			continue
		}
		for i, e := range vol.Entries {
			we := rpar1.MakeEntry(names[i], datas[i], true)
			if !e.Saved() {
				r.Violatef("entry-not-marked-saved", "%s: entry %d status %#x", opPath, i, e.Status)
			}
			if e.Size != we.Size || e.MD5 != we.MD5 || e.MD516k != we.MD516k {
				r.Violatef("entry-hash-or-size-wrong", "%s: entry %d (%q): size/MD5/MD5-16k differ from the reference", opPath, i, names[i])
			}
			if !bytes.Equal(e.RawName, we.RawName) {
				r.Violatef("entry-name-encoding-wrong", "%s: entry %d name bytes % x, want UTF-16LE % x", opPath, i, e.RawName, we.RawName)
			}
		}
		if num == 0 {
			if len(vol.Data) != 0 {
				r.Count("index_has_comment", 1)
			}
		} else {
			wantPar := rpar1.Parity(datas, num)
			if !bytes.Equal(vol.Data, wantPar) {
				r.Violatef("parity-data-wrong", "%s: parity data differs from sum_i i^(%d-1) * file_i over GF(2^8)/0x11D, files zero-padded to the longest", opPath, num)
			}
		}
	}
	for p := range want {
		if !got[p] {
			r.Violatef("expected-output-missing", "Create did not write %q", p)
		}
	}
}

func c10ReadDir(c *c10Case, r *core.Rec) {
	names := c10NameSets[c.NameSet%len(c10NameSets)]
	sizes := []int{7, 3, 5, 9, 4}
	n := len(c.Status)
	fs := envfs.New()
	var entries []rpar1.Entry
	var savedIdx []int
	var savedData [][]byte
	var datas [][]byte
	for i := 0; i < n; i++ {
		d := scen.Content("uniq", r.Seed, i, sizes[i], 4)
		datas = append(datas, d)
		e := rpar1.MakeEntry(names[i], d, c.Status[i]&1 != 0)
		e.Status = uint64(c.Status[i])
		entries = append(entries, e)
		fs.Put(path.Join("/d", names[i]), d)
		if e.Saved() {
			savedIdx = append(savedIdx, i)
			savedData = append(savedData, d)
		}
	}
	for k := 0; k < c.Filler; k++ {
		nm := fmt.Sprintf("extra-%03d.txt", k)
		d := []byte(nm)
		e := rpar1.MakeEntry(nm, d, false)
		entries = append(entries, e)
		if k%2 == 0 {
			fs.Put(path.Join("/d", nm), d)
		}
	}
	var comment []byte
	switch c.Comment {
	case 1:
		comment = []byte("h\x00i\x00")
	case 2:
		comment = []byte{0, 1, 2, 0xff, 0xfe, 0x80}
	case 3:
		comment = bytes.Repeat([]byte("c\x00"), 512)
	}
	const nvol = 3
	fs.Put("/d/s.par", rpar1.Write(0, entries, comment))
	volOrig := map[string][]byte{}
	for v := 1; v <= nvol; v++ {
		par := rpar1.Parity(savedData, v)
		if c.BadVol == v {
			par = append([]byte{}, par...)
			par[0] ^= 0x40
			par[len(par)-1] ^= 0x02
		}
		b := rpar1.Write(uint64(v), entries, par)
		p := fmt.Sprintf("/d/s.p%02d", v)
		fs.Put(p, b)
		volOrig[p] = b
	}
	pristine := fs.Snapshot()
	damaged := map[int]bool{}
	for _, m := range c.Missing {
		if m >= 0 {
			fs.Del(path.Join("/d", names[m]))
			damaged[m] = true
		} else {
			i := -m - 1
			nb := append([]byte{}, datas[i]...)
			nb[len(nb)-1] ^= 0x80
			fs.Put(path.Join("/d", names[i]), nb)
			damaged[i] = true
		}
	}
	gone := map[int]bool{}
	for _, v := range c.VolGone {
		fs.Del(fmt.Sprintf("/d/s.p%02d", v))
		gone[v] = true
	}
	// reference expectation
	unusable := len(damaged)
	usable := len(savedIdx) - unusable
	var presentVols []int
	for v := 1; v <= nvol; v++ {
		if !gone[v] {
			presentVols = append(presentVols, v)
		}
	}
	singular := false
	var missingNo []int // 1-based numbers among saved files
	for k, i := range savedIdx {
		if damaged[i] {
			missingNo = append(missingNo, k+1)
		}
	}
	if unusable > 0 && unusable <= len(presentVols) {
		m := make([][]byte, unusable)
		for a := 0; a < unusable; a++ {
			m[a] = make([]byte, unusable)
			for b, no := range missingNo {
				m[a][b] = gf8.Pow(byte(no), presentVols[a]-1)
			}
		}
		singular = gf8.Rank(m) < unusable
	}
	badUsed := false // the wrong-parity volume is among those a repair must use
	if c.BadVol != 0 && !gone[c.BadVol] {
		badUsed = true
	}

	var res par1.VerifyResult
	var verr error
	vfs := fs.Clone()
	if pi := core.Catch(func() { res, verr = par1.VerifVerify(vfs, "/d/s.par", par1.VerifyOptions{VerifyAllData: true}) }); pi != nil {
		r.Violate("verify-panic:"+pi.Frame, pi.Value+"\n"+pi.Stack)
		return
	}
	r.AddStates(1)
	r.AddTransitions(2)
	if verr != nil {
		r.Violatef("verify-rejected-conformant-set:"+errClass(verr), "Verify on a reference-written set returned %v", verr)
	} else {
		fc := res.FileCounts
		if fc.UsableDataFileCount != usable || fc.UnusableDataFileCount != unusable {
			r.Violatef("verify-data-counts-wrong", "usable/unusable %d/%d, reference %d/%d (saved entries %v, damaged %v)", fc.UsableDataFileCount, fc.UnusableDataFileCount, usable, unusable, savedIdx, c.Missing)
		}
		if fc.UsableParityFileCount != len(presentVols) {
			r.Violatef("verify-parity-count-wrong", "usable parity %d, present volumes %v", fc.UsableParityFileCount, presentVols)
		}
		if unusable == 0 && len(gone) == 0 {
			if c.BadVol == 0 && !res.AllDataOk {
				r.Violate("untouched-set-not-all-ok", "reference-written untouched set: full parity check failed")
			}
			if c.BadVol != 0 && res.AllDataOk {
				r.Violatef("full-parity-check-missed-bad-volume", "volume %d carries wrong parity data (valid hashes) but AllDataOk was reported", c.BadVol)
			}
		}
	}
	before := fs.Snapshot()
	fs.ResetLog()
	var rres par1.RepairResult
	var rerr error
	if pi := core.Catch(func() { rres, rerr = par1.VerifRepair(fs, "/d/s.par", par1.RepairOptions{DoubleCheck: c.DC}) }); pi != nil {
		r.Violate("repair-panic:"+pi.Frame, pi.Value+"\n"+pi.Stack)
		return
	}
	log := append([]envfs.Op{}, fs.Log...)
	after := fs.Snapshot()
	restored := true
	for _, i := range savedIdx {
		if !bytes.Equal(after[path.Join("/d", names[i])], datas[i]) {
			restored = false
		}
	}
	orig := map[string][]byte{}
	for _, i := range savedIdx {
		orig[path.Join("/d", names[i])] = datas[i]
	}
	for _, b := range scen.CheckWritesGeneric(orig, log, rres.RepairedPaths, before, after) {
		r.Violate(b[0], b[1])
	}
	if rerr == nil && !restored {
		r.Violate("repair-nil-but-files-differ", "Repair returned nil but saved files are not all restored")
	}
	if unusable <= len(presentVols) && !singular && !badUsed {
		if rerr != nil {
			r.Violatef("repair-failed-on-conformant-set:"+errClass(rerr), "unusable %d <= volumes %v, non-singular: %v", unusable, presentVols, rerr)
		}
	}
	_ = pristine
	r.Outcome(fmt.Sprintf("read v:%s/%+v r:%s/%d", errClass(verr), res, errClass(rerr), len(rres.RepairedPaths)))
	if unusable > 0 && rerr == nil {
		r.NontrivialCase()
	}
	if len(savedIdx) < n {
		r.Count("sets_with_non_saved_entries", 1)
	}
}

func c10Gen(g *core.Gen) {
	// the staged exported API behind Create: every operation sequence on one Encoder object while the inputs change
	depth, diskDepth := 8, 5
	if g.Thorough() {
		depth, diskDepth = 9, 7
	}
	// reader direction through the staged Decoder object: every operation sequence over a reference-written set
	decDepth := 5
	if g.Thorough() {
		decDepth = 7
	}
	decProtoGen("p1", decDepth, false, func(d *decProtoCase) { d.Ref = true; g.Emit(&c10Case{Dir: "decproto", Dec: d}) })
	encProtoGen(g, "p1", depth, false, func(e *encProtoCase) { g.Emit(&c10Case{Dir: "encproto", Enc: e}) })
	encProtoGen(g, "p1", diskDepth, true, func(e *encProtoCase) { g.Emit(&c10Case{Dir: "encproto", Enc: e}) })
	// writer direction: C04's sets
	for nf := 1; nf <= 4; nf++ {
		var rec func(cur []int)
		rec = func(cur []int) {
			if len(cur) == nf {
				nz := false
				for _, z := range cur {
					if z > 0 {
						nz = true
					}
				}
				if !nz {
					return
				}
				for _, v := range []int{1, 2, 3, 10} {
					g.Emit(&c10Case{Dir: "write", Sizes: append([]int{}, cur...), Names: c10NameSets[(nf+v+cur[0])%len(c10NameSets)][:nf], Volumes: v})
				}
				return
			}
			for _, z := range []int{0, 1, 2, 5, 9} {
				rec(append(cur, z))
			}
		}
		rec(nil)
	}
	for _, z := range []int{16383, 16384, 16385, 20000} {
		g.Emit(&c10Case{Dir: "write", Sizes: []int{z, 100, 1}, Names: c10NameSets[1][:3], Volumes: 3})
	}
	for ns := range c10NameSets {
		g.Emit(&c10Case{Dir: "write", Sizes: []int{7, 3, 12, 1, 9}, Names: c10NameSets[ns], Volumes: 2})
	}
	for _, v := range []int{98, 99} {
		g.Emit(&c10Case{Dir: "write", Sizes: []int{5, 8, 2}, Names: c10NameSets[0][:3], Volumes: v})
	}
	// near-twin histories: the judged Create right after one that differs from it in exactly one respect
	for v := 1; v <= 3; v++ {
		for tw := 1; tw <= 5; tw++ {
			g.Emit(&c10Case{Dir: "write", Sizes: []int{5, 8, 2}, Names: c10NameSets[0][:3], Volumes: v, Twin: tw})
			g.Emit(&c10Case{Dir: "write", Sizes: []int{17000, 16384, 3}, Names: c10NameSets[2][:3], Volumes: v, Twin: tw})
		}
	}
	// reader direction: many listed files of which only a few are in the parity set (file counts around 99, 255, 256, 300)
	for _, filler := range []int{90, 96, 97, 98, 150, 250, 251, 252, 253, 254, 255, 300} {
		for _, st := range [][]int{{1, 1, 1}, {1, 0, 3, 1}, {1}} {
			for _, miss := range [][]int{nil, {0}} {
				g.Emit(&c10Case{Dir: "read", Status: st, Comment: filler % 4, NameSet: filler % len(c10NameSets), Missing: miss, Filler: filler, DC: filler%2 == 0})
				g.Emit(&c10Case{Dir: "read", Status: st, Comment: 0, NameSet: 0, Missing: miss, VolGone: []int{1}, Filler: filler})
			}
		}
	}
	// reader direction
	maxEntries := 4
	if g.Thorough() {
		maxEntries = 5
	}
	for n := 1; n <= maxEntries; n++ {
		tot := 1
		for i := 0; i < n; i++ {
			tot *= 4
		}
		for code := 0; code < tot; code++ {
			st := make([]int, n)
			v := code
			var saved []int
			for i := 0; i < n; i++ {
				st[i] = v % 4
				v /= 4
				if st[i]&1 != 0 {
					saved = append(saved, i)
				}
			}
			if len(saved) == 0 {
				continue
			}
			if false {
				continue
			}
			// every subset of damaged saved files (deleted; one variant corrupted), every subset of missing volumes
			for mask := 0; mask < 1<<uint(len(saved)); mask++ {
				var miss []int
				for k, i := range saved {
					if mask&(1<<uint(k)) != 0 {
						if (code+k)%3 == 0 {
							miss = append(miss, -(i + 1))
						} else {
							miss = append(miss, i)
						}
					}
				}
				for vm := 0; vm < 8; vm++ {
					var vg []int
					for k := 0; k < 3; k++ {
						if vm&(1<<uint(k)) != 0 {
							vg = append(vg, k+1)
						}
					}
					g.Emit(&c10Case{Dir: "read", Status: st, Comment: (code + mask + vm) % 4, NameSet: (code + vm) % len(c10NameSets), Missing: miss, VolGone: vg, DC: (mask+vm)%2 == 1})
					if mask == 0 && vm == 0 {
						// the untouched set with every name set and every comment kind
						for ns := 0; ns < len(c10NameSets); ns++ {
							for cm := 0; cm < 4; cm++ {
								g.Emit(&c10Case{Dir: "read", Status: st, Comment: cm, NameSet: ns})
							}
						}
					}
				}
			}
			// a volume with wrong parity but valid hashes
			for bv := 1; bv <= 3; bv++ {
				g.Emit(&c10Case{Dir: "read", Status: st, Comment: code % 4, NameSet: code % 3, BadVol: bv})
				g.Emit(&c10Case{Dir: "read", Status: st, Comment: code % 4, NameSet: code % 3, BadVol: bv, Missing: []int{saved[0]}, DC: bv%2 == 0})
			}
		}
	}
}

func init() {
	core.Register(&core.Prop{
		ID:    "C10",
		Level: "model_checking",
		Rule: "(plus, reader direction, the Decoder protocol search of C14 over a set written by the reference writer - comment, a non-saved entry between the saved ones, a zero-length file: every sequence of <=5 (thorough 7) operations on ONE Decoder object, incl. counts and a further Repair straight after a successful Repair) (plus the staged exported API behind Create: EVERY sequence of <=8 (thorough 9) operations from {LoadFileData, ComputeParityData, Write, replace input a by a shorter / longer / its original content, delete / restore input b} on ONE Encoder object (on the owned in-memory filesystem through a constructor hook; <=5 (thorough 7) operations also through the exported constructor on a real directory); a Write is judged iff the latest load attempt succeeded and a compute followed it - then it must succeed and the files must be a conformant set for the contents loaded last; LoadFileData must fail iff an input is missing; a second search over the error-path alphabet {load, compute, write, write with its 1st / 2nd file write torn half-way, change a} (one operation shorter) requires that an interrupted Write reports the failure and that later Writes on the same object are still right; sequences are not merged by model state, since the point is state hidden in the object) writer direction: full product 1-4 files x sizes {0,1,2,5,9} x volumes {1,2,3,10} with ASCII / Latin-1 / CJK / astral names, plus >16 KiB files and 98/99 volumes; every file gopar writes is parsed by the strict reference reader (header, offsets, control hash, set hash, UTF-16LE entries) and every parity byte recomputed with the reference GF(2^8). " +
			"reader direction: reference-written sets with EVERY status bitmask over 1-4 (thorough 1-5) entries (>=1 saved; bit0 saved, bit1 checked) x comment {none, ASCII, binary, 1 KiB} x 3 name sets incl. surrogate pairs x EVERY subset of damaged saved files x EVERY subset of missing volumes, plus a volume with wrong parity data but valid hashes; plus sets listing 90-300 additional non-saved files (total file counts around 99, 255, 256 and above); real Verify(all data) and Repair. non-trivial = damaged set repaired / every write-direction case",
		Assumptions: []string{"files are numbered from 1 over the saved entries in list order (PAR 1.0 spec)", "non-saved entries are ignored by verification and never written"},
		NewCase:     func() interface{} { return &c10Case{} },
		Gen:         c10Gen,
		Run: func(ci interface{}, r *core.Rec) {
			c := ci.(*c10Case)
			if c.Dir == "decproto" {
				decProtoRun(c.Dec, r, func(d *decProtoCase) interface{} { return &c10Case{Dir: "decproto", Dec: d} })
			} else if c.Dir == "encproto" {
				encProtoRun(c.Enc, r, func(e *encProtoCase) interface{} { return &c10Case{Dir: "encproto", Enc: e} })
			} else if c.Dir == "write" {
				c10WriteDir(c, r)
			} else {
				c10ReadDir(c, r)
			}
		},
	})
}
