package props

import (
	"bytes"
	"fmt"
	"io/ioutil"
	"os"
	"path"
	"path/filepath"
	"sort"
	"strings"
	"unicode/utf16"

	"github.com/akalin/gopar/par1"
	"github.com/akalin/gopar/par2"

	"verifh/core"
	"verifh/envfs"
	"verifh/ref/rpar1"
	"verifh/ref/rpar2"
	"verifh/scen"
)

// C15: archives cannot direct reads or writes outside the archive's
// directory.

type c15Case struct {
	Other string `json:"other,omitempty"` // the second declared name (default good.bin / good2.bin): sets ALL of whose names share a leading component, e.g. the name of the directory the index file lies in
	Fmt      string `json:"fmt"`                // p2, p1, create
	Name     string `json:"name"`               // the hostile declared name (or input path spelling for create)
	Pos      int    `json:"pos"`                // position of the hostile entry in the 2-file set
	Disk     bool   `json:"disk"`               // run on a real directory with a canary tree
	Abs      bool   `json:"abs,omitempty"`      // name is made absolute by prefixing the scratch root
	Intact   bool   `json:"intact,omitempty"`   // declared files lying directly in the archive directory are present with their original bytes
	FailW    bool   `json:"failw,omitempty"`    // in-memory runs: the first file write of Repair fails (whatever Repair then tries instead must stay inside)
	Zero     bool   `json:"zero,omitempty"`     // the hostile entry declares a file of length 0 (nothing to reconstruct, but something to create)
	NonSaved bool   `json:"nonsaved,omitempty"` // PAR1: the hostile entry is listed but not saved in the parity set (status bit 0 clear)
	Uni      bool   `json:"uni,omitempty"`      // PAR2: the hostile name is carried by the optional Unicode-filename packet of the entry (UTF-16LE), its file description carries a harmless ASCII name
	Dmg      bool   `json:"dmg,omitempty"`      // damaged copies of the declared files are present in the archive directory (else they are missing)
}

func c15Names(maxLen int) []string {
	comps := []string{"a", "..", ".", "", "a..", "..a"}
	var out []string
	var rec func(cur []string)
	rec = func(cur []string) {
		if len(cur) > 0 {
			j := strings.Join(cur, "/")
			out = append(out, j, "/"+j, j+"/", "/"+j+"/")
		}
		if len(cur) == maxLen {
			return
		}
		for _, c := range comps {
			rec(append(cur, c))
		}
	}
	rec(nil)
	extra := []string{"..\\a", "a\\..\\..\\b", "..\\..\\x", "a\x00/../../z", "../a\x00b", "....//a", "a/.../b", "~/.x", "C:\\x", "C:/x", "\\\\srv\\share\\x", "-", " ", "../ ", ".. /a", "a/../../../../../../../../tmp/verif-c15-escape"}
	out = append(out, extra...)
	// the same traversal spellings carrying non-ASCII bytes (valid UTF-8, Latin-1 and invalid sequences): names are
	// raw bytes in the archive, and a decoder may treat non-ASCII names on a different path than ASCII ones
	for _, n := range []string{"..", "../a", "a/../../b", "/a", "/../a", "./../a", "a/./../../b", "..//a", "a", "a/b"} {
		for _, hi := range []string{"\u00e9", "\xe9", "\xff\xfe", "\u4e16"} {
			out = append(out, n+hi, hi+"/"+n, strings.Replace(n, "a", "a"+hi, 1), n+"/"+hi)
		}
	}
	// look-alike components: ".." with a control character inside / before / after it (an ordinary name as written;
	// a decoder that drops or maps such characters after validating turns it into a traversal)
	for _, n := range []string{"..", "../a", "a/../../b", "../../a", "a/../..", "./../a"} {
		for _, cc := range []string{"\x01", "\x7f", "\x1f", "\t", "\n", "\r", "\x1b", "\u0085", "\u200b"} {
			out = append(out, strings.Replace(n, "..", "."+cc+".", -1), strings.Replace(n, "..", cc+"..", -1), strings.Replace(n, "..", ".."+cc, -1))
		}
	}
	// dedupe
	seen := map[string]bool{}
	var u []string
	for _, n := range out {
		if n != "" && !seen[n] {
			seen[n] = true
			u = append(u, n)
		}
	}
	return u
}

func c15Gen(g *core.Gen) {
	for _, f := range []string{"twin2", "twin1"} {
		for _, ops := range []string{"VR", "RR", "VV", "RV"} {
			for _, big := range []bool{false, true} {
				g.Emit(&c15Case{Fmt: f, Name: ops, Zero: big, Disk: true})
			}
		}
	}
	maxLen := 4
	if g.Thorough() {
		maxLen = 5
	}
	names := c15Names(maxLen)
	diskNames := c15Names(2)
	diskSet := map[string]bool{}
	for _, n := range diskNames {
		diskSet[n] = true
	}
	for _, f := range []string{"p2", "p1"} {
		for _, n := range names {
			for pos := 0; pos < 2; pos++ {
				g.Emit(&c15Case{Fmt: f, Name: n, Pos: pos, Zero: true})
				if f == "p2" {
					g.Emit(&c15Case{Fmt: f, Name: n, Pos: pos, Uni: true})
					g.Emit(&c15Case{Fmt: f, Name: n, Pos: pos, Uni: true, Dmg: true})
				}
				if len(n) <= 6 {
					g.Emit(&c15Case{Fmt: f, Name: n, Pos: pos, FailW: true})
					g.Emit(&c15Case{Fmt: f, Name: n, Pos: pos, FailW: true, Dmg: true})
				}
				for _, dmg := range []bool{false, true} {
					g.Emit(&c15Case{Fmt: f, Name: n, Pos: pos, Dmg: dmg})
					if f == "p1" {
						g.Emit(&c15Case{Fmt: f, Name: n, Pos: pos, Dmg: dmg, NonSaved: true})
						if !dmg {
							g.Emit(&c15Case{Fmt: f, Name: n, Pos: pos, Intact: true, NonSaved: true})
							g.Emit(&c15Case{Fmt: f, Name: n, Pos: pos, Intact: true})
						}
					}
					if diskSet[n] || len(n) < 9 || (g.Thorough() && len(n) < 12) {
						g.Emit(&c15Case{Fmt: f, Name: n, Pos: pos, Disk: true, Dmg: dmg})
					}
				}
			}
		}
		// every declared name begins with the name of the directory the index file lies in (a set made one level
		// further up), and one of them climbs back out through it
		for _, n := range []string{"arch/../x", "arch/../../x", "arch/sub/../../x", "arch/./../x", "arch/..", "arch/../arch/f", "arch/../arch2/z", "arch/../outside/x", "arch/f", "arch/arch/../f"} {
			for pos := 0; pos < 2; pos++ {
				for _, dmg := range []bool{false, true} {
					g.Emit(&c15Case{Fmt: f, Name: n, Other: "arch/ok.bin", Pos: pos, Dmg: dmg})
					g.Emit(&c15Case{Fmt: f, Name: n, Other: "arch/ok.bin", Pos: pos, Dmg: dmg, Disk: true})
				}
			}
		}
		// absolute names pointing into the canary tree
		for _, n := range []string{"outside/abs", "arch/../outside/abs2", "outside/new/dir/abs3"} {
			g.Emit(&c15Case{Fmt: f, Name: n, Pos: 0, Disk: true, Abs: true})
			g.Emit(&c15Case{Fmt: f, Name: n, Pos: 1, Disk: false, Abs: true})
		}
	}
	// Create with inputs outside the index file's directory tree, in several spellings
	for _, n := range []string{"../outside/x", "ROOT/outside/x", "ROOT/arch/../outside/x", "ROOT/arch/sub/../../outside/x", "ROOT/archx/y", "ROOT/x", "ROOT/arch/../arch2/z", "../arch2/z", "ROOT/arch/./../outside/x", "sub/../../outside/x"} {
		g.Emit(&c15Case{Fmt: "create", Name: n, Disk: true})
	}
}

func c15Inside(dir, p string, directOnly bool) bool {
	cp := path.Clean(p)
	if directOnly {
		return path.Dir(cp) == dir
	}
	return strings.HasPrefix(cp, dir+"/")
}

// tree snapshot: path -> content (dirs as "<dir>")
func snapTree(root string) map[string]string {
	m := map[string]string{}
	filepath.Walk(root, func(p string, info os.FileInfo, err error) error {
		if err != nil {
			return nil
		}
		if info.IsDir() {
			m[p] = "<dir>"
		} else if info.Mode()&os.ModeSymlink != 0 {
			t, _ := os.Readlink(p)
			m[p] = "<symlink>" + t
		} else {
			b, _ := ioutil.ReadFile(p)
			m[p] = string(b)
		}
		return nil
	})
	return m
}

var c15Seq int

// c15TwinDirs: the same archive, byte for byte, in two sibling directories (a backup copy), both with a protected file
// missing; an operation on the first copy, then Verify / Repair of the second in the same process. Whatever the second
// call does, it does inside the second directory: the first one is outside its tree. Name: which pair of operations;
// Zero (reused as "big"): an index file above 64 KiB (3300 slices).
func c15TwinDirs(c *c15Case, r *core.Rec) {
	root := filepath.Join(workerScratch(), fmt.Sprintf("c15t-%d", c15Seq))
	os.RemoveAll(root)
	defer os.RemoveAll(root)
	dirA, dirB := filepath.Join(root, "copy-a"), filepath.Join(root, "copy-b")
	os.MkdirAll(dirA, 0755)
	os.MkdirAll(dirB, 0755)
	n := 40
	if c.Zero {
		n = 13200
	}
	files := map[string][]byte{"large.dat": scen.Content("uniq", r.Seed, 0, n, 4), "small.dat": scen.Content("uniq", r.Seed, 1, 9, 4)}
	var inputs []string
	for name, b := range files {
		ioutil.WriteFile(filepath.Join(dirA, name), b, 0644)
		inputs = append(inputs, filepath.Join(dirA, name))
	}
	sort.Strings(inputs)
	ext := ".par2"
	var err error
	if c.Fmt == "twin2" {
		err = par2.Create(filepath.Join(dirA, "s.par2"), inputs, par2.CreateOptions{SliceByteCount: 4, NumParityShards: 4, NumGoroutines: 2})
	} else {
		ext = ".par"
		err = par1.Create(filepath.Join(dirA, "s.par"), inputs, par1.CreateOptions{NumParityFiles: 2})
	}
	if err != nil {
		r.Violatef("harness:twin-create-failed", "%v", err)
		return
	}
	os.Remove(filepath.Join(dirA, "small.dat"))
	for p, b := range readTree(dirA) {
		os.MkdirAll(filepath.Dir(filepath.Join(dirB, p)), 0755)
		ioutil.WriteFile(filepath.Join(dirB, p), b, 0644)
	}
	do := func(op byte, dir string) {
		index := filepath.Join(dir, "s"+ext)
		if pi := core.Catch(func() {
			switch {
			case op == 'V' && c.Fmt == "twin2":
				par2.Verify(index, par2.VerifyOptions{NumGoroutines: 2})
			case op == 'R' && c.Fmt == "twin2":
				par2.Repair(index, par2.RepairOptions{NumGoroutines: 2})
			case op == 'V':
				par1.Verify(index, par1.VerifyOptions{})
			default:
				par1.Repair(index, par1.RepairOptions{})
			}
		}); pi != nil {
			r.Violate("twin-panic:"+pi.Frame, pi.Value)
		}
		r.AddTransitions(1)
	}
	do(c.Name[0], dirA)
	beforeA := readTree(dirA)
	do(c.Name[1], dirB)
	if d := envfs.Diff(readTree(dirA), beforeA); len(d) > 0 {
		r.Violatef("write-outside-archive-directory", "%s of %s changed %v in %s - a byte-identical copy of the archive that an earlier call in this process had opened; it lies outside the directory tree of the index file this call was given", map[byte]string{'V': "Verify", 'R': "Repair"}[c.Name[1]], filepath.Join(dirB, "s"+ext), d, dirA)
	}
	r.AddStates(1)
	r.Outcome(fmt.Sprintf("%s %s big=%v", c.Fmt, c.Name, c.Zero))
	r.NontrivialCase()
}

// c15Siblings: files BESIDE the archive directory whose names begin like the directory's and end like the declared
// name (arch~notes~<name minus its first byte>, arch<name>, arch-<base name>): a lookup whose prefix lost its trailing
// separator, or a prefix test without a separator boundary, finds them.
func c15Siblings(root, name string) []string {
	base := name
	if i := strings.LastIndexByte(base, '/'); i >= 0 {
		base = base[i+1:]
	}
	if base == "" || strings.ContainsAny(base, "\x00/") || len(base) > 100 {
		return nil
	}
	out := []string{root + "/arch-" + base, root + "/arch" + base}
	if len(base) > 1 {
		out = append(out, root+"/arch~notes~"+base[1:])
	}
	return out
}

func c15Run(ci interface{}, r *core.Rec) {
	c := ci.(*c15Case)
	c15Seq++
	if c.Fmt == "create" {
		c15Create(c, r)
		return
	}
	if c.Fmt == "twin1" || c.Fmt == "twin2" {
		c15TwinDirs(c, r)
		return
	}
	root := "/c15root"
	if c.Disk {
		root = filepath.Join(workerScratch(), fmt.Sprintf("c15-%d", c15Seq))
		os.RemoveAll(root)
		defer os.RemoveAll(root)
	}
	arch := root + "/arch"
	hostile := c.Name
	if c.Abs {
		hostile = root + "/" + c.Name
	}
	names := []string{"good.bin", "good2.bin"}
	if c.Other != "" {
		names[1-c.Pos] = c.Other
	}
	names[c.Pos] = hostile
	if c.Uni {
		names[c.Pos] = "plain.bin"
	}
	datas := [][]byte{scen.Content("uniq", r.Seed, 0, 9, 4), scen.Content("uniq", r.Seed, 1, 6, 4)}
	if c.Zero {
		datas[c.Pos] = []byte{}
	}

	files := map[string][]byte{} // archive files (relative to arch)
	var index string
	if c.Fmt == "p2" {
		set := rpar2.NewSet(4, []rpar2.FileSpec{{Name: names[0], Data: datas[0]}, {Name: names[1], Data: datas[1]}})
		core2 := set.CorePackets("refwriter")
		if c.Zero {
			// a zero-length file has no slices: writers leave its (empty) checksum packet out
			core2 = [][]byte{set.CreatorPacket("refwriter"), set.MainPacket()}
			for _, f := range set.Files {
				core2 = append(core2, set.DescPacket(f))
				if len(f.Data) > 0 {
					core2 = append(core2, set.IFSCPacket(f))
				}
			}
		}
		if c.Uni {
			// the spec's optional packets that name a file a second time: Unicode filename (file id + UTF-16LE name). A
			// client that honours it has to apply the same name rules to it.
			for _, f := range set.Files {
				if f.Name == "plain.bin" {
					body := append([]byte{}, f.ID[:]...)
					for _, u := range utf16.Encode([]rune(hostile)) {
						body = append(body, byte(u), byte(u>>8))
					}
					for len(body)%4 != 0 {
						body = append(body, 0)
					}
					var t [16]byte
					copy(t[:], "PAR 2.0\x00UniFileN")
					up := rpar2.Packet(set.SetID, t, body)
					// once before and once after the other packets
					core2 = append(append([][]byte{up}, core2...), up)
				}
			}
		}
		files["s.par2"] = rpar2.Join(core2...)
		pk := append([][]byte{}, core2...)
		for e := 0; e < set.SliceCount(); e++ {
			pk = append(pk, set.RecvPacket(uint32(e), set.RecoveryBlock(e)))
		}
		files["s.vol0+9.par2"] = rpar2.Join(pk...)
		index = arch + "/s.par2"
	} else {
		es := []rpar1.Entry{rpar1.MakeEntry(names[0], datas[0], !(c.NonSaved && c.Pos == 0)), rpar1.MakeEntry(names[1], datas[1], !(c.NonSaved && c.Pos == 1))}
		saved := datas
		if c.NonSaved {
			saved = [][]byte{datas[1-c.Pos]}
		}
		files["s.par"] = rpar1.Write(0, es, nil)
		for v := 1; v <= 2; v++ {
			files[fmt.Sprintf("s.p%02d", v)] = rpar1.Write(uint64(v), es, rpar1.Parity(saved, v))
		}
		index = arch + "/s.par"
	}
	directOnly := c.Fmt == "p1"
	if c.Intact {
		for i, n := range names {
			p := path.Join(arch, n)
			if strings.ContainsRune(n, 0) || !c15Inside(arch, p, directOnly) || strings.HasSuffix(n, "/") {
				continue
			}
			files[strings.TrimPrefix(p, arch+"/")] = datas[i]
		}
	}
	if c.Dmg {
		// the declared files exist in the archive directory, damaged (so Repair has something to replace, not only to create)
		for i, n := range names {
			p := path.Join(arch, n)
			if strings.ContainsRune(n, 0) || !c15Inside(arch, p, directOnly) || strings.HasSuffix(n, "/") {
				continue
			}
			d := append([]byte{}, datas[i]...)
			d[0] ^= 0x55
			files[strings.TrimPrefix(p, arch+"/")] = d
		}
	}

	if !c.Disk {
		fs := envfs.New()
		for n, b := range files {
			fs.Put(arch+"/"+n, b)
		}
		fs.Put(root+"/canary.txt", []byte("canary"))
		fs.Put(root+"/outside/keep", []byte("keep"))
		for _, sib := range c15Siblings(root, c.Name) {
			fs.Put(sib, []byte("sibling of the archive directory"))
		}
		before := fs.Snapshot()
		if c.FailW {
			nw := 0
			fs.Hook = func(index int, kind, p string, data []byte) *envfs.Fault {
				if kind == "write" {
					nw++
					if nw == 1 {
						return &envfs.Fault{Err: envfs.ErrInjected, Partial: -1, Kind: "error"}
					}
				}
				return nil
			}
		}
		for _, op := range []string{"verify", "verify-all", "repair", "staged-repair", "staged-retry", "staged-twice"} {
			if op == "verify-all" && c.Fmt == "p2" {
				continue
			}
			var err error
			pi := core.Catch(func() {
				switch {
				case op == "staged-retry" || op == "staged-twice":
					// a caller that keeps going on ONE Decoder object whatever the calls return: every stage retried at once
					// (load, load, parity, parity, repair, repair), or the whole procedure run twice. A refusal that holds
					// only for the first call is no refusal.
					type dec interface {
						LoadFileData() error
						LoadParityData() error
					}
					var d dec
					var rep func() error
					if c.Fmt == "p2" {
						d2, e := par2.VerifNewDecoder(fs, par2.DoNothingDecoderDelegate{}, index, 1)
						if e != nil {
							err = e
							return
						}
						d, rep = d2, func() error { _, e := d2.Repair(false); return e }
					} else {
						d1, e := par1.VerifNewDecoder(fs, par1.DoNothingDecoderDelegate{}, index)
						if e != nil {
							err = e
							return
						}
						d, rep = d1, func() error { _, e := d1.Repair(false); return e }
					}
					seq := "LLPPRR"
					if op == "staged-twice" {
						seq = "LPRLPR"
					}
					for _, st := range seq {
						// a panic on an object whose earlier call failed is outside well-formed use: contained, not judged
						core.Catch(func() {
							switch st {
							case 'L':
								err = d.LoadFileData()
							case 'P':
								err = d.LoadParityData()
							default:
								err = rep()
							}
						})
					}
				case op == "staged-repair" && c.Fmt == "p2":
					// the staged exported API behind Repair, used directly
					var d *par2.Decoder
					if d, err = par2.VerifNewDecoder(fs, par2.DoNothingDecoderDelegate{}, index, 1); err == nil {
						if err = d.LoadFileData(); err == nil {
							if err = d.LoadParityData(); err == nil {
								_, err = d.Repair(false)
							}
						}
					}
				case op == "staged-repair":
					var d *par1.Decoder
					if d, err = par1.VerifNewDecoder(fs, par1.DoNothingDecoderDelegate{}, index); err == nil {
						if err = d.LoadFileData(); err == nil {
							if err = d.LoadParityData(); err == nil {
								_, err = d.Repair(false)
							}
						}
					}
				case c.Fmt == "p2" && op == "verify":
					_, err = par2.VerifVerify(fs, index, par2.VerifyOptions{NumGoroutines: 1})
				case c.Fmt == "p2":
					_, err = par2.VerifRepair(fs, index, par2.RepairOptions{NumGoroutines: 1})
				case op == "verify-all":
					_, err = par1.VerifVerify(fs, index, par1.VerifyOptions{VerifyAllData: true})
				case op == "verify":
					_, err = par1.VerifVerify(fs, index, par1.VerifyOptions{})
				default:
					_, err = par1.VerifRepair(fs, index, par1.RepairOptions{})
				}
			})
			r.AddTransitions(1)
			if pi != nil {
				r.Violate(op+"-panic:"+pi.Frame, pi.Value+"\n"+pi.Stack)
			}
			r.Outcome(fmt.Sprintf("%s %s %s", c.Fmt, op, errClass(err)))
		}
		escaped := false
		for _, op := range fs.Log {
			if op.Kind == "write" && !c15Inside(arch, op.Path, directOnly) {
				r.Violatef("write-outside-archive-directory", "%s archive declaring %q made gopar write %q (index directory %s)", c.Fmt, hostile, op.Path, arch)
				escaped = true
			}
			if op.Kind == "read" && !c15Inside(arch, op.Path, false) {
				r.Count("reads_outside_directory", 1)
			}
		}
		for _, d := range envfs.Diff(before, fs.Snapshot()) {
			if !c15Inside(arch, d, directOnly) && !escaped {
				r.Violatef("change-outside-archive-directory", "%q changed", d)
			}
		}
		r.AddStates(1)
		if len(fs.Writes()) > 0 {
			r.Count("cases_with_writes_inside", 1)
		}
		r.NontrivialCase()
		return
	}

	// real directory with a canary tree around the archive directory
	os.MkdirAll(arch+"/sub", 0755)
	os.MkdirAll(root+"/outside", 0755)
	ioutil.WriteFile(root+"/canary.txt", []byte("canary"), 0644)
	ioutil.WriteFile(root+"/outside/keep", []byte("keep"), 0644)
	ioutil.WriteFile(root+"/a", []byte("decoy named a"), 0644)
	for _, sib := range c15Siblings(root, c.Name) {
		ioutil.WriteFile(sib, []byte("sibling of the archive directory"), 0644)
	}
	ioutil.WriteFile(arch+"/sub/keep", []byte("inner"), 0644)
	for n, b := range files {
		os.MkdirAll(filepath.Dir(arch+"/"+n), 0755)
		ioutil.WriteFile(arch+"/"+n, b, 0644)
	}
	// run from a directory that is neither the archive's nor its parent: anything resolved against the current directory lands in the canary tree
	oldwd, _ := os.Getwd()
	os.Chdir(root + "/outside")
	defer os.Chdir(oldwd)
	escapeProbe := "/tmp/verif-c15-escape"
	os.Remove(escapeProbe)
	before := snapTree(root)
	for _, op := range []string{"verify", "repair"} {
		var err error
		pi := core.Catch(func() {
			switch {
			case c.Fmt == "p2" && op == "verify":
				_, err = par2.Verify(index, par2.VerifyOptions{NumGoroutines: 1})
			case c.Fmt == "p2":
				_, err = par2.Repair(index, par2.RepairOptions{NumGoroutines: 1})
			case op == "verify":
				_, err = par1.Verify(index, par1.VerifyOptions{})
			default:
				_, err = par1.Repair(index, par1.RepairOptions{})
			}
		})
		r.AddTransitions(1)
		if pi != nil {
			r.Violate(op+"-panic:"+pi.Frame, pi.Value+"\n"+pi.Stack)
		}
		r.Outcome(fmt.Sprintf("disk %s %s %s", c.Fmt, op, errClass(err)))
	}
	after := snapTree(root)
	var changed []string
	for p, v := range before {
		if w, ok := after[p]; !ok || w != v {
			changed = append(changed, p)
		}
	}
	for p := range after {
		if _, ok := before[p]; !ok {
			changed = append(changed, p)
		}
	}
	sort.Strings(changed)
	for _, p := range changed {
		if !c15Inside(arch, p, directOnly) {
			r.Violatef("change-outside-archive-directory", "%s archive declaring %q: %q was created/modified/deleted (index directory %s)", c.Fmt, hostile, p, arch)
		}
	}
	if _, err := os.Stat(escapeProbe); err == nil {
		os.Remove(escapeProbe)
		r.Violatef("change-outside-archive-directory", "%s was created", escapeProbe)
	}
	r.AddStates(1)
	r.NontrivialCase()
}

func c15Create(c *c15Case, r *core.Rec) {
	root := filepath.Join(workerScratch(), fmt.Sprintf("c15c-%d", c15Seq))
	os.RemoveAll(root)
	defer os.RemoveAll(root)
	arch := root + "/arch"
	os.MkdirAll(arch+"/sub", 0755)
	os.MkdirAll(root+"/outside", 0755)
	os.MkdirAll(root+"/arch2", 0755)
	os.MkdirAll(root+"/archx", 0755)
	payload := scen.Content("uniq", r.Seed, 3, 10, 4)
	for _, p := range []string{root + "/outside/x", root + "/archx/y", root + "/x", root + "/arch2/z"} {
		ioutil.WriteFile(p, payload, 0644)
	}
	ioutil.WriteFile(arch+"/inside", scen.Content("uniq", r.Seed, 4, 7, 4), 0644)
	spelled := strings.Replace(c.Name, "ROOT", root, 1)
	old, _ := os.Getwd()
	os.Chdir(arch)
	defer os.Chdir(old)
	before := snapTree(root)
	var err error
	pi := core.Catch(func() {
		err = par2.Create("s.par2", []string{"inside", spelled}, par2.CreateOptions{SliceByteCount: 4, NumParityShards: 2, NumGoroutines: 1})
	})
	r.AddStates(1)
	r.AddTransitions(1)
	if pi != nil {
		r.Violate("create-panic:"+pi.Frame, pi.Value+"\n"+pi.Stack)
		return
	}
	if err == nil {
		r.Violatef("create-accepted-file-outside-tree", "Create protected %q, which lies outside the index file's directory tree %s", spelled, arch)
	}
	after := snapTree(root)
	for p, v := range before {
		if w, ok := after[p]; !ok || !bytes.Equal([]byte(w), []byte(v)) {
			if !c15Inside(arch, p, false) {
				r.Violatef("change-outside-archive-directory", "%q changed during Create", p)
			}
		}
	}
	for p := range after {
		if _, ok := before[p]; !ok && !c15Inside(arch, p, false) {
			r.Violatef("change-outside-archive-directory", "%q created during Create", p)
		}
	}
	r.Outcome("create " + errClass(err))
	r.NontrivialCase()
}

func init() {
	core.Register(&core.Prop{
		ID:    "C15",
		Level: "model_checking",
		Rule: "bounded-exhaustive declared names: every path built from components {a, .., ., empty, a.., ..a} of length 1-4 (thorough 1-5), each with/without a leading and a trailing slash, plus '..' look-alikes with a control character inside / before / after, backslash, NUL, drive-letter, UNC, long-traversal and non-ASCII (UTF-8, Latin-1, invalid UTF-8) spellings and absolute paths into a canary tree; in each position of a 2-file set; PAR1 and PAR2 archives written by the reference writers as fully repairable sets whose declared files are x {missing, present in the archive directory but damaged, present and intact (PAR1)}; the hostile entry also declared with length 0; PAR2 also with the hostile name carried by the optional Unicode-filename packet of an entry whose file description is harmless; short names also with the first file write of Repair failing (a fallback location must stay inside too); real Verify (PAR1: also with the full parity check) and Repair, plus the staged Decoder API behind Repair used directly (NewDecoder, LoadFileData, LoadParityData, Repair - stopping at the first error, and by a caller that keeps going on the same object: every stage called twice, and the whole procedure twice); PAR1 also with the hostile entry listed but not saved in the parity set. Real-directory runs execute from a third directory inside the canary tree, so anything resolved against the current directory is seen. All names run on the recording in-memory filesystem; names shorter than 9 characters (thorough: 12) additionally on a real directory with a canary tree (byte snapshot of everything around the archive directory before/after). PAR2 Create with inputs outside the index directory in 10 spellings. The same archive byte for byte in two sibling directories (small, and with an index above 64 KiB), an operation on the first copy followed by Verify / Repair of the second in the same process: the first copy must stay as it is. " +
			"Oracle: every write path, cleaned, lies inside the index directory tree (PAR1: directly in it); nothing outside changes or appears; Create refuses. non-trivial = every case (each declares a hostile or boundary name)",
		Assumptions: []string{"reads outside the directory are counted in evidence but are not an alarm (the statement constrains create/modify/delete)", "Linux path semantics: backslash is an ordinary character"},
		NewCase:     func() interface{} { return &c15Case{} },
		Gen:         c15Gen,
		Run:         c15Run,
	})
}
