package props

import (
	"fmt"
	"os"
	"os/exec"
	"path/filepath"
	"runtime"
	"runtime/debug"
	"strings"
	"syscall"

	"github.com/akalin/gopar/gf2p16"

	"verifh/core"
	"verifh/ref/gf16"
)

// C09: bulk kernels equal element-wise field multiplication on every
// dispatch path, without touching memory outside the buffers.

type c09Case struct {
	Kind string `json:"kind"` // values, shapes, matrixrows
	Path string `json:"path"` // dispatch-ssse3, dispatch-nossse3, generic, platformle, dispatch (non-amd64 build)
	Lo   int    `json:"lo,omitempty"`
	Hi   int    `json:"hi,omitempty"`
	Len  int    `json:"len,omitempty"`
}

type c09Kernels struct {
	mul, mulAdd func(c gf2p16.T, in, out []byte)
	restore     func()
}

func c09Path(p string) (*c09Kernels, string) {
	switch p {
	case "dispatch-ssse3":
		if gf2p16.VerifPlatform != "amd64" {
			return nil, "not an amd64 build"
		}
		old := gf2p16.VerifSetUseSSSE3(true)
		if !old {
			gf2p16.VerifSetUseSSSE3(false)
			return nil, "CPU without SSSE3"
		}
		return &c09Kernels{gf2p16.MulByteSliceLE, gf2p16.MulAndAddByteSliceLE, func() { gf2p16.VerifSetUseSSSE3(old) }}, ""
	case "dispatch-nossse3":
		if gf2p16.VerifPlatform != "amd64" {
			return nil, "not an amd64 build"
		}
		old := gf2p16.VerifSetUseSSSE3(false)
		return &c09Kernels{gf2p16.MulByteSliceLE, gf2p16.MulAndAddByteSliceLE, func() { gf2p16.VerifSetUseSSSE3(old) }}, ""
	case "dispatch":
		if gf2p16.VerifPlatform == "amd64" {
			return nil, "amd64 build (covered by dispatch-ssse3 / dispatch-nossse3)"
		}
		return &c09Kernels{gf2p16.MulByteSliceLE, gf2p16.MulAndAddByteSliceLE, func() {}}, ""
	case "generic":
		return &c09Kernels{gf2p16.VerifMulByteSliceLEGeneric, gf2p16.VerifMulAndAddByteSliceLEGeneric, func() {}}, ""
	case "platformle":
		return &c09Kernels{gf2p16.VerifMulByteSliceLEPlatformLE, gf2p16.VerifMulAndAddByteSliceLEPlatformLE, func() {}}, ""
	case "wordslice", "wordslice-nossse3":
		// the []T kernels used by Matrix row operations
		restore := func() {}
		if p == "wordslice-nossse3" {
			if gf2p16.VerifPlatform != "amd64" {
				return nil, "not an amd64 build"
			}
			old := gf2p16.VerifSetUseSSSE3(false)
			restore = func() { gf2p16.VerifSetUseSSSE3(old) }
		}
		cast := func(f func(c gf2p16.T, in, out []gf2p16.T)) func(c gf2p16.T, in, out []byte) {
			return func(c gf2p16.T, in, out []byte) {
				ti := make([]gf2p16.T, len(in)/2)
				to := make([]gf2p16.T, len(out)/2)
				for i := range ti {
					ti[i] = gf2p16.T(in[2*i]) | gf2p16.T(in[2*i+1])<<8
					to[i] = gf2p16.T(out[2*i]) | gf2p16.T(out[2*i+1])<<8
				}
				f(c, ti, to)
				for i := range to {
					out[2*i] = byte(to[i])
					out[2*i+1] = byte(to[i] >> 8)
				}
			}
		}
		return &c09Kernels{cast(gf2p16.VerifMulSlice), cast(gf2p16.VerifMulAndAddSlice), restore}, ""
	}
	return nil, "unknown path"
}

// guarded is an mmap'ed area with PROT_NONE pages on both sides.
type guarded struct {
	window bool // carve returns slices whose capacity extends beyond their length
	all    []byte
	data   []byte // the accessible middle
}

const pageSize = 4096

func newGuarded(n int) *guarded {
	pages := (n+pageSize-1)/pageSize + 1
	all, err := syscall.Mmap(-1, 0, (pages+2)*pageSize, syscall.PROT_READ|syscall.PROT_WRITE, syscall.MAP_ANON|syscall.MAP_PRIVATE)
	if err != nil {
		panic(err)
	}
	if err := syscall.Mprotect(all[:pageSize], syscall.PROT_NONE); err != nil {
		panic(err)
	}
	if err := syscall.Mprotect(all[(pages+1)*pageSize:], syscall.PROT_NONE); err != nil {
		panic(err)
	}
	return &guarded{all: all, data: all[pageSize : (pages+1)*pageSize]}
}

func (g *guarded) free() { syscall.Munmap(g.all) }

// carve returns a buffer of length n whose start is congruent to align mod
// 16, placed as close as possible to the upper guard (high) or the lower
// guard, with 0xA5 canary bytes everywhere else in the area.
func (g *guarded) carve(n, align int, high bool) []byte {
	for i := range g.data {
		g.data[i] = 0xA5
	}
	var start int
	if high {
		start = len(g.data) - n
		for start%16 != align {
			start--
		}
	} else {
		start = align
	}
	if g.window {
		// a window into the larger area: capacity reaches to the end of it (what lies behind is canary bytes, then the guard)
		return g.data[start : start+n]
	}
	return g.data[start : start+n : start+n]
}

func (g *guarded) canariesIntact(buf []byte) bool {
	// buf aliases g.data; find its offset
	off := cap(g.data) - cap(buf[:0:cap(buf)]) // not reliable for 3-index slices; compute by pointer identity instead
	_ = off
	start := -1
	if len(buf) == 0 {
		return c09AllCanary(g.data)
	}
	for i := 0; i+len(buf) <= len(g.data); i++ {
		if &g.data[i] == &buf[0] {
			start = i
			break
		}
	}
	if start < 0 {
		panic("buffer not inside area")
	}
	return c09AllCanary(g.data[:start]) && c09AllCanary(g.data[start+len(buf):])
}

func c09AllCanary(b []byte) bool {
	for _, x := range b {
		if x != 0xA5 {
			return false
		}
	}
	return true
}

var c09RefRow [65536]uint16

func c09FillRefRow(c uint16) {
	for x := 0; x < 65536; x++ {
		c09RefRow[x] = gf16.Mul(c, uint16(x))
	}
}

func c09Gen(g *core.Gen) {
	paths := []string{"dispatch-ssse3", "dispatch-nossse3", "generic", "platformle", "wordslice", "wordslice-nossse3"}
	if runtime.GOARCH != "amd64" {
		paths = []string{"dispatch", "wordslice"}
		if g.Thorough() {
			paths = []string{"dispatch", "wordslice", "generic", "platformle"}
		}
	}
	g.Emit(&c09Case{Kind: "env"})
	for _, p := range paths {
		g.Emit(&c09Case{Kind: "concurrent", Path: p})
		g.Emit(&c09Case{Kind: "refused", Path: p})
		g.Emit(&c09Case{Kind: "lenseq", Path: p})
		for lo := 0; lo < 65536; lo += 16384 {
			g.Emit(&c09Case{Kind: "firstword", Path: p, Lo: lo, Hi: lo + 16384})
		}
		step := 256
		for lo := 0; lo < 65536; lo += step {
			g.Emit(&c09Case{Kind: "values", Path: p, Lo: lo, Hi: lo + step})
		}
		if p == "wordslice" || p == "wordslice-nossse3" {
			continue
		}
		for l := 0; l <= 200; l += 2 {
			g.Emit(&c09Case{Kind: "shapes", Path: p, Len: l})
		}
		for _, l := range []int{65534, 65536, 65538, 131070, 131072, 131074, 262144 + 34} {
			g.Emit(&c09Case{Kind: "shapes", Path: p, Len: l})
		}
	}
}

// c09Probe is the body of "vcheck aux c09-probe": in a fresh process, every constant x a 34-byte buffer (one SSSE3 block
// plus a tail word) x {Mul, MulAndAdd} on every path of this build, each against the reference. Prints "ok" or the first
// wrong product.
// c09Concurrent is "vcheck aux c09-concurrent <path>": eight goroutines, released together, call both kernels of one
// dispatch path on buffers of their own (what one call computes depends on its arguments only - also while other calls
// run). Every answer is compared with the reference; the race-detector build of this binary reports whatever the calls
// share behind the scenes. Prints "ok" or what went wrong.
func c09Concurrent(args []string) int {
	if len(args) < 1 {
		return 2
	}
	k, why := c09Path(args[0])
	if k == nil {
		fmt.Println("ok (" + why + ")")
		return 0
	}
	defer k.restore()
	lens := []int{2, 30, 34, 4096, 5000, 70000}
	start := make(chan struct{})
	errs := make(chan string, 8)
	for w := 0; w < 8; w++ {
		go func(w int) {
			<-start
			for rep := 0; rep < 40; rep++ {
				L := lens[(w+rep)%len(lens)]
				cc := uint16(0x1001*(w+1) + rep*77)
				in, out, prior := make([]byte, L), make([]byte, L), make([]byte, L)
				for i := range in {
					in[i] = byte(i*7 + w*31 + rep)
					prior[i] = byte(i*13 + w + 5*rep)
				}
				copy(out, prior)
				k.mulAdd(gf2p16.T(cc), in, out)
				for i := 0; i+1 < L; i += 2 {
					want := gf16.Mul(cc, uint16(in[i])|uint16(in[i+1])<<8) ^ (uint16(prior[i]) | uint16(prior[i+1])<<8)
					if got := uint16(out[i]) | uint16(out[i+1])<<8; got != want {
						errs <- fmt.Sprintf("goroutine %d round %d: multiply-and-add, c=%#x len=%d word %d: got %#x want %#x", w, rep, cc, L, i/2, got, want)
						return
					}
				}
				k.mul(gf2p16.T(cc), in, out)
				for i := 0; i+1 < L; i += 2 {
					want := gf16.Mul(cc, uint16(in[i])|uint16(in[i+1])<<8)
					if got := uint16(out[i]) | uint16(out[i+1])<<8; got != want {
						errs <- fmt.Sprintf("goroutine %d round %d: multiply, c=%#x len=%d word %d: got %#x want %#x", w, rep, cc, L, i/2, got, want)
						return
					}
				}
			}
			errs <- ""
		}(w)
	}
	close(start)
	bad := ""
	for w := 0; w < 8; w++ {
		if e := <-errs; e != "" && bad == "" {
			bad = e
		}
	}
	if bad != "" {
		fmt.Println(bad)
		return 0
	}
	fmt.Println("ok")
	return 0
}

func c09ConcurrentRun(c *c09Case, r *core.Rec) {
	bins := []string{os.Args[0]}
	if rb := os.Getenv("VERIF_BIN_RACE"); rb != "" {
		bins = append(bins, rb)
	} else {
		r.Note("concurrent-callers probe: no race-detector build available")
	}
	n := 0
	for rep := 0; rep < 2; rep++ {
		for _, b := range bins {
			cmd := exec.Command(b, "aux", "c09-concurrent", c.Path)
			cmd.Env = append(os.Environ(), "GORACE=halt_on_error=1 exitcode=66")
			out, err := cmd.CombinedOutput()
			n++
			if so := strings.TrimSpace(string(out)); err != nil || !strings.HasPrefix(so, "ok") {
				if len(so) > 1500 {
					so = so[:1500]
				}
				r.Violatef("kernel-result-depends-on-concurrent-calls", "path %s, eight goroutines calling the kernels on buffers of their own (%s build): %v\n%s", c.Path, map[bool]string{true: "race-detector", false: "normal"}[b != os.Args[0]], err, so)
				return
			}
		}
	}
	r.AddStates(n)
	r.AddTransitions(n * 8 * 40 * 2)
	r.Outcome("concurrent " + c.Path)
	r.NontrivialCase()
}

func c09Probe(args []string) int {
	paths := []string{"dispatch-ssse3", "dispatch-nossse3", "dispatch", "generic", "platformle", "wordslice"}
	const L = 34
	in, out, prior := make([]byte, L), make([]byte, L), make([]byte, L)
	for _, p := range paths {
		k, _ := c09Path(p)
		if k == nil {
			continue
		}
		for cc := 0; cc < 65536; cc++ {
			for i := range in {
				in[i] = byte(i*29 + cc*3 + cc>>8 + 1)
				prior[i] = byte(i*131 + cc)
			}
			for op := 0; op < 2; op++ {
				copy(out, prior)
				if op == 0 {
					k.mul(gf2p16.T(cc), in, out)
				} else {
					k.mulAdd(gf2p16.T(cc), in, out)
				}
				for x := 0; x < L/2; x++ {
					want := gf16.Mul(uint16(cc), uint16(in[2*x])|uint16(in[2*x+1])<<8)
					if op == 1 {
						want ^= uint16(prior[2*x]) | uint16(prior[2*x+1])<<8
					}
					if got := uint16(out[2*x]) | uint16(out[2*x+1])<<8; got != want {
						fmt.Printf("WRONG path=%s op=%d c=%#x word %d: %#x, want %#x\n", p, op, cc, x, got, want)
						return 0
					}
				}
			}
		}
		k.restore()
	}
	fmt.Println("ok")
	return 0
}

// c09EnvRun: the kernels in a fresh process whose HOME, XDG_*, TMPDIR and working directory are scratch directories;
// then again for every file the first process left there x every mutation of it (truncated, emptied, garbled, grown,
// replaced by a directory). A product that depends on what is lying around in the user's directories is wrong.
func c09EnvRun(r *core.Rec) {
	root := filepath.Join(core.ScratchBase(), fmt.Sprintf("verif-c09env-%d", os.Getpid()))
	os.RemoveAll(root)
	defer os.RemoveAll(root)
	var env []string
	for _, v := range []string{"HOME", "XDG_CACHE_HOME", "XDG_CONFIG_HOME", "XDG_DATA_HOME", "XDG_STATE_HOME", "XDG_RUNTIME_DIR", "TMPDIR"} {
		d := filepath.Join(root, strings.ToLower(v))
		os.MkdirAll(d, 0755)
		env = append(env, v+"="+d)
	}
	cwd := filepath.Join(root, "cwd")
	os.MkdirAll(cwd, 0755)
	probe := func(what string) bool {
		out, err := core.FreshProcessEnv(env, cwd, "c09-probe")
		r.AddTransitions(1)
		if err != nil || strings.TrimSpace(out) != "ok" {
			r.Violatef("kernel-result-depends-on-environment", "%s: probe says %q err=%v", what, strings.TrimSpace(out), err)
			return false
		}
		return true
	}
	list := func() map[string][]byte {
		m := map[string][]byte{}
		filepath.Walk(root, func(p string, st os.FileInfo, err error) error {
			if err == nil && st.Mode().IsRegular() {
				b, _ := os.ReadFile(p)
				m[p] = b
			}
			return nil
		})
		return m
	}
	if !probe("empty environment") || !probe("second process in the same environment") {
		return
	}
	// environment variables a Go program (or a library it links) may look at: the products are the same under each
	baseEnv := env
	for _, kv := range []string{"GODEBUG=cpu.ssse3=off", "GODEBUG=cpu.all=off", "GODEBUG=cpu.avx2=off,cpu.ssse3=off,gctrace=0", "GODEBUG=cpu.sse41=off", "GOMAXPROCS=1", "GOGC=off", "GOGC=1", "GOARCH=386", "GOAMD64=v1", "LANG=C", "LC_ALL=tr_TR.UTF-8", "GOTRACEBACK=none", "TZ=Pacific/Kiritimati"} {
		env = append(append([]string{}, baseEnv...), kv)
		if !probe("with " + kv) {
			return
		}
	}
	env = baseEnv
	left := list()
	r.Count("files_left_in_user_directories", len(left))
	states := 2
	for p, orig := range left {
		muts := map[string]func() error{
			"emptied":                 func() error { return os.WriteFile(p, nil, 0644) },
			"one byte":                func() error { return os.WriteFile(p, orig[:1], 0644) },
			"half":                    func() error { return os.WriteFile(p, orig[:len(orig)/2], 0644) },
			"one byte short":          func() error { return os.WriteFile(p, orig[:len(orig)-1], 0644) },
			"first byte flipped":      func() error { b := append([]byte{}, orig...); b[0] ^= 0xff; return os.WriteFile(p, b, 0644) },
			"middle byte flipped":     func() error { b := append([]byte{}, orig...); b[len(b)/2] ^= 0x55; return os.WriteFile(p, b, 0644) },
			"last byte flipped":       func() error { b := append([]byte{}, orig...); b[len(b)-1] ^= 0x01; return os.WriteFile(p, b, 0644) },
			"grown":                   func() error { return os.WriteFile(p, append(append([]byte{}, orig...), 1, 2, 3), 0644) },
			"all zero":                func() error { return os.WriteFile(p, make([]byte, len(orig)), 0644) },
			"replaced by a directory": func() error { os.Remove(p); return os.Mkdir(p, 0755) },
			"removed":                 func() error { return os.Remove(p) },
		}
		if len(orig) == 0 {
			muts = map[string]func() error{"grown": muts["grown"], "replaced by a directory": muts["replaced by a directory"]}
		}
		for name, m := range muts {
			if m() != nil {
				continue
			}
			states++
			ok := probe(fmt.Sprintf("%s %s", strings.TrimPrefix(p, root), name))
			os.RemoveAll(p)
			os.WriteFile(p, orig, 0644)
			if !ok {
				return
			}
		}
	}
	r.AddStates(states)
	r.Outcome(fmt.Sprintf("env files=%d", len(left)))
	r.NontrivialCase()
}

// c09RefusedRun: a history of calls outside the kernels' contract (input and output of different lengths: they panic,
// some after having written part of the output - not judged, only the input must stay as it is), many more than there
// are processors; then valid calls of the same sizes, which must still
// compute the products (a refused call that leaves something behind - a lock, a slot, a scratch buffer - shows here,
// as a wrong product or as a call that never returns: the watchdog reports that as a hang)
func c09RefusedRun(c *c09Case, r *core.Rec) {
	k, why := c09Path(c.Path)
	if k == nil {
		r.Count("skipped_"+c.Path, 1)
		r.Note("path " + c.Path + " skipped: " + why)
		return
	}
	defer k.restore()
	n := 0
	for _, L := range []int{2, 34, 4096, 65536} {
		in, out := make([]byte, L), make([]byte, L+2)
		for i := range in {
			in[i] = byte(i*7 + 1)
		}
		for i := range out {
			out[i] = byte(i*13 + 5)
		}
		for rep := 0; rep < 2*runtime.NumCPU()+3; rep++ {
			for op := 0; op < 2; op++ {
				pi := core.Catch(func() {
					if op == 0 {
						k.mul(0x1234, in, out)
					} else {
						k.mulAdd(0x1234, in, out[:L-2])
					}
				})
				n++
				if pi == nil {
					r.Count("mismatched_call_accepted", 1)
				}
				for i := range in {
					if in[i] != byte(i*7+1) {
						r.Violatef("kernel-modified-input:"+c.Path, "path %s: a call with buffers of different lengths changed its input", c.Path)
						return
					}
				}
				for i := range out {
					out[i] = byte(i*13 + 5)
				}
			}
		}
		// now the valid calls
		for op := 0; op < 2; op++ {
			o := out[:L]
			for i := range o {
				o[i] = byte(i*13 + 5)
			}
			pi := core.Catch(func() {
				if op == 0 {
					k.mul(0x1234, in, o)
				} else {
					k.mulAdd(0x1234, in, o)
				}
			})
			n++
			if pi != nil {
				r.Violatef("kernel-fault:"+c.Path, "path %s len %d after refused calls: %s", c.Path, L, pi.Value)
				return
			}
			for i := 0; i+1 < L; i += 2 {
				want := gf16.Mul(0x1234, uint16(in[i])|uint16(in[i+1])<<8)
				if op == 1 {
					want ^= uint16(byte(i*13+5)) | uint16(byte((i+1)*13+5))<<8
				}
				if got := uint16(o[i]) | uint16(o[i+1])<<8; got != want {
					r.Violatef("kernel-wrong-value:"+c.Path, "path %s len %d op %d after refused calls: word %d = %#x, want %#x", c.Path, L, op, i/2, got, want)
					return
				}
			}
		}
	}
	r.AddStates(n)
	r.AddTransitions(n)
	r.Outcome("refused " + c.Path)
	r.NontrivialCase()
}

// c09LenSeqRun: every ordered triple of lengths 32+t1, 32+t2, 32+t3 (tails t in 2..30 behind one full SIMD block) and
// every ordered pair of short lengths, called back to back in one goroutine with garbage collection off, on fresh
// buffers each time: what a call parks (a scratch block, a pooled tail buffer) must not reach the next call.
func c09LenSeqRun(c *c09Case, r *core.Rec) {
	k, why := c09Path(c.Path)
	if k == nil {
		r.Count("skipped_"+c.Path, 1)
		r.Note("path " + c.Path + " skipped: " + why)
		return
	}
	defer k.restore()
	oldGC := debug.SetGCPercent(-1)
	defer debug.SetGCPercent(oldGC)
	n := 0
	call := func(L, op int, cc uint16) bool {
		in, out := make([]byte, L), make([]byte, L)
		for i := range in {
			in[i] = byte(i*11 + L + 3)
			out[i] = byte(i*5 + 7)
		}
		if op == 0 {
			k.mul(gf2p16.T(cc), in, out)
		} else {
			k.mulAdd(gf2p16.T(cc), in, out)
		}
		n++
		for i := 0; i+1 < L; i += 2 {
			want := gf16.Mul(cc, uint16(in[i])|uint16(in[i+1])<<8)
			if op == 1 {
				want ^= uint16(byte(i*5+7)) | uint16(byte((i+1)*5+7))<<8
			}
			if got := uint16(out[i]) | uint16(out[i+1])<<8; got != want {
				r.Violatef("kernel-wrong-value-after-history:"+c.Path, "path %s: len %d op %d c=%#x word %d = %#x, want %#x (after calls of other lengths in this goroutine)", c.Path, L, op, cc, i/2, got, want)
				return false
			}
		}
		return true
	}
	var tails []int
	for t := 2; t <= 30; t += 2 {
		tails = append(tails, t)
	}
	for _, t1 := range tails {
		for _, t2 := range tails {
			for _, t3 := range tails {
				op := (t1/2 + t2/2 + t3/2) % 2
				if !call(32+t1, 1, 0x1234) || !call(32+t2, op, 0x8001) || !call(32+t3, 1, 0x00ff) {
					return
				}
			}
		}
	}
	for a := 2; a <= 66; a += 2 {
		for b := 2; b <= 66; b += 2 {
			if !call(a, 1, 0x1234) || !call(b, 1, 0xfedc) || !call(a, 0, 3) {
				return
			}
		}
	}
	r.AddStates(n)
	r.AddTransitions(n)
	r.Outcome("lenseq " + c.Path)
	r.NontrivialCase()
}

// c09FirstWordRun: every word value as the FIRST word of a short buffer (followed by a copy of itself and by 1), for a
// few constants: whatever a kernel remembers from "the previous word" has no previous word there.
func c09FirstWordRun(c *c09Case, r *core.Rec) {
	k, why := c09Path(c.Path)
	if k == nil {
		r.Count("skipped_"+c.Path, 1)
		r.Note("path " + c.Path + " skipped: " + why)
		return
	}
	defer k.restore()
	in, out := make([]byte, 6), make([]byte, 6)
	n := 0
	for w := c.Lo; w < c.Hi; w++ {
		for _, cc := range []uint16{1, 2, 0xffff, 0x1234} {
			for op := 0; op < 2; op++ {
				in[0], in[1], in[2], in[3], in[4], in[5] = byte(w), byte(w>>8), byte(w), byte(w>>8), 1, 0
				for i := range out {
					out[i] = byte(0x31 + i)
				}
				if op == 0 {
					k.mul(gf2p16.T(cc), in, out)
				} else {
					k.mulAdd(gf2p16.T(cc), in, out)
				}
				n++
				for i := 0; i < 6; i += 2 {
					want := gf16.Mul(cc, uint16(in[i])|uint16(in[i+1])<<8)
					if op == 1 {
						want ^= uint16(byte(0x31+i)) | uint16(byte(0x31+i+1))<<8
					}
					if got := uint16(out[i]) | uint16(out[i+1])<<8; got != want {
						r.Violatef("kernel-wrong-value:"+c.Path, "path %s op %d c=%#x: buffer starting with word %#x, word %d = %#x, want %#x", c.Path, op, cc, w, i/2, got, want)
						return
					}
				}
			}
		}
	}
	r.AddStates(n)
	r.AddTransitions(n)
	r.Outcome(fmt.Sprintf("firstword %s %d", c.Path, c.Lo))
	r.NontrivialCase()
}

func c09Run(ci interface{}, r *core.Rec) {
	c := ci.(*c09Case)
	if c.Kind == "firstword" {
		c09FirstWordRun(c, r)
		return
	}
	if c.Kind == "lenseq" {
		c09LenSeqRun(c, r)
		return
	}
	if c.Kind == "concurrent" {
		c09ConcurrentRun(c, r)
		return
	}
	if c.Kind == "env" {
		c09EnvRun(r)
		return
	}
	if c.Kind == "refused" {
		c09RefusedRun(c, r)
		return
	}
	k, why := c09Path(c.Path)
	if k == nil {
		r.Note("path " + c.Path + " skipped: " + why)
		r.Count("skipped_"+c.Path, 1)
		return
	}
	defer k.restore()
	debug.SetPanicOnFault(true)
	switch c.Kind {
	case "values":
		const L = 131072
		gin, gout := newGuarded(L), newGuarded(L)
		defer gin.free()
		defer gout.free()
		in := gin.carve(L, 0, true)
		out := gout.carve(L, 0, true)
		for x := 0; x < 65536; x++ {
			in[2*x] = byte(x)
			in[2*x+1] = byte(x >> 8)
		}
		prior := make([]byte, L)
		for i := range prior {
			prior[i] = byte(i*131 + i>>8)
		}
		for cc := c.Lo; cc < c.Hi; cc++ {
			c09FillRefRow(uint16(cc))
			for op := 0; op < 2; op++ {
				if op == 0 {
					for i := range out {
						out[i] = 0xCC
					}
				} else {
					copy(out, prior)
				}
				pi := core.Catch(func() {
					if op == 0 {
						k.mul(gf2p16.T(cc), in, out)
					} else {
						k.mulAdd(gf2p16.T(cc), in, out)
					}
				})
				if pi != nil {
					r.Violatef("kernel-fault:"+c.Path, "path %s c=%#x len=%d op=%d: %s", c.Path, cc, L, op, pi.Value)
					return
				}
				for x := 0; x < 65536; x++ {
					want := c09RefRow[x]
					if op == 1 {
						want ^= uint16(prior[2*x]) | uint16(prior[2*x+1])<<8
					}
					got := uint16(out[2*x]) | uint16(out[2*x+1])<<8
					if got != want {
						r.Violatef("kernel-wrong-value:"+c.Path, "path %s op=%d: c=%#x in=%#x -> %#x, want %#x", c.Path, op, cc, x, got, want)
						return
					}
					if in[2*x] != byte(x) || in[2*x+1] != byte(x>>8) {
						r.Violatef("kernel-modified-input:"+c.Path, "path %s c=%#x: input word %d changed", c.Path, cc, x)
						return
					}
				}
			}
		}
		if !gin.canariesIntact(in) || !gout.canariesIntact(out) {
			r.Violatef("kernel-wrote-outside-buffer:"+c.Path, "canary bytes around the buffers changed (values sweep, c in [%d,%d))", c.Lo, c.Hi)
		}
		r.AddStates((c.Hi - c.Lo) * 65536)
		r.AddTransitions((c.Hi - c.Lo) * 2)
		r.Outcome(fmt.Sprintf("values %s %d", c.Path, c.Lo))
		r.NontrivialCase()
	case "shapes":
		L := c.Len
		gin, gout := newGuarded(L+64), newGuarded(L+64)
		defer gin.free()
		defer gout.free()
		consts := []uint16{0, 1, 2, 3, 0x100b, 0x8000, 0xffff, 0x1234}
		aligns := 16
		if L > 1000 {
			aligns = 4 // large buffers: alignments 0,1,2,3 x 0..3 (plus guard placement both ways)
		}
		n := 0
		for as := 0; as < aligns; as++ {
			for ad := 0; ad < aligns; ad++ {
				for hi := 0; hi < 3; hi++ {
					// placement: against the upper guard, against the lower guard, and (small shapes) against the lower guard
					// as a window whose capacity extends over the canary area behind it
					high := hi == 0
					gin.window, gout.window = hi == 2, hi == 2
					if hi == 2 && L > 1000 {
						continue
					}
					for cj, cc := range append(consts, consts...) {
						// second pass over the constants (short shapes, first placement): a low-entropy input - zero except
						// its first and last word and the last word of every 16-byte block
						ci, sparse := cj%len(consts), cj >= len(consts)
						if sparse && (L > 200 || hi != 0) {
							continue
						}
						if L > 1000 && ci%3 != 0 {
							continue
						}
						inB := func(i int) byte {
							if sparse && i >= 2 && i < L-2 && i%16 < 14 {
								return 0
							}
							return byte(i*7 + as + 1)
						}
						in := gin.carve(L, as, high)
						out := gout.carve(L, ad, high)
						for i := range in {
							in[i] = inB(i)
						}
						op := (ci + as + ad) % 2
						for i := range out {
							out[i] = byte(i*13 + 5)
						}
						pi := core.Catch(func() {
							if op == 0 {
								k.mul(gf2p16.T(cc), in, out)
							} else {
								k.mulAdd(gf2p16.T(cc), in, out)
							}
						})
						if pi != nil {
							r.Violatef("kernel-fault:"+c.Path, "path %s c=%#x len=%d src align %d dst align %d high=%v op=%d: %s", c.Path, cc, L, as, ad, high, op, pi.Value)
							return
						}
						for i := 0; i+1 < L; i += 2 {
							x := uint16(inB(i)) | uint16(inB(i+1))<<8
							want := gf16.Mul(cc, x)
							if op == 1 {
								want ^= uint16(byte(i*13+5)) | uint16(byte((i+1)*13+5))<<8
							}
							got := uint16(out[i]) | uint16(out[i+1])<<8
							if got != want {
								r.Violatef("kernel-wrong-value:"+c.Path, "path %s len=%d align %d/%d op=%d c=%#x word %d: %#x want %#x", c.Path, L, as, ad, op, cc, i/2, got, want)
								return
							}
							if in[i] != inB(i) || in[i+1] != inB(i+1) {
								r.Violatef("kernel-modified-input:"+c.Path, "path %s len=%d: input changed", c.Path, L)
								return
							}
						}
						if !gin.canariesIntact(in) || !gout.canariesIntact(out) {
							r.Violatef("kernel-wrote-outside-buffer:"+c.Path, "path %s len=%d align %d/%d high=%v: canary bytes changed", c.Path, L, as, ad, high)
							return
						}
						n++
					}
				}
			}
		}
		gin.window, gout.window = false, false
		// in == out aliasing, as used by Matrix.scaleRow
		if L > 0 {
			buf := gin.carve(L, 0, true)
			for i := range buf {
				buf[i] = byte(i*7 + 1)
			}
			if pi := core.Catch(func() { k.mul(gf2p16.T(0x1234), buf, buf) }); pi != nil {
				r.Violatef("kernel-fault:"+c.Path, "in==out len=%d: %s", L, pi.Value)
				return
			}
			for i := 0; i+1 < L; i += 2 {
				x := uint16(byte(i*7+1)) | uint16(byte((i+1)*7+1))<<8
				if got := uint16(buf[i]) | uint16(buf[i+1])<<8; got != gf16.Mul(0x1234, x) {
					r.Violatef("kernel-wrong-value:"+c.Path, "in==out len=%d word %d", L, i/2)
					return
				}
			}
			n++
		}
		r.AddStates(n)
		r.AddTransitions(n)
		r.Outcome(fmt.Sprintf("shapes %s %d", c.Path, L))
		r.NontrivialCase()
	}
}

func init() {
	core.Aux["c09-probe"] = c09Probe
	core.Aux["c09-concurrent"] = c09Concurrent
	core.Register(&core.Prop{
		ID:      "C09",
		AltArch: true,
		Level:   "model_checking",
		Rule: "(plus, per dispatch path, fresh processes - normal and race-detector build - in which eight goroutines call both kernels at once on buffers of their own, every answer against the reference) complete over values: for every dispatch path (SSSE3 assembly, non-SSSE3 assembly via the forced flag, portable Go byte kernels, the little-endian cast path, the []T kernels used by Matrix with the dispatch flag on and off, and the real non-amd64 dispatch (byte and []T kernels) in a GOARCH=386 worker) x every constant c (65536) x a buffer holding every word value (65536) x {Mul, MulAndAdd against a prior content}. " +
			"Shapes: every even length 0..200 and {65534,65536,65538,131070,131072,131074,262178} x every (src,dst) alignment pair mod 16 (4x4 for the large ones) x 8 constants x placement against the upper / lower PROT_NONE guard page, and (lengths <= 200) as a window of a larger area whose capacity extends beyond the length, plus in==out aliasing; a history of 2 x CPUs + 3 calls outside the contract (buffers of different lengths) per length in {2,34,4096,65536} followed by valid calls; every ordered triple of lengths 32+t (t = 2..30) and every ordered pair of lengths 2..66 back to back in one goroutine with garbage collection off; short shapes also with a low-entropy input (zero except the first / last word and the last word of every 16-byte block). Environment: every constant x a 34-byte buffer on every path in a FRESH process whose HOME / XDG_* / TMPDIR / working directory are scratch directories, then again for every file that process left there x 11 mutations of it (truncated, emptied, garbled, grown, replaced by a directory, removed), and under 13 settings of environment variables a Go program may look at (GODEBUG cpu switches, GOMAXPROCS, GOGC, locale, ...). " +
			"Oracle: out[i]==ref(c,in[i]) (xor prior); input unchanged; guard pages (faults become panics via SetPanicOnFault) and canary bytes detect any access outside the buffers. non-trivial = every executed case",
		Assumptions: []string{"'no SSSE3' is simulated by forcing the dispatch flag (build-tagged hook)", "big-endian hosts are reached only through the exported portable byte kernels"},
		NewCase:     func() interface{} { return &c09Case{} },
		Gen:         c09Gen,
		Run:         c09Run,
	})
}
