package props

import (
	"verifh/core"
	"verifh/scen"
)

// C03: PAR2 Verify is truthful.

func c03Gen(g *core.Gen) {
	mk := func(cfg scen.P2Config, rg int) func(d []scen.Dmg) *p2Case {
		return func(d []scen.Dmg) *p2Case { return &p2Case{Cfg: cfg, Dmg: d, G: rg} }
	}
	D := 2
	if g.Thorough() {
		D = 3
	}
	// default set, full menu: the menu contains the operators that keep every slice findable while
	// the file is wrong (ins/cut at slice boundaries, swap, appz / trunc on trailing zeros, app)
	for _, class := range []string{"uniq", "trailzero", "trailzero2", "zero", "periodic", "dupslice"} {
		cfg := scen.P2Config{Sizes: []int{11, 6}, Slice: 4, Blocks: 3, Class: class}
		d := D
		if class != "uniq" && class != "trailzero" {
			d = 1
		} else if class == "trailzero" && d > 2 {
			d = 2
		}
		if class == "trailzero2" {
			// last slices of 3 and 2 bytes ending in zeros; also 7 / 3 bytes with slice 8
			cfg8 := scen.P2Config{Sizes: []int{23, 11}, Slice: 8, Blocks: 2, Class: class}
			genP2Deviations(g, cfg8, true, 1, mk(cfg8, 1))
		}
		genP2Deviations(g, cfg, true, d, mk(cfg, 1))
	}
	// aligned sizes (exact multiples): shifting by whole slices, swapping equal-length files
	for _, cfg := range []scen.P2Config{
		{Sizes: []int{8, 8}, Slice: 4, Blocks: 2, Class: "uniq"},
		{Sizes: []int{12, 4, 8}, Slice: 4, Blocks: 4, Class: "uniq", G: 2},
		{Sizes: []int{16, 9}, Slice: 8, Blocks: 3, Class: "trailzero"},
		{Sizes: []int{9, 9}, Slice: 4, Blocks: 3, Class: "uniq", DupFile: true},
		{Sizes: []int{27, 20}, Slice: 8, Blocks: 3, Class: "crccollide"}, // two different slices sharing a CRC-32, in one file and across files
		{Sizes: []int{59, 20}, Slice: 8, Blocks: 3, Class: "crcfield"},   // slices carrying the boundary values of the checksum field (0, 1, 0xffffffff, ...)
		{Sizes: []int{14, 9}, Slice: 4, Blocks: 2, Class: "crcfield"},
	} {
		d := 1
		if g.Thorough() || len(cfg.Sizes) == 2 {
			d = 2
		}
		genP2Deviations(g, cfg, true, d, mk(cfg, 2))
	}
	// core grid, single damages
	for _, s := range []int{4, 8} {
		for _, a := range sizesGrid(s) {
			for _, b := range sizesGrid(s) {
				for _, p := range []int{1, 3} {
					cfg := scen.P2Config{Sizes: []int{a, b}, Slice: s, Blocks: p, Class: "uniq"}
					genP2Deviations(g, cfg, false, 1, mk(cfg, 1))
				}
			}
		}
	}
	// damaged recovery files: every packet of every recovery file x {length field covers the next packet / the rest of
	// the file / is 4 short, body, hash, magic byte hit}, alone and combined with every single data damage. Verify may
	// refuse (error); a verdict must count exactly the blocks still intact in the files.
	for _, cfg := range []scen.P2Config{
		{Sizes: []int{11, 6}, Slice: 4, Blocks: 7, Class: "uniq"},
		{Sizes: []int{20, 9}, Slice: 8, Blocks: 4, Class: "uniq", G: 2},
	} {
		set, err := scen.GetP2(cfg, g.Seed)
		if err != nil {
			continue
		}
		data := append([]scen.Dmg{{Op: "none"}}, scen.DataMenu(cfg.Sizes, cfg.Slice, nRecFiles(cfg.Blocks), false)...)
		for v := 0; v < len(set.RecFiles); v++ {
			for _, pd := range set.PktRecMenu(v) {
				for _, dd := range data {
					g.Emit(&p2Case{Cfg: cfg, Dmg: []scen.Dmg{pd, dd}, G: 1, RecDamaged: true})
				}
			}
		}
	}
	// leftovers of another set under volume names whose announced ranges cover the current volumes', x listing order:
	// what a file name announces says nothing about what the file holds
	for _, cfg := range []scen.P2Config{{Sizes: []int{11, 6}, Slice: 4, Blocks: 3, Class: "uniq"}, {Sizes: []int{20, 9}, Slice: 8, Blocks: 7, Class: "uniq", G: 2}} {
		for stale := 1; stale <= 2; stale++ {
			for list := 0; list <= 1; list++ {
				for _, dm := range [][]scen.Dmg{nil, {{Op: "del", F: 0}}, {{Op: "ovw", F: 1, At: 0}}, {{Op: "ins", F: 0, At: 1, N: 1}}} {
					g.Emit(&p2Case{Cfg: cfg, Dmg: dm, G: 1, Stale: stale, List: list})
				}
			}
		}
	}
	for pb := 1; pb <= 3; pb++ {
		pcfg := scen.P2Config{Sizes: []int{11, 6}, Slice: 4, Blocks: 3, Class: "uniq"}
		for _, m := range append([]scen.Dmg{{Op: "none"}}, scen.DataMenu(pcfg.Sizes, pcfg.Slice, nRecFiles(pcfg.Blocks), false)...) {
			g.Emit(&p2Case{Cfg: pcfg, Dmg: []scen.Dmg{m}, G: 1, PriorBad: pb})
		}
	}
	// Verify's counts through a Decoder object that lives on: loads whose k-th read fails (also half-way), interrupted
	// Repairs, a recovery file cut short and restored - then counts on the same object
	for _, a := range dpFaultAlphabet {
		for _, b := range dpFaultAlphabet {
			g.Emit(&p2Case{Dec: &decProtoCase{Fmt: "p2", Prefix: []int{a, b}, Depth: 5, Fault: true}})
		}
	}
	genGenerationCases(func(c *p2Case) { g.Emit(c) }, false)
	for _, lc := range c01LargeConfigs(g.Thorough()) {
		cfg := lc
		for f := range cfg.Sizes {
			for _, d := range []scen.Dmg{{Op: "none"}, {Op: "del", F: f}, {Op: "ins", F: f, At: 0, N: 1}, {Op: "cut", F: f, At: 0, N: cfg.Slice}, {Op: "app", F: f, N: 3}, {Op: "ovw", F: f, At: 1}} {
				g.Emit(&p2Case{Cfg: cfg, Dmg: []scen.Dmg{d}, G: 2, DiskTwin: true})
			}
		}
	}
}

func init() {
	core.Register(&core.Prop{
		ID:    "C03",
		Level: "model_checking",
		Rule: "(later rounds added: the decoder protocol fault search on one Decoder object; leftovers of another set under covering volume names x listing order; a prior call on a copy with a bad-hash packet; contents with zero tails of two bytes and with checksum-field boundary values) bounded-exhaustive scenarios as C01 (all combinations of <=D operators from the full damage menu around several default sets, 5 content classes, core size grid, large sets); " +
			"the menu contains every operator that leaves all slices findable while files are wrong (insert/cut at every offset, swap, copy, append, zero-append, truncate trailing zeros). " +
			"plus a set above 16 KiB verified right after another generation of itself (same file ids and set id, other content beyond 16 KiB) in the same process; plus damaged recovery files: every packet of every recovery file x 6 kinds of header / body damage (length field extended over the next packet or the rest of the file, shortened; body, hash, magic byte), alone and with every single data damage - there Verify may refuse with an error, but a verdict must count exactly the recovery blocks a magic-resynchronising reference scanner finds intact. " +
			"Oracle: clean => all files present and identical; usable <= slices whose content occurs (brute force); unusable <= slices of damaged files; sums; parity count = distinct intact blocks beside index; RepairPossible consistent. non-trivial = scenario with >=1 damaged file",
		Assumptions: []string{
			"reference slice scan is brute force over every offset of every surviving protected file",
			"a Verify error on a set whose index/recovery files are exactly as Create wrote them is treated as a violation (the statement requires counts)",
		},
		NewCase: func() interface{} { return &p2Case{} },
		Gen:     c03Gen,
		Run: func(ci interface{}, r *core.Rec) {
			if c := ci.(*p2Case); c.Dec != nil {
				decProtoRun(c.Dec, r, func(d *decProtoCase) interface{} { return &p2Case{Dec: d} })
				return
			}
			runP2(ci.(*p2Case), r, p2Clauses{VerifyTruth: true})
		},
	})
}
