//go:build vsched

package props

import (
	"bytes"
	"encoding/json"
	"fmt"
	"io/ioutil"
	"os"
	"runtime"

	"github.com/akalin/gopar/rsec16"
	"github.com/akalin/gopar/rsec16/vsched"

	"verifh/core"
)

// Schedule exploration for C12 (only in the overlay build).

type schedPoint struct {
	n          int  // number of enabled threads
	curEnabled bool // switching away costs a preemption
	pos        string
}

type schedExec struct {
	choices []int
	points  []schedPoint
	err     string
	stats   vsched.Stats
	out     [][]byte
	confl   []string
}

type schedCfg struct {
	op      string
	d, p    int
	length  int
	g       int
	stmt    bool
	data    [][]byte
	parity  [][]byte
	want    [][]byte
	coder   rsec16.Coder
	missing int
}

func newSchedCfg(c *c12Case, seed int64) *schedCfg {
	cfg := &schedCfg{op: c.Op, d: c.D, p: c.P, length: c.Len, g: c.G, stmt: c.Gran == "stmt"}
	cfg.data = c07Data(seed, c.D, c.Len)
	one := c12Code(c.D, c.P, 1)
	cfg.parity = one.GenerateParity(cfg.data)
	cfg.coder = c12Code(c.D, c.P, c.G)
	if c.Odd {
		cfg.data, cfg.parity = c12Displace(cfg.data), c12Displace(cfg.parity)
	}
	if c.Op == "encode" {
		cfg.want = cfg.parity
	} else {
		cfg.missing = c.P
		if cfg.missing > c.D {
			cfg.missing = c.D
		}
		cfg.want = cfg.data
	}
	return cfg
}

// run executes one schedule: replay prefix, then default choice 0.
func (cfg *schedCfg) run(prefix []int) *schedExec {
	x := &schedExec{}
	k := 0
	ctl := func(p vsched.Point) int {
		ch := 0
		if k < len(prefix) {
			ch = prefix[k]
			if ch >= len(p.Enabled) {
				panic(vsched.Abort{Reason: fmt.Sprintf("replay divergence at point %d: choice %d of %d enabled (uncaptured nondeterminism)", k, ch, len(p.Enabled))})
			}
		}
		k++
		x.choices = append(x.choices, ch)
		x.points = append(x.points, schedPoint{n: len(p.Enabled), curEnabled: p.CurrentEnabled, pos: p.Pos})
		return ch
	}
	var out [][]byte
	pi := core.Catch(func() {
		x.stats = vsched.Run(ctl, cfg.stmt, 200000, func() {
			if cfg.op == "encode" {
				out = deepCopy(cfg.coder.GenerateParity(cfg.data))
			} else {
				dd := make([][]byte, cfg.d)
				for i := range dd {
					if i >= cfg.missing {
						dd[i] = cfg.data[i]
					}
				}
				if err := cfg.coder.ReconstructData(dd, cfg.parity); err != nil {
					panic("reconstruct error: " + err.Error())
				}
				out = deepCopy(dd)
			}
		})
	})
	if pi != nil {
		x.err = pi.Value
	}
	x.out = out
	x.confl = vsched.Conflicts()
	return x
}

func deepCopy(a [][]byte) [][]byte {
	out := make([][]byte, len(a))
	for i := range a {
		if a[i] != nil {
			out[i] = append([]byte{}, a[i]...)
		}
	}
	return out
}

func (x *schedExec) preemptionsBefore(i int) int {
	n := 0
	for j := 0; j < i && j < len(x.points); j++ {
		if x.choices[j] != 0 && x.points[j].curEnabled {
			n++
		}
	}
	return n
}

func (cfg *schedCfg) check(x *schedExec, r *core.Rec, c *c12Case) {
	r.AddTransitions(1)
	mk := func() *c12Case {
		cc := *c
		cc.Prefix = append([]int{}, x.choices...)
		cc.Split = 1 << 30 // replay exactly this schedule
		return &cc
	}
	if x.err != "" {
		r.ViolateWith("schedule-abort", fmt.Sprintf("%s under schedule %v: %s", cfg.op, x.choices, x.err), mk())
		return
	}
	if x.stats.Deadlock {
		r.ViolateWith("deadlock", fmt.Sprintf("deadlock under schedule %v", x.choices), mk())
		return
	}
	if len(x.out) != len(cfg.want) {
		r.ViolateWith("output-depends-on-schedule", "wrong number of output shards", mk())
		return
	}
	for i := range cfg.want {
		if !bytes.Equal(x.out[i], cfg.want[i]) {
			r.ViolateWith("output-depends-on-schedule", fmt.Sprintf("%s d=%d p=%d len=%d g=%d: shard %d differs from the single-goroutine result under schedule %v", cfg.op, cfg.d, cfg.p, cfg.length, cfg.g, i, x.choices), mk())
			return
		}
	}
	if len(x.confl) > 0 {
		r.ViolateWith("workers-access-overlapping-memory", fmt.Sprintf("conflicting kernel accesses between workers: %v", x.confl), mk())
	}
	if x.stats.MaxEnabled >= 2 {
		r.Nontrivial(fmt.Sprint(c.Op, c.D, c.P, c.Len, c.G, c.Gran, x.choices))
	}
	r.Outcome(fmt.Sprint(x.stats.Threads, len(x.points)))
}

// explore: DFS over deviations at positions >= from.
func (cfg *schedCfg) explore(prefix []int, from int, bound int, r *core.Rec, c *c12Case, count *int) {
	x := cfg.run(prefix)
	cfg.check(x, r, c)
	*count++
	if *count&1023 == 0 {
		r.Heartbeat()
	}
	start := len(prefix)
	if start < from {
		start = from
	}
	for i := start; i < len(x.points); i++ {
		p := x.points[i]
		if p.n < 2 {
			continue
		}
		cost := x.preemptionsBefore(i)
		if p.curEnabled {
			cost++
		}
		if bound >= 0 && cost > bound {
			continue
		}
		for alt := 1; alt < p.n; alt++ {
			np := append(append([]int{}, x.choices[:i]...), alt)
			cfg.explore(np, 0, bound, r, c, count)
		}
	}
}

// units enumerates the distinct choice vectors over the first `split`
// points (work units for sharding).
func (cfg *schedCfg) units(prefix []int, split, bound int, emit func([]int)) {
	x := cfg.run(prefix)
	n := split
	if n > len(x.choices) {
		n = len(x.choices)
	}
	emit(append([]int{}, x.choices[:n]...))
	for i := len(prefix); i < n; i++ {
		p := x.points[i]
		if p.n < 2 {
			continue
		}
		cost := x.preemptionsBefore(i)
		if p.curEnabled {
			cost++
		}
		if bound >= 0 && cost > bound {
			continue
		}
		for alt := 1; alt < p.n; alt++ {
			cfg.units(append(append([]int{}, x.choices[:i]...), alt), split, bound, emit)
		}
	}
}

func init() {
	c12SchedGen = func(g *core.Gen) {
		// what the instrumenter rewrote / could not model
		if rp := os.Getenv("VERIF_INSTR_REPORT"); rp != "" {
			if b, err := ioutil.ReadFile(rp); err == nil {
				var rep struct {
					Instrumented []string `json:"instrumented"`
					Unsupported  []string `json:"unsupported"`
				}
				if json.Unmarshal(b, &rep) == nil {
					g.Note(fmt.Sprintf("instrumented files: %v", rep.Instrumented))
					if len(rep.Unsupported) > 0 {
						g.Capped = true
						g.CapNote = fmt.Sprintf("constructs the scheduler does not model: %v", rep.Unsupported)
					}
				}
			}
		}
		type sc struct {
			op            string
			d, p, len, gg int
			odd           bool
			wide          bool // many input shards: kernel granularity only, at most one preemption
		}
		// (workers x kernel calls): workers = ceil(len/16) capped by g; kernel calls per worker = p_out * d_in
		quick := []sc{
			{"encode", 2, 2, 32, 2, false, false},      // 2 workers x 4 kernel calls
			{"encode", 2, 2, 48, 3, false, false},      // 3 x 4
			{"encode", 2, 1, 64, 4, false, false},      // 4 x 2
			{"encode", 4, 2, 30, 2, false, false},      // 2 x 8, last chunk shorter than 16
			{"reconstruct", 2, 2, 32, 2, false, false}, // 2 x 4
			{"reconstruct", 3, 2, 44, 2, false, false}, // 2 x 6, length not divisible
			{"reconstruct", 2, 1, 50, 4, false, false}, // 4 x 2, short last chunk
			// input shards displaced to odd addresses inside larger buffers
			{"encode", 2, 2, 32, 2, true, false},
			{"reconstruct", 2, 2, 32, 2, true, false},
			// more than 128 input shards, shards shorter than 16 bytes per requested goroutine (any path that splits the
			// work by input shard instead of by byte range shows up as conflicting kernel access sets)
			{op: "encode", d: 129, p: 1, len: 4, gg: 2, wide: true},
			{op: "encode", d: 130, p: 2, len: 20, gg: 3, wide: true},
			{op: "reconstruct", d: 129, p: 2, len: 36, gg: 4, wide: true},
		}
		thorough := []sc{
			{"encode", 5, 1, 48, 3, false, false}, // 3 x 5   (18!/(6!)^3 = 17.2 M interleavings)
			{"encode", 3, 1, 64, 4, false, false}, // 4 x 3   (16!/(4!)^4 = 63.1 M)

			{"encode", 2, 2, 34, 7, false, false}, // g > number of 16-byte units
		}
		list := quick
		if g.Thorough() {
			list = append(list, thorough...)
		}
		for _, s := range list {
			for _, gran := range []string{"kernel", "stmt"} {
				if s.wide && gran == "stmt" {
					continue
				}
				bound := -1
				split := 6
				if g.Thorough() {
					split = 9 // more, smaller work units: better balance over the worker processes
				}
				if gran == "stmt" {
					bound = 2
					if g.Thorough() {
						bound = 3
					}
					split = 12
				}
				if s.wide {
					bound, split = 1, 3
				}
				c := &c12Case{Kind: "sched", Op: s.op, D: s.d, P: s.p, Len: s.len, G: s.gg, Gran: gran, Bound: bound, Split: split, Odd: s.odd}
				cfg := newSchedCfg(c, g.Seed)
				cfg.units(nil, split, bound, func(v []int) {
					cc := *c
					cc.Prefix = v
					g.Emit(&cc)
				})
			}
		}
	}
	c12SchedRun = func(c *c12Case, r *core.Rec) {
		// exactly one goroutine runs at a time under the controlled scheduler; a single P avoids cross-thread hand-offs
		old := runtime.GOMAXPROCS(1)
		defer runtime.GOMAXPROCS(old)
		cfg := newSchedCfg(c, r.Seed)
		count := 0
		cfg.explore(c.Prefix, c.Split, c.Bound, r, c, &count)
		r.AddStates(count)
		r.Count("schedules_"+c.Gran, count)
	}
}
