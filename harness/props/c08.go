package props

import (
	"fmt"
	"math/bits"
	"os"
	"os/exec"
	"strings"
	"sync"

	"github.com/akalin/gopar/gf2"
	"github.com/akalin/gopar/gf2p16"

	"verifh/core"
	"verifh/ref/gf16"
)

// C08: field and GF(2)[x] arithmetic — complete enumeration.

type c08Case struct {
	Op string `json:"op"`
	Lo uint32 `json:"lo"`
	Hi uint32 `json:"hi"` // exclusive
}

// clmul128 is the reference carry-less product of two 64-bit polynomials.
func clmul128(a, b uint64) (hi, lo uint64) {
	for i := uint(0); i < 64; i++ {
		if b&(1<<i) != 0 {
			lo ^= a << i
			if i > 0 {
				hi ^= a >> (64 - i)
			}
		}
	}
	return
}

func deg(p uint64) int { return bits.Len64(p) - 1 } // deg(0) = -1

func sparsePolys(maxTerms int) []uint64 {
	out := []uint64{0}
	for i := 0; i < 64; i++ {
		out = append(out, 1<<uint(i))
	}
	if maxTerms >= 2 {
		for i := 0; i < 64; i++ {
			for j := i + 1; j < 64; j++ {
				out = append(out, 1<<uint(i)|1<<uint(j))
			}
		}
	}
	if maxTerms >= 3 {
		for i := 0; i < 64; i++ {
			for j := i + 1; j < 64; j++ {
				for k := j + 1; k < 64; k++ {
					out = append(out, 1<<uint(i)|1<<uint(j)|1<<uint(k))
				}
			}
		}
	}
	return out
}

var c08Sparse3, c08Sparse2 []uint64

// c08FirstUse is "vcheck aux c08-first-use <rep>": 16 goroutines wait on a barrier, then each makes 512 calls of each
// field operation (a different operation first in each goroutine) and compares with the reference.
func c08FirstUse(args []string) int {
	rep := 0
	if len(args) > 0 {
		fmt.Sscan(args[0], &rep)
	}
	const G = 16
	start := make(chan struct{})
	errs := make(chan string, G)
	var wg sync.WaitGroup
	for g := 0; g < G; g++ {
		wg.Add(1)
		go func(g int) {
			defer wg.Done()
			<-start
			for k := 0; k < 4; k++ {
				op := (g + k + rep) % 4
				for i := 0; i < 512; i++ {
					a := uint16(0xffff - (i*97+g*4099)%65535)
					b := uint16(1 + (i*131+g*7)%65535)
					var got, want uint16
					switch op {
					case 0:
						got, want = uint16(gf2p16.T(a).Inverse()), gf16.Inv(a)
					case 1:
						got, want = uint16(gf2p16.T(a).Div(gf2p16.T(b))), gf16.Mul(a, gf16.Inv(b))
					case 2:
						got, want = uint16(gf2p16.T(a).Times(gf2p16.T(b))), gf16.Mul(a, b)
					default:
						got, want = uint16(gf2p16.T(a).Pow(uint32(b))), gf16.Pow(a, uint64(b))
					}
					if got != want {
						errs <- fmt.Sprintf("WRONG goroutine %d op %d a=%#x b=%#x: %#x, want %#x", g, op, a, b, got, want)
						return
					}
				}
			}
		}(g)
	}
	close(start)
	wg.Wait()
	select {
	case e := <-errs:
		fmt.Println(e)
	default:
		fmt.Println("ok")
	}
	return 0
}

func c08SeqBases() []uint16 {
	b := []uint16{0, 1, 2, 3, 4, 0x8000, 0xffff, 0xfffe, 0x100b & 0xffff, 0x1234, 0x00ff, 0xff00}
	for i := 1; i <= 12; i++ {
		b = append(b, gf16.Exp2(i*5461)) // elements of small and large multiplicative order
	}
	return b
}

func c08SeqExponents() []uint64 {
	return []uint64{0, 1, 2, 3, 255, 256, 65534, 65535, 65536, 65537, 131070, 1 << 31, 1<<31 + 1, 0xfffffffe, 0xffffffff}
}

func c08PowExponents() []uint64 {
	var e []uint64
	seen := map[uint64]bool{}
	add := func(v int64) {
		if v < 0 || v > 0xffffffff {
			return
		}
		if !seen[uint64(v)] {
			seen[uint64(v)] = true
			e = append(e, uint64(v))
		}
	}
	for i := int64(0); i <= 300; i++ {
		add(i)
	}
	for _, k := range []int64{1, 2, 3, 255, 256, 257, 65535, 65536, 65537} {
		for d := int64(-3); d <= 3; d++ {
			add(k*65535 + d)
		}
	}
	for j := uint(0); j <= 32; j++ {
		add(int64(1)<<j - 1)
		add(int64(1) << j)
		add(int64(1)<<j + 1)
	}
	add(0xffffffff)
	add(0xfffffffe)
	add(0x80000000)
	return e
}

func c08CheckPolyDiv(r *core.Rec, p, d uint64) {
	var q, rem gf2.Poly64
	pi := core.Catch(func() { q, rem = gf2.Poly64(p).Div(gf2.Poly64(d)) })
	if d == 0 {
		if pi == nil {
			r.Violatef("poly-div-by-zero-no-panic", "Poly64(%#x).Div(0) did not panic", p)
		}
		return
	}
	if pi != nil {
		r.Violatef("poly-div-panic", "Poly64(%#x).Div(%#x) panicked: %s", p, d, pi.Value)
		return
	}
	hi, lo := clmul128(uint64(q), d)
	if hi != 0 || lo^uint64(rem) != p || deg(uint64(rem)) >= deg(d) {
		r.Violatef("poly-div-wrong", "Poly64(%#x).Div(%#x) = (%#x, %#x): q*d+r != p or deg r >= deg d", p, d, uint64(q), uint64(rem))
	}
}

func c08CheckPolyTimes(r *core.Rec, p, q uint64) {
	got := uint64(gf2.Poly64(p).Times(gf2.Poly64(q)))
	_, lo := clmul128(p, q)
	if got != lo {
		r.Violatef("poly-times-wrong", "Poly64(%#x).Times(%#x) = %#x, want %#x", p, q, got, lo)
	}
}

func init() {
	core.Aux["c08-first-use"] = c08FirstUse
	core.Register(&core.Prop{
		ID:    "C08",
		Level: "model_checking",
		Rule: "complete enumeration: all 2^32 (a,b) for Times and Div, all 65536 for Inverse, all 65536 bases x all 65535 exponent residues for Pow plus " +
			"exponent classes up to 2^32-1, call histories (every ordered pair of 15 boundary exponents on each of 24 bases, alone and alternating with a second base; every ordered pair of 120 (operation, operands) calls of Times/Div/Inverse/Pow over an 8-symbol alphabet, each answer against the reference; 8 fresh processes - half of them a race-detector build - whose first field operations come from 16 goroutines released together), Poly64 Times/Div on all pairs of degree<12 and all (<=3-term)x(<=2-term) polynomials of degree<64; " +
			"a case is a chunk of operand space; non-trivial = chunk containing non-zero operands; states = operand tuples, transitions = gopar operations",
		Assumptions: []string{
			"reference = ref/gf16 (shift-and-xor multiplication modulo 0x1100B, own base-2 tables self-checked against the slow product) and a 128-bit carry-less product",
		},
		NewCase: func() interface{} { return &c08Case{} },
		Setup: func(tier string, seed int64) {
			c08Sparse3 = sparsePolys(3)
			c08Sparse2 = sparsePolys(2)
		},
		Gen: func(g *core.Gen) {
			for _, op := range []string{"times", "div", "pow_res"} {
				for lo := uint32(0); lo < 65536; lo += 128 {
					g.Emit(&c08Case{Op: op, Lo: lo, Hi: lo + 128})
				}
			}
			g.Emit(&c08Case{Op: "inv", Lo: 0, Hi: 65536})
			for lo := uint32(0); lo < 65536; lo += 2048 {
				g.Emit(&c08Case{Op: "pow_cls", Lo: lo, Hi: lo + 2048})
			}
			// call histories: every ordered pair (and selected triples) of field operations back to back in one process
			for lo := uint32(0); lo < uint32(len(c08SeqBases())); lo += 4 {
				g.Emit(&c08Case{Op: "pow_seq", Lo: lo, Hi: lo + 4})
			}
			g.Emit(&c08Case{Op: "op_seq"})
			g.Emit(&c08Case{Op: "first_use"})
			for lo := uint32(0); lo < 4096; lo += 64 {
				g.Emit(&c08Case{Op: "poly_small", Lo: lo, Hi: lo + 64})
			}
			n3 := uint32(len(sparsePolys(1))*0 + 43745)
			for lo := uint32(0); lo < n3; lo += 512 {
				hi := lo + 512
				if hi > n3 {
					hi = n3
				}
				g.Emit(&c08Case{Op: "poly_sparse", Lo: lo, Hi: hi})
			}
			g.Emit(&c08Case{Op: "poly_edge"})
		},
		Run: func(ci interface{}, r *core.Rec) {
			c := ci.(*c08Case)
			switch c.Op {
			case "times":
				var h uint64
				for a := c.Lo; a < c.Hi; a++ {
					r.Heartbeat()
					// incremental reference row: a*b for all b via a*(b) using table mul, plus slow check on a diagonal
					for b := uint32(0); b < 65536; b++ {
						got := uint16(gf2p16.T(a).Times(gf2p16.T(b)))
						want := gf16.Mul(uint16(a), uint16(b))
						if got != want {
							r.Violatef("times-wrong", "T(%#x).Times(%#x) = %#x, want %#x", a, b, got, want)
							return
						}
						h = h*31 + uint64(got)
					}
					// slow-product cross-check of the reference itself on this row (sparse)
					for b := uint32(a & 63); b < 65536; b += 64 {
						if gf16.Mul(uint16(a), uint16(b)) != gf16.MulSlow(uint16(a), uint16(b)) {
							panic("reference self-check failed")
						}
					}
				}
				r.AddStates(int(c.Hi-c.Lo) * 65536)
				r.AddTransitions(int(c.Hi-c.Lo) * 65536)
				r.Outcome(fmt.Sprint("t", h))
				r.NontrivialCase()
			case "div":
				var h uint64
				for a := c.Lo; a < c.Hi; a++ {
					if pi := core.Catch(func() { gf2p16.T(a).Div(0) }); pi == nil {
						r.Violatef("div-by-zero-no-panic", "T(%#x).Div(0) did not panic", a)
						return
					}
					for b := uint32(1); b < 65536; b++ {
						got := uint16(gf2p16.T(a).Div(gf2p16.T(b)))
						// definition: got*b == a  (unique since b != 0)
						if gf16.Mul(got, uint16(b)) != uint16(a) {
							r.Violatef("div-wrong", "T(%#x).Div(%#x) = %#x, but %#x*%#x != %#x", a, b, got, got, b, a)
							return
						}
						h = h*31 + uint64(got)
					}
				}
				r.AddStates(int(c.Hi-c.Lo) * 65536)
				r.AddTransitions(int(c.Hi-c.Lo) * 65536)
				r.Outcome(fmt.Sprint("d", h))
				r.NontrivialCase()
			case "inv":
				if pi := core.Catch(func() { gf2p16.T(0).Inverse() }); pi == nil {
					r.Violate("inverse-of-zero-no-panic", "T(0).Inverse() did not panic")
				}
				for a := uint32(1); a < 65536; a++ {
					got := uint16(gf2p16.T(a).Inverse())
					if gf16.MulSlow(uint16(a), got) != 1 {
						r.Violatef("inverse-wrong", "T(%#x).Inverse() = %#x, product != 1", a, got)
						return
					}
					if uint16(gf2p16.T(a).Div(gf2p16.T(a))) != 1 || uint16(gf2p16.T(1).Div(gf2p16.T(a))) != got {
						r.Violatef("div-inverse-inconsistent", "a=%#x", a)
						return
					}
					r.Outcome(fmt.Sprint("i", got))
				}
				r.AddStates(65536)
				r.AddTransitions(65536 * 3)
				r.NontrivialCase()
			case "pow_res":
				var h uint64
				for a := c.Lo; a < c.Hi; a++ {
					acc := uint16(1) // a^0 = 1 (including 0^0)
					for p := uint32(0); p < 65535; p++ {
						got := uint16(gf2p16.T(a).Pow(p))
						if got != acc {
							r.Violatef("pow-wrong", "T(%#x).Pow(%d) = %#x, want %#x", a, p, got, acc)
							return
						}
						acc = gf16.Mul(acc, uint16(a))
						h = h*31 + uint64(got)
					}
				}
				r.AddStates(int(c.Hi-c.Lo) * 65535)
				r.AddTransitions(int(c.Hi-c.Lo) * 65535)
				r.Outcome(fmt.Sprint("p", h))
				r.NontrivialCase()
			case "first_use":
				// fresh processes whose FIRST field operations come from 16 goroutines released together: anything built
				// lazily on first use is built under contention. Each process checks every answer against the reference;
				// half of the processes are the race-detector build (an unsynchronised read of a table another goroutine is
				// still filling is reported whatever the timing).
				bins := []string{os.Args[0]}
				if rb := os.Getenv("VERIF_BIN_RACE"); rb != "" {
					bins = append(bins, rb)
				} else {
					r.Note("first-use probe: no race-detector build available")
				}
				n := 0
				for rep := 0; rep < 4; rep++ {
					for _, b := range bins {
						cmd := exec.Command(b, "aux", "c08-first-use", fmt.Sprint(rep))
						cmd.Env = append(os.Environ(), "GORACE=halt_on_error=1 exitcode=66")
						out, err := cmd.CombinedOutput()
						n++
						if err != nil || strings.TrimSpace(string(out)) != "ok" {
							r.Violatef("field-op-wrong-on-concurrent-first-use", "a fresh process (%s build) whose first field operations came from 16 goroutines at once: %v\n%s", map[bool]string{true: "race-detector", false: "normal"}[b != os.Args[0]], err, tailOf(string(out), 1200))
							return
						}
					}
				}
				r.AddStates(n)
				r.AddTransitions(n * 16 * 4 * 512)
				r.Outcome("first_use")
				r.NontrivialCase()
			case "pow_seq":
				// Pow(a,p1) then Pow(b,p2) then Pow(a,p3): every ordered pair of boundary exponents on one base, and every
				// such pair with a call on another base in between; each answer against the reference
				bases := c08SeqBases()
				exps := c08SeqExponents()
				var h uint64
				n := 0
				chk := func(a uint16, p uint64) bool {
					got := uint16(gf2p16.T(a).Pow(uint32(p)))
					want := gf16.Pow(a, p)
					n++
					h = h*31 + uint64(got)
					if got != want {
						r.Violatef("pow-wrong-after-history", "T(%#x).Pow(%d) = %#x, want %#x (after earlier Pow calls in this process)", a, p, got, want)
						return false
					}
					return true
				}
				for bi := int(c.Lo); bi < int(c.Hi) && bi < len(bases); bi++ {
					a := bases[bi]
					for _, p1 := range exps {
						for _, p2 := range exps {
							if !chk(a, p1) || !chk(a, p2) {
								return
							}
						}
					}
					other := bases[(bi+1)%len(bases)]
					for _, p1 := range exps {
						for _, p2 := range exps {
							if !chk(a, p1) || !chk(other, p1) || !chk(a, p2) || !chk(other, p2) {
								return
							}
						}
					}
				}
				r.AddStates(n)
				r.AddTransitions(n)
				r.Outcome(fmt.Sprint("ps", h))
				r.NontrivialCase()
			case "op_seq":
				// every ordered pair of (operation, operands) over a small operand alphabet, back to back
				type call struct {
					op   int
					a, b uint16
					p    uint64
				}
				alpha := []uint16{0, 1, 2, 3, 0x8000, 0xffff, 0x100b & 0xffff, 0x1234}
				var calls []call
				for _, a := range alpha {
					calls = append(calls, call{op: 2, a: a})
					for _, b := range alpha {
						calls = append(calls, call{op: 0, a: a, b: b}, call{op: 1, a: a, b: b})
					}
					for _, p := range []uint64{0, 1, 2, 65534, 65535, 65536, 0xffffffff} {
						calls = append(calls, call{op: 3, a: a, p: p})
					}
				}
				do := func(c call) (uint16, bool) {
					var got uint16
					pi := core.Catch(func() {
						switch c.op {
						case 0:
							got = uint16(gf2p16.T(c.a).Times(gf2p16.T(c.b)))
						case 1:
							got = uint16(gf2p16.T(c.a).Div(gf2p16.T(c.b)))
						case 2:
							got = uint16(gf2p16.T(c.a).Inverse())
						case 3:
							got = uint16(gf2p16.T(c.a).Pow(uint32(c.p)))
						}
					})
					return got, pi != nil
				}
				want := func(c call) (uint16, bool) {
					switch c.op {
					case 0:
						return gf16.Mul(c.a, c.b), false
					case 1:
						if c.b == 0 {
							return 0, true
						}
						return gf16.Mul(c.a, gf16.Inv(c.b)), false
					case 2:
						if c.a == 0 {
							return 0, true
						}
						return gf16.Inv(c.a), false
					}
					return gf16.Pow(c.a, c.p), false
				}
				n := 0
				var h uint64
				for _, c1 := range calls {
					for _, c2 := range calls {
						for _, cc := range []call{c1, c2} {
							got, pan := do(cc)
							w, wpan := want(cc)
							n++
							h = h*31 + uint64(got)
							if pan != wpan || (!pan && got != w) {
								r.Violatef("field-op-wrong-after-history", "op %d (%#x,%#x,%d) = %#x panic=%v, want %#x panic=%v, after op %d (%#x,%#x,%d)", cc.op, cc.a, cc.b, cc.p, got, pan, w, wpan, c1.op, c1.a, c1.b, c1.p)
								return
							}
						}
					}
				}
				r.AddStates(n)
				r.AddTransitions(n)
				r.Outcome(fmt.Sprint("os", h))
				r.NontrivialCase()
			case "pow_cls":
				exps := c08PowExponents()
				var h uint64
				for a := c.Lo; a < c.Hi; a++ {
					for _, p := range exps {
						got := uint16(gf2p16.T(a).Pow(uint32(p)))
						want := gf16.Pow(uint16(a), p)
						if got != want {
							r.Violatef("pow-wrong", "T(%#x).Pow(%d) = %#x, want %#x", a, p, got, want)
							return
						}
						h = h*31 + uint64(got)
					}
				}
				r.AddStates(int(c.Hi-c.Lo) * len(exps))
				r.AddTransitions(int(c.Hi-c.Lo) * len(exps))
				r.Outcome(fmt.Sprint("pc", h))
				r.NontrivialCase()
			case "poly_small":
				for p := uint64(c.Lo); p < uint64(c.Hi); p++ {
					for q := uint64(0); q < 4096; q++ {
						c08CheckPolyTimes(r, p, q)
						c08CheckPolyDiv(r, p, q)
					}
				}
				r.AddStates(int(c.Hi-c.Lo) * 4096)
				r.AddTransitions(int(c.Hi-c.Lo) * 4096 * 2)
				r.Outcome(fmt.Sprint("ps", c.Lo))
				r.NontrivialCase()
			case "poly_sparse":
				for i := c.Lo; i < c.Hi && int(i) < len(c08Sparse3); i++ {
					p := c08Sparse3[i]
					for _, q := range c08Sparse2 {
						c08CheckPolyTimes(r, p, q)
						c08CheckPolyDiv(r, p, q)
						if q != 0 && p != 0 && i%16 == 0 {
							c08CheckPolyDiv(r, q, p)
						}
					}
				}
				r.AddStates(int(c.Hi-c.Lo) * len(c08Sparse2))
				r.AddTransitions(int(c.Hi-c.Lo) * len(c08Sparse2) * 2)
				r.Outcome(fmt.Sprint("pp", c.Lo))
				r.NontrivialCase()
			case "poly_edge":
				edge := []uint64{0, 1, 2, 3, 0x1100b, 0x8000000000000000, 0xffffffffffffffff, 0x8000000000000001, 0xc000000000000000, 0x7fffffffffffffff,
					0xaaaaaaaaaaaaaaaa, 0x5555555555555555, 0x100000000, 0xffffffff, 0x1100b << 40, 0xdeadbeefcafef00d}
				n := 0
				for _, p := range edge {
					for _, q := range edge {
						c08CheckPolyTimes(r, p, q)
						c08CheckPolyDiv(r, p, q)
						n++
					}
					// the division used to build the field tables: (x * 3) mod 0x1100b
					for x := uint64(0); x < 65536; x += 1 {
						c08CheckPolyDiv(r, uint64(gf2.Poly64(x).Times(3)), 0x1100b)
						n++
					}
				}
				r.AddStates(n)
				r.AddTransitions(2 * n)
				r.NontrivialCase()
			default:
				panic("bad op " + c.Op)
			}
		},
	})
}
