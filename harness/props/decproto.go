package props

import (
	"bytes"
	"fmt"
	"os"
	"path/filepath"
	"runtime/debug"
	"sort"
	"strings"

	"github.com/akalin/gopar/par1"
	"github.com/akalin/gopar/par2"

	"verifh/core"
	"verifh/envfs"
	"verifh/ref/rpar1"
	"verifh/ref/rpar2"
	"verifh/scen"
)

// Decoder protocol (part of C14): every operation sequence up to a depth on
// ONE exported Decoder object (the staged API behind Verify and Repair:
// NewDecoder, LoadFileData, LoadParityData, ShardCounts/FileCounts, Repair)
// while the directory is damaged and restored between the calls.
//
// Reference model: fileView / parityView = the data files / recovery files
// as they were at the last successful LoadFileData / LoadParityData. The
// object is *fresh* when both views equal the directory as it is now. Only
// calls made on a fresh object are judged (that is how Verify and Repair use
// it; here the same object has a past):
//   counts  == truth about the directory;
//   Repair  succeeds iff lost <= capacity; on success every file is original,
//           exactly the damaged files are listed; on failure no file is
//           worse than before.
// After a Repair the views are cleared, so a reload is needed before the next
// judgement - except after a successful PAR1 Repair: that decoder records what
// it wrote, and its counts / a further Repair are judged as they stand (the
// PAR2 decoder keeps its pre-repair tables; that is left unspecified).
// A further Repair on an object whose directory was changed only by its own
// earlier Repair calls (complete or interrupted by a torn write) is judged by
// the state-independent clause: nil error => every file original.
// Other calls are executed - they shape the hidden state - but not judged.
// Sequences are not merged by model state: hidden state is the point.

type decProtoCase struct {
	Fmt    string `json:"fmt"` // p1, p2
	Prefix []int  `json:"prefix,omitempty"`
	Depth  int    `json:"depth,omitempty"`
	Seq    []int  `json:"seq,omitempty"`   // replay
	Fault  bool   `json:"fault,omitempty"` // error-path alphabet (see dpFaultAlphabet)
	Ref    bool   `json:"ref,omitempty"`   // PAR1: the set is written by the independent reference writer (comment in the index, an entry not saved in the parity set between the saved ones, a zero-length file) instead of by gopar's Create
	Disk   bool   `json:"disk,omitempty"`  // exported constructors on a real directory (else: the same objects on the owned in-memory filesystem)
	VolLast bool  `json:"vollast,omitempty"` // the recovery-file events (delete / restore / cut) act on the LAST recovery file / highest volume instead of the first
	Start  int    `json:"start,omitempty"` // 1: the sequence begins with both data files and the (first / last, see VolLast) recovery file already gone
	One    bool   `json:"one,omitempty"`   // the set has ONE recovery block in ONE recovery file (PAR1: one volume): with "delete the first recovery file" no recovery file at all is left
}

const (
	dpLoadFiles = iota
	dpLoadParity
	dpCounts
	dpRepair
	dpRepairDC
	dpDelA
	dpChangeA
	dpDelB
	dpRestoreAll
	dpDelVol0
	dpRestoreVol0
	dpLoadBoth
	dpNOps
	// only in the fault alphabet (in-memory runs): a Repair whose 1st / 2nd file write is torn half-way
	dpRepairTorn1 = dpNOps
	dpRepairTorn2 = dpNOps + 1
	// a load that fails half-way: the k-th read of this call returns an I/O error
	dpLoadFilesFault1  = dpNOps + 2
	dpLoadParityFault2 = dpNOps + 3
	dpLoadParityFault3 = dpNOps + 4
	// PAR2: the first recovery file cut short inside its last packet (a damaged file: a load may refuse it - after having
	// parsed the packets in front of the cut); "restore first recovery file" undoes it
	dpTruncVol0 = dpNOps + 5
)

// dpFaultAlphabet: the operations of the error-path search.
var dpFaultAlphabet = []int{dpLoadBoth, dpCounts, dpRepair, dpRepairTorn1, dpRepairTorn2, dpLoadFilesFault1, dpLoadParityFault2, dpLoadParityFault3, dpDelA, dpDelB, dpChangeA, dpDelVol0, dpRestoreVol0, dpTruncVol0}

var dpNames = []string{"LoadFileData", "LoadParityData", "Counts", "Repair", "Repair(check)", "delete a", "change a", "delete b", "restore data files", "delete first recovery file", "restore first recovery file", "LoadFileData+LoadParityData", "Repair(1st file write torn)", "Repair(2nd file write torn)", "LoadFileData(1st read fails)", "LoadParityData(2nd read fails)", "LoadParityData(3rd read fails)", "cut the first recovery file short"}

func decProtoGen(fmtName string, depth int, disk bool, emit func(*decProtoCase)) {
	if !disk {
		for _, a := range dpFaultAlphabet {
			for _, b := range dpFaultAlphabet {
				emit(&decProtoCase{Fmt: fmtName, Prefix: []int{a, b}, Depth: depth - 1, Fault: true}) // 13 operations: one step shorter than the main alphabet
			}
		}
	}
	for a := 0; a < dpNOps; a++ {
		for b := 0; b < dpNOps; b++ {
			emit(&decProtoCase{Fmt: fmtName, Prefix: []int{a, b}, Depth: depth, Disk: disk})
		}
	}
}

func decProtoRun(c *decProtoCase, r *core.Rec, wrap func(*decProtoCase) interface{}) {
	if c.Seq != nil {
		decProtoOne(c, c.Seq, r, wrap)
		return
	}
	seq := append([]int{}, c.Prefix...)
	var rec func()
	rec = func() {
		if len(seq) == c.Depth {
			last := seq[len(seq)-1]
			if last == dpCounts || last == dpRepair || last == dpRepairDC { // only these add a judgement
				decProtoOne(c, seq, r, wrap)
				r.Heartbeat()
			}
			return
		}
		alphabet := dpFaultAlphabet
		if !c.Fault {
			alphabet = nil
			for op := 0; op < dpNOps; op++ {
				alphabet = append(alphabet, op)
			}
		}
		for _, op := range alphabet {
			seq = append(seq, op)
			rec()
			seq = seq[:len(seq)-1]
		}
	}
	rec()
}

var decProtoSeq int

func decProtoOne(c *decProtoCase, seq []int, r *core.Rec, wrap func(*decProtoCase) interface{}) {
	// no garbage collection within one sequence: whatever a call parks in a pool or cache is still there for the next
	oldGC := debug.SetGCPercent(-1)
	defer debug.SetGCPercent(oldGC)
	root := ""
	if c.Disk {
		decProtoSeq++
		root = filepath.Join(workerScratch(), fmt.Sprintf("dp-%d", decProtoSeq))
		os.RemoveAll(root)
		defer os.RemoveAll(root)
	}
	viol := func(sig, f string, a ...interface{}) {
		var ops []string
		for _, o := range seq {
			ops = append(ops, dpNames[o])
		}
		r.ViolateWith("decoder-protocol:"+sig, fmt.Sprintf(f, a...)+"\nsequence: "+strings.Join(ops, ", "), wrap(&decProtoCase{Fmt: c.Fmt, Seq: append([]int{}, seq...), Disk: c.Disk, Ref: c.Ref, Fault: c.Fault, One: c.One, VolLast: c.VolLast, Start: c.Start}))
	}
	var p2 *scen.P2Set
	var p1 *scen.P1Set
	var paths, vols []string
	var datas [][]byte
	var fs0 *envfs.FS
	var index string
	if c.Fmt == "p2" {
		nb := 3
		if c.One {
			nb = 1
		}
		s, err := scen.GetP2(scen.P2Config{Sizes: []int{11, 6}, Slice: 4, Blocks: nb, Class: "uniq"}, r.Seed)
		if err != nil {
			viol("setup-failed", "%v", err)
			return
		}
		if c.Ref {
			s = decProtoForeignLayout(s)
		}
		p2, paths, datas, vols, fs0, index = s, s.Paths, s.Data, s.RecFiles, s.FS0, s.Index
	} else if c.Ref {
		s := decProtoRefSet(r.Seed)
		p1, paths, datas, vols, fs0, index = s, s.Paths, s.Data, s.VolPaths, s.FS0, s.Index
	} else {
		nv := 2
		if c.One {
			nv = 1
		}
		s, err := scen.GetP1(scen.P1Config{Sizes: []int{7, 0}, Volumes: nv}, r.Seed)
		if err != nil {
			viol("setup-failed", "%v", err)
			return
		}
		p1, paths, datas, vols, fs0, index = s, s.Paths, s.Data, s.VolPaths, s.FS0, s.Index
	}
	if c.VolLast && len(vols) > 1 {
		vols = append([]string{vols[len(vols)-1]}, vols[:len(vols)-1]...)
	}
	cur := fs0.Clone() // mirror of the directory
	if c.Disk {
		materialize(root, cur.Files)
	}
	put := func(p string, b []byte) {
		cur.Put(p, b)
		if c.Disk {
			materialize(root, map[string][]byte{p: b})
		}
	}
	del := func(p string) {
		cur.Del(p)
		if c.Disk {
			os.Remove(filepath.Join(root, p))
		}
	}
	if c.Start == 1 {
		del(paths[0])
		del(paths[1])
		del(vols[0])
	}
	view := func(ps []string) string {
		var sb strings.Builder
		for _, p := range ps {
			b, ok := cur.Get(p)
			fmt.Fprintf(&sb, "%s=%v:%x;", p, ok, b)
		}
		return sb.String()
	}
	var d1 *par1.Decoder
	var d2 *par2.Decoder
	var err error
	switch {
	case p2 != nil && c.Disk:
		d2, err = par2.NewDecoder(par2.DoNothingDecoderDelegate{}, filepath.Join(root, index), 2)
	case p2 != nil:
		d2, err = par2.VerifNewDecoder(cur, par2.DoNothingDecoderDelegate{}, index, 2)
	case c.Disk:
		d1, err = par1.NewDecoder(par1.DoNothingDecoderDelegate{}, filepath.Join(root, index))
	default:
		d1, err = par1.VerifNewDecoder(cur, par1.DoNothingDecoderDelegate{}, index)
	}
	if err != nil {
		viol("new-decoder-failed", "%v", err)
		return
	}
	fileView, parityView := "-", "-"
	key := ""
	// ownOnly: since the object was last fresh, the directory was changed only by the object's own Repair calls
	// (complete or interrupted), not by any event. Then the weaker, state-independent clause applies to a further
	// Repair on it: a nil error still means every file is original.
	ownOnly := false
	volCut := false // the first recovery file is currently cut short: loads may refuse the directory
	// pendingRetry: the object's last call was a Repair on fresh tables that failed only because of an injected write
	// fault while the loss was within capacity; nothing else has happened since
	pendingRetry := false
	truth := func() (lost, capacity int) {
		if p2 != nil {
			t := p2.Truth(cur)
			lost, capacity = t.K, t.N
			if !t.Scan.OverlapFree {
				lost = t.Total + 1 // ambiguous occurrence set: claim nothing about capacity
				r.Count("skipped_ambiguous", 1)
			}
			return
		}
		t := p1.Truth(cur)
		return t.UnusableData, t.UsableParity
	}
	var ops []int
	for _, op := range seq {
		if op == dpLoadBoth {
			ops = append(ops, dpLoadFiles, dpLoadParity)
		} else {
			ops = append(ops, op)
		}
	}
	var prevLists [][]string
	var prevListsWant []string
	for _, op := range ops {
		r.AddTransitions(1)
		fresh := fileView == view(paths) && parityView == view(vols)
		switch op {
		case dpDelA, dpChangeA, dpDelB, dpRestoreAll, dpDelVol0, dpRestoreVol0, dpTruncVol0:
			ownOnly = false
			pendingRetry = false
		case dpLoadFiles, dpLoadParity, dpLoadFilesFault1, dpLoadParityFault2, dpLoadParityFault3:
			pendingRetry = false
		}
		switch op {
		case dpDelA:
			del(paths[0])
		case dpChangeA:
			b := append([]byte{}, datas[0]...)
			b[0] ^= 0x80
			put(paths[0], b)
		case dpDelB:
			del(paths[1])
		case dpRestoreAll:
			for i, p := range paths {
				put(p, datas[i])
			}
		case dpDelVol0:
			del(vols[0])
			volCut = false
		case dpRestoreVol0:
			put(vols[0], fs0.Files[vols[0]])
			volCut = false
		case dpTruncVol0:
			if p2 == nil || root != "" {
				continue
			}
			if b := fs0.Files[vols[0]]; len(b) > 40 {
				put(vols[0], b[:len(b)-17])
				volCut = true
			}
		case dpLoadFiles, dpLoadParity:
			var lerr error
			pi := core.Catch(func() {
				switch {
				case op == dpLoadFiles && d2 != nil:
					lerr = d2.LoadFileData()
				case op == dpLoadFiles:
					lerr = d1.LoadFileData()
				case d2 != nil:
					lerr = d2.LoadParityData()
				default:
					lerr = d1.LoadParityData()
				}
			})
			if pi != nil {
				// loading is always well-formed use
				viol("load-panic:"+pi.Frame, "%s panicked: %s", dpNames[op], pi.Value)
				return
			}
			if lerr != nil && volCut && op == dpLoadParity {
				// a damaged recovery file: refusing is an acceptable answer; the object is not up to date then
				parityView = "-"
				r.Count("decproto_loads_refused_on_cut_volume", 1)
				key += "Lr"
				continue
			}
			if lerr != nil {
				viol("load-failed:"+errClass(lerr), "%s failed on a directory whose index and recovery files are as Create wrote them: %v", dpNames[op], lerr)
				return
			}
			if op == dpLoadFiles {
				fileView = view(paths)
			} else {
				parityView = view(vols)
			}
			key += fmt.Sprint("L", op)
		case dpCounts:
			if !fresh {
				// still executed: reading counts must not disturb anything
				needed := true
				pi := core.Catch(func() {
					if d2 != nil {
						needed = d2.ShardCounts().RepairNeeded()
					} else {
						needed = d1.FileCounts().RepairNeeded()
					}
				})
				if ownOnly && pi == nil && !needed {
					// the directory was changed only by this object's own Repair calls (possibly interrupted): the
					// state-independent clause - "no repair needed" must be true of the directory
					r.Count("decproto_judged_counts_after_own_repair", 1)
					for i, p := range paths {
						if b, ok := cur.Get(p); !ok || !bytes.Equal(b, datas[i]) {
							viol("counts-clean-but-files-differ", "after this object's own (interrupted) Repair its counts say no repair is needed, but %s is not original", p)
							break
						}
					}
					continue
				}
				r.Count("decproto_unjudged_calls", 1)
				continue
			}
			r.Count("decproto_judged_counts", 1)
			if d2 != nil {
				var sc par2.ShardCounts
				if pi := core.Catch(func() { sc = d2.ShardCounts() }); pi != nil {
					viol("counts-panic:"+pi.Frame, "%s", pi.Value)
					return
				}
				t := p2.Truth(cur)
				if !t.Scan.OverlapFree {
					r.Count("skipped_ambiguous", 1)
					continue
				}
				if sc.UsableDataShardCount != t.Total-t.K || sc.UnusableDataShardCount != t.K || sc.UsableParityShardCount != t.N {
					viol("counts-wrong", "ShardCounts %+v, truth: %d of %d slices present, %d recovery blocks", sc, t.Total-t.K, t.Total, t.N)
				}
				key += fmt.Sprintf("C%d/%d", sc.UsableDataShardCount, sc.UsableParityShardCount)
			} else {
				var fc par1.FileCounts
				if pi := core.Catch(func() { fc = d1.FileCounts() }); pi != nil {
					viol("counts-panic:"+pi.Frame, "%s", pi.Value)
					return
				}
				t := p1.Truth(cur)
				if fc.UsableDataFileCount != t.UsableData || fc.UnusableDataFileCount != t.UnusableData || fc.UsableParityFileCount != t.UsableParity {
					viol("counts-wrong", "FileCounts %+v, truth: data %d/%d, parity %d", fc, t.UsableData, t.UnusableData, t.UsableParity)
				}
				key += fmt.Sprintf("C%d/%d", fc.UsableDataFileCount, fc.UsableParityFileCount)
			}
		case dpLoadFilesFault1, dpLoadParityFault2, dpLoadParityFault3:
			// a (re)load that fails half-way: it must report the failure, and the object must go on describing what it
			// described before (both decoders install their new tables only at the end of a successful load)
			if root != "" {
				continue
			}
			k, failAt := 0, 1
			if op == dpLoadParityFault2 {
				failAt = 2
			} else if op == dpLoadParityFault3 {
				failAt = 3
			}
			cur.Hook = func(index int, kind, path string, data []byte) *envfs.Fault {
				if kind == "read" {
					k++
					if k == failAt {
						if op == dpLoadParityFault2 || op == dpLoadFilesFault1 {
							// this one dies half-way: the first half of the file comes back together with the error
							return &envfs.Fault{Err: envfs.ErrInjected, Partial: envfs.HalfRead, Kind: "half-read"}
						}
						return &envfs.Fault{Err: envfs.ErrInjected, Partial: -1, Kind: "read-error"}
					}
				}
				return nil
			}
			var lerr error
			pi := core.Catch(func() {
				switch {
				case op == dpLoadFilesFault1 && d2 != nil:
					lerr = d2.LoadFileData()
				case op == dpLoadFilesFault1:
					lerr = d1.LoadFileData()
				case d2 != nil:
					lerr = d2.LoadParityData()
				default:
					lerr = d1.LoadParityData()
				}
			})
			cur.Hook = nil
			if pi != nil {
				viol("load-panic:"+pi.Frame, "%s panicked: %s", dpNames[op], pi.Value)
				return
			}
			if k >= failAt && lerr == nil {
				viol("read-fault-not-reported", "%s: read %d of this call failed, but it returned nil", dpNames[op], failAt)
				return
			}
			if k < failAt {
				// fewer reads than that: nothing was injected, this was an ordinary load
				if lerr != nil && volCut && op != dpLoadFilesFault1 {
					parityView = "-"
					key += "Lr"
					continue
				}
				if lerr != nil {
					viol("load-failed:"+errClass(lerr), "%s failed without any fault: %v", dpNames[op], lerr)
					return
				}
				if op == dpLoadFilesFault1 {
					fileView = view(paths)
				} else {
					parityView = view(vols)
				}
			}
			r.Count("decproto_failed_loads", 1)
			key += "Lf"
		case dpRepairTorn1, dpRepairTorn2:
			// a Repair interrupted by a torn write: it must not report success for the file whose write failed; the
			// object is then stale by definition (reload needed). What it leaves behind is the next calls' problem.
			if root != "" {
				continue
			}
			l0, c0 := truth()
			k, failAt := 0, 1+op-dpRepairTorn1
			cur.Hook = func(index int, kind, path string, data []byte) *envfs.Fault {
				if kind == "write" {
					k++
					if k == failAt {
						return &envfs.Fault{Err: envfs.ErrInjected, Partial: len(data) / 2, Kind: "torn-write"}
					}
				}
				return nil
			}
			var rerr error
			pi := core.Catch(func() {
				if d2 != nil {
					_, rerr = d2.Repair(false)
				} else {
					_, rerr = d1.Repair(false)
				}
			})
			cur.Hook = nil
			fileView, parityView = "-", "-"
			if fresh {
				ownOnly = true
			}
			if pi != nil {
				if fresh {
					viol("repair-panic:"+pi.Frame, "%s", pi.Value)
				} else {
					r.Count("decproto_panic_outside_wellformed_use", 1)
				}
				return
			}
			if fresh && k >= failAt && rerr == nil {
				viol("torn-write-not-reported", "file write %d of this Repair failed half-way, but Repair returned nil", failAt)
				return
			}
			pendingRetry = (fresh || pendingRetry) && k >= failAt && l0 <= c0
			r.Count("decproto_interrupted_repairs", 1)
			key += "Rf"
		case dpRepair, dpRepairDC:
			var damaged []string
			for i, p := range paths {
				if b, ok := cur.Get(p); !ok || !bytes.Equal(b, datas[i]) {
					damaged = append(damaged, filepath.Join(root, p))
				}
			}
			lost, capacity := truth()
			wasPendingRetry := pendingRetry
			pendingRetry = false
			before := cur.Snapshot()
			var rp []string
			var rerr error
			pi := core.Catch(func() {
				if d2 != nil {
					rp, rerr = d2.Repair(op == dpRepairDC)
				} else {
					rp, rerr = d1.Repair(op == dpRepairDC)
				}
			})
			// the lists earlier Repair calls on this object returned belong to the caller: still what they were
			for k := range prevLists {
				if fmt.Sprint(prevLists[k]) != prevListsWant[k] {
					viol("result-of-an-earlier-repair-altered", "the list an earlier Repair on this object returned was %s, after this Repair it reads %v", prevListsWant[k], prevLists[k])
					return
				}
			}
			if len(rp) > 0 {
				prevLists = append(prevLists, rp)
				prevListsWant = append(prevListsWant, fmt.Sprint(rp))
			}
			// whatever happened, the directory is now what is on disk
			if c.Disk {
				cur.Files = readTree(root)
			}
			judged := fresh
			fileView, parityView = "-", "-"
			if judged && pi == nil {
				// a completed Repair on fresh tables (successful or refused) leaves the recovery files as they were and has no
				// business with the recovery data the object has loaded: a caller who then reloads only the data files
				// (the recovery files did not change) is using the object as intended
				parityView = view(vols)
				if rerr != nil && len(envfs.Diff(before, cur.Snapshot())) == 0 {
					// a Repair that refused and wrote nothing leaves the object where it was: its picture of the data files
					// is as good as before the call
					fileView = view(paths)
				}
			}
			wasOwnOnly := ownOnly
			if fresh {
				ownOnly = true
			}
			if judged && pi == nil && rerr == nil && d1 != nil {
				// the PAR1 decoder records what it wrote (its file table is updated by Repair), so after a successful
				// Repair its counts / a further Repair are judged without a reload. The PAR2 decoder keeps its
				// pre-repair tables (a second Repair on the same object rewrites the files): unspecified, not judged.
				fileView, parityView = view(paths), view(vols)
			}
			if pi != nil {
				if judged {
					viol("repair-panic:"+pi.Frame, "%s", pi.Value)
				} else {
					r.Count("decproto_panic_outside_wellformed_use", 1)
				}
				return
			}
			key += fmt.Sprintf("R%v", rerr == nil)
			if !judged {
				if wasOwnOnly && rerr == nil {
					// a retry on the same object after its own (possibly interrupted) Repair: success must still be true
					r.Count("decproto_judged_retries", 1)
					for i, p := range paths {
						if b, ok := cur.Get(p); !ok || !bytes.Equal(b, datas[i]) {
							viol("retry-nil-but-files-differ", "a further Repair on the same object (after its own earlier Repair, no other change to the directory) returned nil, but %s is not original", p)
							break
						}
					}
					continue
				}
				if wasOwnOnly && wasPendingRetry && rerr != nil && lost <= capacity && !strings.Contains(rerr.Error(), "singular") {
					// the fault is gone, nothing but this object's own interrupted Repair touched the directory, and what is
					// lost now (torn file included) is within capacity: the retry has to complete
					r.Count("decproto_judged_retries", 1)
					viol("retry-after-write-fault-failed-within-capacity:"+errClass(rerr), "a Repair on fresh tables failed on an injected write fault; the retry on the same object, with the fault gone and lost %d <= capacity %d in the directory as it is now, returned %v", lost, capacity, rerr)
					continue
				}
				r.Count("decproto_unjudged_calls", 1)
				continue
			}
			r.Count("decproto_judged_repairs", 1)
			allOrig := true
			for i, p := range paths {
				b, ok := cur.Get(p)
				if !ok || !bytes.Equal(b, datas[i]) {
					allOrig = false
				}
				pb, pok := before[p]
				if !(ok && bytes.Equal(b, datas[i])) && !(ok == pok && bytes.Equal(b, pb)) {
					viol("repair-made-a-file-worse", "after Repair (err=%v) %s holds neither its previous content nor its original", rerr, p)
				}
			}
			for _, v := range vols {
				pb, pok := before[v]
				b, ok := cur.Get(v)
				if ok != pok || !bytes.Equal(b, pb) {
					viol("repair-changed-recovery-file", "%s changed", v)
				}
			}
			switch {
			case lost <= capacity && rerr != nil && !strings.Contains(rerr.Error(), "singular"):
				viol("repair-failed-within-capacity:"+errClass(rerr), "lost %d <= capacity %d on a freshly loaded object, but Repair returned %v", lost, capacity, rerr)
			case rerr == nil && !allOrig:
				viol("repair-nil-but-files-differ", "Repair returned nil, files are not all original (lost %d, capacity %d)", lost, capacity)
			case rerr == nil:
				sort.Strings(rp)
				sort.Strings(damaged)
				if strings.Join(rp, ",") != strings.Join(damaged, ",") {
					viol("repaired-paths-wrong", "Repair listed %v, the damaged files were %v", rp, damaged)
				}
			}
		}
	}
	r.AddStates(1)
	r.Outcome(c.Fmt + key)
	r.Nontrivial(c.Fmt + fmt.Sprint(seq))
}

var decProtoRefCache = map[int64]*scen.P1Set{}

// decProtoRefSet is a PAR1 set written by the reference writer: a comment in the index volume, an entry that is not
// saved in the parity set (its file is present) between the two saved ones, the second saved file zero-length.
func decProtoRefSet(seed int64) *scen.P1Set {
	if s, ok := decProtoRefCache[seed]; ok {
		return s
	}
	a := scen.Content("uniq", seed, 0, 7, 4)
	x := scen.Content("uniq", seed, 1, 3, 4)
	b := []byte{}
	// two entries that are listed but not saved in the parity set - as many as there are volumes: the list of entries is
	// then as long as the list of shards (saved files + volumes), which is where a capacity sized by one and filled by the
	// other stops hiding
	es := []rpar1.Entry{rpar1.MakeEntry("a.bin", a, true), rpar1.MakeEntry("x.txt", x, false), rpar1.MakeEntry("b.bin", b, true), rpar1.MakeEntry("y.nfo", x[:2], false)}
	s := &scen.P1Set{Cfg: scen.P1Config{Sizes: []int{7, 0}, Volumes: 2}, Dir: "/d", Index: "/d/s.par",
		Names: []string{"a.bin", "b.bin"}, Paths: []string{"/d/a.bin", "/d/b.bin"}, Data: [][]byte{a, b}}
	fs := envfs.New()
	fs.Put("/d/a.bin", a)
	fs.Put("/d/x.txt", x)
	fs.Put("/d/y.nfo", x[:2])
	fs.Put("/d/b.bin", b)
	fs.Put(s.Index, rpar1.Write(0, es, []byte("a comment in the index volume")))
	for v := 1; v <= 2; v++ {
		p := scen.VolPath(s.Index, v)
		fs.Put(p, rpar1.Write(uint64(v), es, rpar1.Parity([][]byte{a, b}, v)))
		s.VolPaths = append(s.VolPaths, p)
	}
	s.FS0 = fs
	decProtoRefCache[seed] = s
	return s
}

var decProtoForeignCache = map[*scen.P2Set]*scen.P2Set{}

// decProtoForeignLayout replaces the recovery files gopar wrote by a conformant foreign layout: arbitrary names whose
// order is not the order of the block numbers, non-contiguous exponents (1500 | 0,1,2 | 7).
func decProtoForeignLayout(s *scen.P2Set) *scen.P2Set {
	if f, ok := decProtoForeignCache[s]; ok {
		return f
	}
	f := *s
	f.FS0 = s.FS0.Clone()
	for _, p := range s.RecFiles {
		f.FS0.Del(p)
	}
	f.RecFiles = nil
	f.RecExps = map[string][]uint32{}
	for _, l := range []struct {
		name string
		exps []uint32
	}{{"/d/s.a part [x].par2", []uint32{1500}}, {"/d/s.b.par2", []uint32{0, 1, 2}}, {"/d/s.c.par2", []uint32{7}}} {
		pk := s.Ref.CorePackets("refwriter")
		for _, e := range l.exps {
			pk = append(pk, s.Ref.RecvPacket(e, s.Ref.RecoveryBlock(int(e))))
		}
		f.FS0.Put(l.name, rpar2.Join(pk...))
		f.RecFiles = append(f.RecFiles, l.name)
		f.RecExps[l.name] = l.exps
	}
	decProtoForeignCache[s] = &f
	return &f
}
