package props

import (
	"bytes"
	"fmt"
	"io/ioutil"
	"os"
	"os/exec"
	"path/filepath"
	"strings"
	"verifh/ref/rpar1"

	"github.com/akalin/gopar/par1"
	"github.com/akalin/gopar/par2"

	"verifh/core"
	"verifh/ref/rpar2"
	"verifh/ref/scan"
	"verifh/scen"
)

// C20: the par command's exit status reflects the outcome.

type c20Case struct {
	Fmt   string   `json:"fmt"`             // p2, p1
	Cmd   []string `json:"cmd"`             // argv template; "{PAR}" = index path as spelled for the cwd, "{F0}".."{F2}" data files, "{MISSING}" a non-existent input
	Class string   `json:"class"`           // verify, repair, create, usage, badext
	State string   `json:"state"`           // intact, deleted, shifted, unrepairable, noparity-intact, noparity-damaged, badindex, noindex
	Cwd   string   `json:"cwd"`             // set, parent, unrelated
	Limit int      `json:"limit,omitempty"` // the first command runs under a file size limit of this many 512-byte blocks (sh: ulimit -f): writes beyond it fail part-way
	Base  string   `json:"base,omitempty"`  // class "named": the whole life of a set whose index file is called <Base>.par2 / <Base>.par (see c20RunNamed)
	Then  []string `json:"then,omitempty"`  // further steps after Cmd on the same directory: v, va, r, rd (commands), del0 / restore (events)
}

var c20P2Sizes = []int{11, 6}
var c20P1Sizes = []int{7, 5, 3}

func c20Gen(g *core.Gen) {
	// index files under other names: dots, a date, a second extension, the name of a recovery file, blanks, a leading dash
	// is left out (it would be an option)
	for _, f := range []string{"p2", "p1"} {
		for _, b := range []string{"backup.2024-05", "movie.mkv", "s.vol00+01", "a.par", "x.par2", "two  blanks", "tr.ailing.", "p01", "UPPER.PAR2"} {
			for _, cw := range []string{"set", "parent", "unrelated"} {
				g.Emit(&c20Case{Fmt: f, Class: "named", Base: b, Cwd: cw})
			}
		}
	}
	states := []string{"intact", "deleted", "shifted", "appended", "shifted+deleted", "unrepairable", "noparity-intact", "noparity-damaged", "noparity-shifted", "oneblock-shifted", "badindex", "noindex",
		// histories: the set was created before with more recovery blocks (stale but valid volumes remain, blocks exist twice); a volume was copied
		// files above 16 KiB (first file 17000 bytes): damage beyond the first 16 KiB, with exactly as much recovery data left as needed
		"big-intact", "big-tail-tight", "big-tail", "big-head-tight",
		// PAR1 only: the set also protects a zero-length file, which is intact / deleted / overwritten with bytes / deleted together with every volume
		"empty-intact", "empty-deleted", "empty-garbage", "empty-deleted-noparity",
		// PAR1 only: a set written by the reference writer whose index also lists two files that are NOT saved in the parity set
		"nonsaved-intact", "nonsaved-deleted",
		// PAR1 only: 253 files + 3 volumes = 256 shards, the most the format's coder takes; 252 and 254 beside it (254 + 3 is refused at create: not emitted)
		"wide253-deleted", "wide252-deleted",
		"recreated-intact", "recreated-deleted", "recreated-shifted+deleted", "recreated-unrepairable", "dupvol-intact", "dupvol-deleted"}
	cwds := []string{"set", "parent", "unrelated"}
	for _, f := range []string{"p2", "p1"} {
		verifyCmds := [][]string{{"verify", "{PAR}"}, {"v", "{PAR}"}, {"VERIFY", "{PAR}"}, {"-g", "2", "verify", "{PAR}"}, {"verify", "-a", "{PAR}"}}
		repairCmds := [][]string{{"repair", "{PAR}"}, {"r", "{PAR}"}, {"Repair", "{PAR}"}, {"repair", "-doublecheck", "{PAR}"}, {"-g", "3", "r", "-doublecheck=true", "{PAR}"}}
		for _, st := range states {
			if f == "p1" && strings.HasPrefix(st, "dupvol") {
				continue // a PAR1 volume's number is part of its name: a copy under another name is a different scenario (C19)
			}
			if f == "p2" && (strings.HasPrefix(st, "empty-") || strings.HasPrefix(st, "nonsaved-") || strings.HasPrefix(st, "wide")) {
				continue // PAR2 Create refuses zero-length inputs
			}
			for _, cw := range cwds {
				for _, c := range verifyCmds {
					g.Emit(&c20Case{Fmt: f, Cmd: c, Class: "verify", State: st, Cwd: cw})
				}
				for _, c := range repairCmds {
					g.Emit(&c20Case{Fmt: f, Cmd: c, Class: "repair", State: st, Cwd: cw})
				}
			}
		}
		// histories of commands: every sequence of 2 (thorough 3) further steps from {verify, verify -a, repair, repair -doublecheck,
		// delete a file, restore all files} after a first verify or repair, from 5 starting states
		thens := []string{"v", "va", "r", "rd", "del0", "restore"}
		depthThen := 2
		if g.Thorough() {
			depthThen = 3
		}
		for _, st := range []string{"deleted", "shifted+deleted", "unrepairable", "noparity-damaged", "recreated-deleted"} {
			for fi, first := range [][]string{{"verify", "{PAR}"}, {"repair", "{PAR}"}} {
				var rec func(cur []string)
				rec = func(cur []string) {
					if len(cur) == depthThen {
						ev := 0
						for _, x := range cur {
							if x == "del0" || x == "restore" {
								ev++
							}
						}
						if ev == len(cur) {
							return // no command in it
						}
						g.Emit(&c20Case{Fmt: f, Cmd: first, Class: []string{"verify", "repair"}[fi], State: st, Cwd: cwds[(len(cur[0])+len(cur[1])+fi)%3], Then: append([]string{}, cur...)})
						return
					}
					for _, x := range thens {
						rec(append(cur, x))
					}
				}
				rec(nil)
			}
		}
		for _, cw := range cwds {
			for _, c := range [][]string{
				{"create", "-s", "4", "-c", "3", "{PAR}", "{F0}", "{F1}"}, {"c", "-c", "2", "-s", "8", "{PAR}", "{F1}", "{F0}"}, {"CREATE", "{PAR}", "{F0}"}, {"-g", "2", "create", "-s", "4", "{PAR}", "{F0}", "{F1}"},
			} {
				g.Emit(&c20Case{Fmt: f, Cmd: c, Class: "create", State: "fresh", Cwd: cw})
			}
			// option values at and beyond their limits: whatever par decides, exit 0 must mean a complete valid set
			for _, c := range [][]string{
				{"create", "-s", "0", "{PAR}", "{F0}"}, {"create", "-s", "6", "{PAR}", "{F0}"}, {"create", "-s", "-4", "{PAR}", "{F0}"}, {"create", "-s", "1048576", "{PAR}", "{F0}"},
				{"create", "-s", "4", "-c", "0", "{PAR}", "{F0}"}, {"create", "-s", "4", "-c", "-1", "{PAR}", "{F0}"}, {"create", "-s", "4", "-c", "255", "{PAR}", "{F0}", "{F1}"}, {"create", "-s", "4", "-c", "256", "{PAR}", "{F0}", "{F1}"},
				{"create", "-s", "4", "-c", "32768", "{PAR}", "{F0}"}, {"create", "-s", "4", "-c", "65536", "{PAR}", "{F0}"}, {"create", "-s", "4", "-c", "65535", "{PAR}", "{F0}"}, {"create", "-s", "4", "-c", "65534", "{PAR}", "{F0}"}, {"create", "-s", "4", "-c", "100", "{PAR}", "{F0}", "{F1}"},
				{"-g", "0", "create", "-s", "4", "{PAR}", "{F0}", "{F1}"}, {"-g", "-3", "create", "-s", "4", "{PAR}", "{F0}", "{F1}"}, {"-g", "100000", "create", "-s", "4", "{PAR}", "{F0}", "{F1}"},
				{"create", "-s", "4", "{PAR}", "{F0}", "{LK0}", "{LK1}", "{LK2}"}, {"create", "-s", "4", "{PAR}", "{LK0}", "{F1}"}, {"create", "-s", "4", "{PAR}", "{LK2}", "{LK1}"},
				{"create", "-s", "4", "{PAR}", "{GL0}", "{F1}"}, {"create", "-s", "4", "{PAR}", "{GL1}", "{F0}"}, {"create", "-s", "4", "{PAR}", "{GL2}"},
				{"create", "-s", "4", "{PAR}", "{F0}", "{F0}"}, {"create", "-s", "4", "{PAR}", "{PAR}"}, {"create", "-s", "4", "{PAR}"},
			} {
				g.Emit(&c20Case{Fmt: f, Cmd: c, Class: "create", State: "boundary", Cwd: cw})
			}
			g.Emit(&c20Case{Fmt: f, Cmd: []string{"create", "-s", "4", "{PAR}", "{F0}", "{MISSING}"}, Class: "create", State: "missing-input", Cwd: cw})
			g.Emit(&c20Case{Fmt: f, Cmd: []string{"create", "-s", "4", "{NODIR}", "{F0}"}, Class: "create", State: "no-directory", Cwd: cw})
			// an output file cannot be written: a directory sits at the path of the index / first / last recovery file
			// a Create that runs into a file size limit (every limit that cuts a different file or a different place), then
			// the same Create without the limit, then verify and repair: whatever the interrupted run left behind must not
			// break the set written afterwards
			for _, lim := range []int{1, 2, 3, 4, 6, 8, 16, 32, 40} {
				for _, then := range [][]string{{"c", "v"}, {"c", "del0", "r", "v"}} {
					g.Emit(&c20Case{Fmt: f, Cmd: []string{"create", "-s", "1000", "-c", "3", "{PAR}", "{F0}", "{F1}"}, Class: "create", State: "biglimit", Cwd: cw, Limit: lim, Then: then})
				}
			}
			for _, st := range []string{"blocked-index", "blocked-first-volume", "blocked-last-volume"} {
				g.Emit(&c20Case{Fmt: f, Cmd: []string{"create", "-s", "4", "-c", "3", "{PAR}", "{F0}", "{F1}"}, Class: "create", State: st, Cwd: cw})
			}
			for _, c := range [][]string{
				{}, {"verify"}, {"repair"}, {"create"}, {"create", "{PAR}"}, {"frobnicate", "{PAR}"}, {"verify", "-zzz", "{PAR}"}, {"-zzz", "verify", "{PAR}"}, {"create", "-s", "x", "{PAR}", "{F0}"}, {"repair", "-doublecheck=maybe", "{PAR}"}, {"-g", "verify", "{PAR}"},
			} {
				g.Emit(&c20Case{Fmt: f, Cmd: c, Class: "usage", State: "intact", Cwd: cw})
			}
			// words that are NOT commands but sit next to one: the empty word, blanks, every proper prefix of length >= 2,
			// a command with one more letter, a doubled initial, a command with a blank before / after it
			for _, w := range []string{"", " ", "-", "cr", "cre", "crea", "creat", "createx", "cc", "c ", " c", "ve", "ver", "veri", "verif", "verifyy", "vv", " v", "re", "rep", "repa", "repai", "repairr", "rr", "r ", "x", "create ", " verify", "v\n"} {
				g.Emit(&c20Case{Fmt: f, Cmd: []string{w, "{PAR}", "{F0}", "{F1}"}, Class: "usage", State: "intact", Cwd: cw})
			}
			for _, c := range [][]string{{"verify", "{ZIP}"}, {"repair", "{ZIP}"}, {"create", "{ZIP}", "{F0}"}, {"verify", "{NOEXT}"}} {
				g.Emit(&c20Case{Fmt: f, Cmd: c, Class: "badext", State: "intact", Cwd: cw})
			}
		}
	}
}

var c20Seq int

// c20RunNamed: create, verify, lose a file, verify, repair, verify, lose the recovery data and a file, verify, repair - for
// an index file whose base name has dots, blanks or looks like a member of a set. The format is chosen by the
// extension, whatever stands in front of it.
func c20RunNamed(c *c20Case, bin string, r *core.Rec) {
	c20Seq++
	root := filepath.Join(workerScratch(), fmt.Sprintf("c20n-%d", c20Seq))
	os.RemoveAll(root)
	defer os.RemoveAll(root)
	setDir := filepath.Join(root, "parent", "set")
	os.MkdirAll(setDir, 0755)
	ext := map[string]string{"p2": ".par2", "p1": ".par"}[c.Fmt]
	var datas [][]byte
	for i, n := range []int{11, 6, 9} {
		d := scen.Content("uniq", r.Seed, i, n, 4)
		datas = append(datas, d)
		ioutil.WriteFile(filepath.Join(setDir, fmt.Sprintf("f%d", i)), d, 0644)
	}
	cwd, idx, pre := setDir, c.Base+ext, ""
	switch c.Cwd {
	case "parent":
		cwd, idx, pre = filepath.Dir(setDir), filepath.Join("set", c.Base+ext), "set/"
	case "unrelated":
		cwd, idx, pre = root, filepath.Join(setDir, c.Base+ext), setDir+"/"
	}
	run := func(args ...string) (int, string) {
		cmd := exec.Command(bin, args...)
		cmd.Dir = cwd
		var outb bytes.Buffer
		cmd.Stdout, cmd.Stderr = &outb, &outb
		err := cmd.Run()
		r.AddTransitions(1)
		if ee, ok := err.(*exec.ExitError); ok {
			return ee.ExitCode(), outb.String()
		} else if err != nil {
			return -1, err.Error()
		}
		return 0, outb.String()
	}
	expect := func(step string, want int, args ...string) bool {
		code, out := run(args...)
		if strings.Contains(out, "goroutine ") && strings.Contains(out, "panic") {
			r.Violatef("par-panicked", "index %q, %s: %s", c.Base+ext, step, out)
			return false
		}
		if code != want {
			r.Violatef("exit-status-wrong-for-named-index", "index %q (cwd %s), %s: par %v exited %d, want %d\n%s", c.Base+ext, c.Cwd, step, args, code, want, out)
			return false
		}
		return true
	}
	cargs := []string{"c", "-s", "4", "-c", "3", idx, pre + "f0", pre + "f1", pre + "f2"}
	if c.Fmt == "p1" {
		cargs = []string{"c", "-c", "2", idx, pre + "f0", pre + "f1", pre + "f2"}
	}
	if !expect("create", 0, cargs...) || !expect("verify after create", 0, "v", idx) {
		return
	}
	os.Remove(filepath.Join(setDir, "f1"))
	if !expect("verify with one file lost", 1, "v", idx) || !expect("repair", 0, "r", idx) || !expect("verify after repair", 0, "v", idx) {
		return
	}
	if b, _ := ioutil.ReadFile(filepath.Join(setDir, "f1")); !bytes.Equal(b, datas[1]) {
		r.Violatef("repair-exit-0-but-file-not-restored", "index %q: f1 differs after repair", c.Base+ext)
		return
	}
	// every file of the set except the index and the data files goes; then a data file
	ents, _ := ioutil.ReadDir(setDir)
	for _, e := range ents {
		if n := e.Name(); n != c.Base+ext && n != "f0" && n != "f1" && n != "f2" {
			os.Remove(filepath.Join(setDir, n))
		}
	}
	os.Remove(filepath.Join(setDir, "f0"))
	if !expect("verify without recovery data, one file lost", 2, "v", idx) || !expect("repair without recovery data", 2, "r", idx) {
		return
	}
	r.AddStates(8)
	r.Outcome("named " + c.Fmt)
	r.NontrivialCase()
}

func c20Run(ci interface{}, r *core.Rec) {
	c := ci.(*c20Case)
	bin := os.Getenv("VERIF_PAR_BIN")
	if bin == "" {
		r.Violate("harness:no-par-binary", "VERIF_PAR_BIN not set")
		return
	}
	if c.Class == "named" {
		c20RunNamed(c, bin, r)
		return
	}
	c20Seq++
	root := filepath.Join(workerScratch(), fmt.Sprintf("c20-%d", c20Seq))
	os.RemoveAll(root)
	defer os.RemoveAll(root)
	setDir := filepath.Join(root, "parent", "set")
	unrelated := filepath.Join(root, "else", "where")
	os.MkdirAll(setDir, 0755)
	os.MkdirAll(unrelated, 0755)
	sizes := c20P2Sizes
	ext := ".par2"
	if c.Fmt == "p1" {
		sizes = c20P1Sizes
		ext = ".par"
	}
	if strings.HasPrefix(c.State, "big") {
		sizes = append([]int{17000}, sizes...)
	}
	if strings.HasPrefix(c.State, "empty-") {
		sizes = append(append([]int{}, sizes...), 0)
	}
	p1Volumes := 2
	if strings.HasPrefix(c.State, "wide") {
		nf := 253
		fmt.Sscanf(c.State, "wide%d-", &nf)
		sizes = nil
		for i := 0; i < nf; i++ {
			sizes = append(sizes, 1+i%4)
		}
		p1Volumes = 3
	}
	var paths []string
	var datas [][]byte
	for i, n := range sizes {
		p := filepath.Join(setDir, fmt.Sprintf("f%d", i))
		d := scen.Content("uniq", r.Seed, i, n, 4)
		ioutil.WriteFile(p, d, 0644)
		paths = append(paths, p)
		datas = append(datas, d)
	}
	index := filepath.Join(setDir, "s"+ext)
	// data files whose names look like members of the set (index base + ".p...", ".par2...", ".vol...")
	lookalikes := map[string][]byte{}
	// data files whose names are glob patterns that match their neighbours (f[0] beside f0, f? beside f0 and f1, * beside
	// everything): the name on the command line is a name
	for i, n := range []string{"f[0]", "f?", "*"} {
		for _, a := range c.Cmd {
			if a == fmt.Sprintf("{GL%d}", i) {
				d := scen.Content("uniq", r.Seed, 30+i, 10+i, 4)
				ioutil.WriteFile(filepath.Join(setDir, n), d, 0644)
				lookalikes[filepath.Join(setDir, n)] = d
			}
		}
	}
	for i, n := range []string{"s.pdf", "s.par2.txt", "s.vol-notes"} {
		usesIt := false
		for _, a := range c.Cmd {
			if a == fmt.Sprintf("{LK%d}", i) {
				usesIt = true
			}
		}
		if usesIt {
			d := scen.Content("uniq", r.Seed, 20+i, 9+i, 4)
			ioutil.WriteFile(filepath.Join(setDir, n), d, 0644)
			lookalikes[filepath.Join(setDir, n)] = d
		}
	}
	if c.Class != "create" {
		var err error
		if strings.HasPrefix(c.State, "recreated") {
			// an earlier run protected the same files with more recovery blocks; its extra volumes stay behind
			if c.Fmt == "p2" {
				err = par2.Create(index, paths, par2.CreateOptions{SliceByteCount: 4, NumParityShards: 5, NumGoroutines: 1})
			} else {
				err = par1.Create(index, paths, par1.CreateOptions{NumParityFiles: 4})
			}
			if err != nil {
				r.Violatef("setup-create-failed:"+errClass(err), "%v", err)
				return
			}
		}
		if strings.HasPrefix(c.State, "nonsaved-") {
			var es []rpar1.Entry
			for i, p := range paths {
				es = append(es, rpar1.MakeEntry(filepath.Base(p), datas[i], true))
				if i == 0 {
					es = append(es, rpar1.MakeEntry("notes.sfv", []byte("listed, not saved"), false))
				}
			}
			es = append(es, rpar1.MakeEntry("extra.nfo", []byte("x"), false))
			ioutil.WriteFile(filepath.Join(setDir, "notes.sfv"), []byte("listed, not saved"), 0644)
			ioutil.WriteFile(filepath.Join(setDir, "extra.nfo"), []byte("x"), 0644)
			ioutil.WriteFile(index, rpar1.Write(0, es, nil), 0644)
			for v := 1; v <= 2; v++ {
				ioutil.WriteFile(filepath.Join(setDir, fmt.Sprintf("s.p%02d", v)), rpar1.Write(uint64(v), es, rpar1.Parity(datas, v)), 0644)
			}
		} else if c.Fmt == "p2" {
			err = par2.Create(index, paths, par2.CreateOptions{SliceByteCount: 4, NumParityShards: 3, NumGoroutines: 1})
		} else {
			err = par1.Create(index, paths, par1.CreateOptions{NumParityFiles: p1Volumes})
		}
		if err != nil {
			r.Violatef("setup-create-failed:"+errClass(err), "%v", err)
			return
		}
	}
	recFiles := func() []string {
		var out []string
		ents, _ := ioutil.ReadDir(setDir)
		for _, e := range ents {
			n := e.Name()
			if strings.HasPrefix(n, "s.") && n != "s"+ext {
				out = append(out, filepath.Join(setDir, n))
			}
		}
		return out
	}
	blockedPath := ""
	switch c.State {
	case "blocked-index":
		blockedPath = index
	case "blocked-first-volume":
		blockedPath = filepath.Join(setDir, "s.vol00+01.par2")
		if c.Fmt == "p1" {
			blockedPath = filepath.Join(setDir, "s.p01")
		}
	case "blocked-last-volume":
		blockedPath = filepath.Join(setDir, "s.vol01+02.par2")
		if c.Fmt == "p1" {
			blockedPath = filepath.Join(setDir, "s.p03")
		}
	}
	if blockedPath != "" {
		os.MkdirAll(filepath.Join(blockedPath, "occupied"), 0755)
	}
	if strings.HasPrefix(c.State, "dupvol") {
		for i, p := range recFiles() {
			b, _ := ioutil.ReadFile(p)
			ioutil.WriteFile(filepath.Join(setDir, fmt.Sprintf("s.copy%d.par2", i)), b, 0644)
		}
	}
	if strings.HasPrefix(c.State, "big-") && c.State != "big-intact" {
		b := append([]byte{}, datas[0]...)
		if c.State == "big-head-tight" {
			b[5] ^= 0x11
		} else {
			b[16500] ^= 0x11
		}
		ioutil.WriteFile(paths[0], b, 0644)
		if strings.HasSuffix(c.State, "-tight") {
			// leave exactly one recovery block / volume: the first recovery file (PAR2: s.vol00+01 holds one block)
			for i, p := range recFiles() {
				if i > 0 {
					os.Remove(p)
				}
			}
		}
	}
	switch c.State {
	case "nonsaved-deleted", "wide253-deleted", "wide252-deleted":
		os.Remove(paths[1])
	case "empty-deleted":
		os.Remove(paths[len(paths)-1])
	case "empty-garbage":
		ioutil.WriteFile(paths[len(paths)-1], []byte("garbage"), 0644)
	case "empty-deleted-noparity":
		os.Remove(paths[len(paths)-1])
		for _, p := range recFiles() {
			os.Remove(p)
		}
	case "deleted", "recreated-deleted", "dupvol-deleted":
		os.Remove(paths[1])
	case "shifted":
		if c.Fmt == "p2" {
			ioutil.WriteFile(paths[0], append([]byte{0xEE}, datas[0]...), 0644)
		} else {
			b := append([]byte{}, datas[0]...)
			b[0] ^= 0x80
			ioutil.WriteFile(paths[0], b, 0644)
		}
	case "appended":
		ioutil.WriteFile(paths[0], append(append([]byte{}, datas[0]...), 0xC3, 0xC4), 0644)
	case "shifted+deleted", "recreated-shifted+deleted":
		os.Remove(paths[1])
		if c.Fmt == "p2" {
			ioutil.WriteFile(paths[0], append([]byte{0xEE}, datas[0]...), 0644)
		} else {
			ioutil.WriteFile(paths[0], append([]byte{0xEE}, datas[0]...), 0644)
		}
	case "noparity-shifted", "oneblock-shifted":
		// only displacement / length damage: every slice is still findable, so no recovery block is needed (PAR2)
		for i, p := range recFiles() {
			if c.State == "noparity-shifted" || i > 0 {
				os.Remove(p)
			}
		}
		ioutil.WriteFile(paths[0], append([]byte{0xEE}, datas[0]...), 0644)
	case "unrepairable", "recreated-unrepairable":
		for _, p := range paths {
			os.Remove(p)
		}
	case "noparity-intact":
		for _, p := range recFiles() {
			os.Remove(p)
		}
	case "noparity-damaged":
		for _, p := range recFiles() {
			os.Remove(p)
		}
		os.Remove(paths[1])
	case "badindex":
		b, _ := ioutil.ReadFile(index)
		b[len(b)/2] ^= 0x20
		ioutil.WriteFile(index, b, 0644)
	case "noindex":
		os.Remove(index)
	}
	curLimit := 0
	step := func(cmdT []string, cls string) {
		// reference truth about the state
		allIntact := func() bool {
			for i, p := range paths {
				b, err := ioutil.ReadFile(p)
				if err != nil || !bytes.Equal(b, datas[i]) {
					return false
				}
			}
			return true
		}
		needed := !allIntact()
		possible := true
		if c.Fmt == "p2" {
			var specs []rpar2.FileSpec
			for i := range paths {
				specs = append(specs, rpar2.FileSpec{Name: fmt.Sprintf("f%d", i), Data: datas[i]})
			}
			set := rpar2.NewSet(4, specs)
			var surv [][]byte
			for _, p := range paths {
				if b, err := ioutil.ReadFile(p); err == nil {
					surv = append(surv, b)
				}
			}
			k := scan.Scan(set.AllSlices(), 4, surv).CountMissing()
			blocks := map[uint32]bool{} // distinct intact recovery blocks
			for _, p := range recFiles() {
				b, _ := ioutil.ReadFile(p)
				for _, e := range scen.IntactExponents(b, set.SetID, 4) {
					blocks[e] = true
				}
			}
			possible = k <= len(blocks)
		} else {
			un := 0
			for i, p := range paths {
				b, err := ioutil.ReadFile(p)
				if err != nil || !bytes.Equal(b, datas[i]) {
					un++
				}
			}
			possible = un <= len(recFiles())
		}

		cwd := setDir
		switch c.Cwd {
		case "parent":
			cwd = filepath.Dir(setDir)
		case "unrelated":
			cwd = unrelated
		}
		spell := func(abs string) string {
			if c.Cwd == "unrelated" {
				return abs
			}
			rel, _ := filepath.Rel(cwd, abs)
			return rel
		}
		var argv []string
		for _, a := range cmdT {
			switch a {
			case "{PAR}":
				a = spell(index)
			case "{F0}":
				a = spell(paths[0])
			case "{F1}":
				a = spell(paths[1])
			case "{GL0}":
				a = spell(filepath.Join(setDir, "f[0]"))
			case "{GL1}":
				a = spell(filepath.Join(setDir, "f?"))
			case "{GL2}":
				a = spell(filepath.Join(setDir, "*"))
			case "{LK0}":
				a = spell(filepath.Join(setDir, "s.pdf"))
			case "{LK1}":
				a = spell(filepath.Join(setDir, "s.par2.txt"))
			case "{LK2}":
				a = spell(filepath.Join(setDir, "s.vol-notes"))
			case "{MISSING}":
				a = spell(filepath.Join(setDir, "does-not-exist"))
			case "{NODIR}":
				a = spell(filepath.Join(setDir, "no", "such", "dir", "s"+ext))
			case "{ZIP}":
				a = spell(filepath.Join(setDir, "s.zip"))
			case "{NOEXT}":
				a = spell(filepath.Join(setDir, "s"))
			}
			argv = append(argv, a)
		}
		before := snapTree(root)
		cmd := exec.Command(bin, argv...)
		if curLimit > 0 {
			cmd = exec.Command("sh", append([]string{"-c", fmt.Sprintf(`ulimit -f %d; exec "$0" "$@"`, curLimit), bin}, argv...)...)
		}
		cmd.Dir = cwd
		var outb bytes.Buffer
		cmd.Stdout = &outb
		cmd.Stderr = &outb
		err := cmd.Run()
		code := 0
		if ee, ok := err.(*exec.ExitError); ok {
			code = ee.ExitCode()
		} else if err != nil {
			r.Violatef("harness:cannot-run-par", "%v", err)
			return
		}
		r.AddStates(1)
		r.AddTransitions(1)
		out := outb.String()
		what := fmt.Sprintf("par %v (cwd=%s, state=%s, %s): exit %d", argv, c.Cwd, c.State, c.Fmt, code)
		r.Outcome(fmt.Sprintf("%s %s %s %d", c.Fmt, cls, c.State, code))
		if strings.Contains(out, "goroutine ") && strings.Contains(out, "panic:") {
			r.Violatef("par-panicked", "%s\n%s", what, tailOf(out, 1500))
			return
		}
		after := snapTree(root)
		fail := func(sig string) { r.Violatef(sig, "%s\n%s", what, tailOf(out, 600)) }
		switch cls {
		case "usage":
			if code != 3 {
				fail("usage-error-not-exit-3")
			}
		case "badext":
			if code == 0 || code == 3 {
				fail("failure-exit-status-wrong")
			}
		case "verify":
			if c.State == "badindex" || c.State == "noindex" {
				if code == 0 || code == 3 {
					fail("failure-exit-status-wrong")
				}
				break
			}
			if code == 0 && needed {
				fail("verify-exit-0-but-damaged")
			}
			if needed && possible && code != 1 {
				fail("verify-needed-possible-not-exit-1")
			}
			if needed && !possible && code != 2 {
				fail("verify-needed-impossible-not-exit-2")
			}
			if !needed && code != 0 {
				fail("verify-intact-not-exit-0")
			}
			if d := diffTree(before, after); len(d) > 0 {
				fail("verify-changed-files")
			}
		case "repair":
			if c.State == "badindex" || c.State == "noindex" {
				if code == 0 || code == 3 {
					fail("failure-exit-status-wrong")
				}
				break
			}
			if code == 0 && !allIntact() {
				fail("repair-exit-0-but-still-damaged")
			}
			if needed && !possible && code != 2 {
				fail("repair-needed-impossible-not-exit-2")
			}
			if (!needed || possible) && code != 0 {
				// repair possible (or nothing to do) must succeed: the only excuse would be a singular system, impossible with contiguous blocks
				fail("repair-possible-but-failed")
			}
		case "create":
			if strings.HasPrefix(c.State, "blocked-") || c.State == "boundary" || c.State == "biglimit" {
				// whichever names Create chose, exit 0 is acceptable only if the written set is complete (checked below);
				// with the conventional names the blocked path makes one write fail, which must not exit 0
				if code == 3 && c.State != "boundary" { // a boundary option value may legitimately be a usage error
					fail("failure-exit-status-wrong")
					break
				}
				if code != 0 {
					break
				}
			} else if c.State != "fresh" {
				if code == 0 || code == 3 {
					fail("failure-exit-status-wrong")
				}
				break
			}
			if code != 0 {
				fail("create-failed")
				break
			}
			// the set must exist relative to the invocation directory and verify clean
			if _, err := os.Stat(index); err != nil {
				fail("create-exit-0-but-no-index-at-expected-path")
				break
			}
			var verr error
			clean := false
			// the number of recovery blocks / volumes asked for (-c N, default 3) must all be there
			want := 3
			for i, a := range cmdT {
				if a == "-c" && i+1 < len(cmdT) {
					fmt.Sscan(cmdT[i+1], &want)
				}
			}
			// at least the requested number of blocks / volumes (par treats -c 0 as 'default' for PAR1; a negative count cannot be met literally)
			if c.Fmt == "p1" && want > 99 {
				want = 99 // gopar's PAR1 reader looks for .p01 .. .p99 only (documented TODO); further volumes are written but not counted
			}
			if c.Fmt == "p2" {
				res, e := par2.Verify(index, par2.VerifyOptions{NumGoroutines: 1})
				verr, clean = e, e == nil && !res.ShardCounts.RepairNeeded() && res.ShardCounts.UsableParityShardCount >= want
			} else {
				res, e := par1.Verify(index, par1.VerifyOptions{VerifyAllData: true})
				verr, clean = e, e == nil && res.AllDataOk && res.FileCounts.UsableParityFileCount >= want
			}
			if !clean {
				r.Violatef("create-exit-0-but-set-not-valid", "%s; library Verify: %v", what, verr)
			}
			// every input file named on the command line must be protected by the set: take each away in turn
			var inputs []string
			for i, a := range cmdT {
				switch a {
				case "{F0}":
					inputs = append(inputs, paths[0])
				case "{F1}":
					inputs = append(inputs, paths[1])
				case "{GL0}", "{GL1}", "{GL2}":
					inputs = append(inputs, filepath.Join(setDir, map[string]string{"{GL0}": "f[0]", "{GL1}": "f?", "{GL2}": "*"}[a]))
				case "{LK0}", "{LK1}", "{LK2}":
					_ = i
					inputs = append(inputs, filepath.Join(setDir, map[string]string{"{LK0}": "s.pdf", "{LK1}": "s.par2.txt", "{LK2}": "s.vol-notes"}[a]))
				}
			}
			for _, in := range inputs {
				b, rerr := ioutil.ReadFile(in)
				if rerr != nil {
					continue
				}
				os.Remove(in)
				needed := true
				if c.Fmt == "p2" {
					if res, e := par2.Verify(index, par2.VerifyOptions{NumGoroutines: 1}); e == nil {
						needed = res.ShardCounts.RepairNeeded()
					}
				} else {
					if res, e := par1.Verify(index, par1.VerifyOptions{}); e == nil {
						needed = res.FileCounts.RepairNeeded()
					}
				}
				ioutil.WriteFile(in, b, 0644)
				if !needed {
					r.Violatef("create-exit-0-but-an-input-is-not-protected", "%s: with %s taken away the new set still verifies clean", what, in)
				}
			}
			after = snapTree(root)
			for p := range after {
				if _, ok := before[p]; !ok && !strings.HasPrefix(p, setDir+"/s.") {
					r.Violatef("create-wrote-unexpected-file", "%s created %s", what, p)
				}
			}
		}

	}
	curLimit = c.Limit
	step(c.Cmd, c.Class)
	curLimit = 0
	// history: further commands on the directory as the previous one left it, each judged against the truth at that moment
	for _, k := range c.Then {
		switch k {
		case "c":
			step(c.Cmd, "create") // the first command again, without any limit
		case "v":
			step([]string{"verify", "{PAR}"}, "verify")
		case "va":
			step([]string{"verify", "-a", "{PAR}"}, "verify")
		case "r":
			step([]string{"repair", "{PAR}"}, "repair")
		case "rd":
			step([]string{"repair", "-doublecheck", "{PAR}"}, "repair")
		case "del0":
			os.Remove(paths[0])
		case "restore":
			for i, p := range paths {
				ioutil.WriteFile(p, datas[i], 0644)
			}
		}
	}
	if c.Class != "usage" && c.Class != "badext" {
		r.NontrivialCase()
	}
}

func diffTree(a, b map[string]string) []string {
	var d []string
	for p, v := range a {
		if w, ok := b[p]; !ok || w != v {
			d = append(d, p)
		}
	}
	for p := range b {
		if _, ok := a[p]; !ok {
			d = append(d, p)
		}
	}
	return d
}

func init() {
	core.Register(&core.Prop{
		ID:    "C20",
		Level: "model_checking",
		Rule: "(plus the whole life of sets whose index file has one of 9 other base names - dots, a date, a second extension, named like a recovery file - from three working directories: create, verify, lose a file, verify, repair, verify, lose the recovery data, verify, repair) full product through the built par binary: {PAR1, PAR2} x {verify, v, VERIFY, -g 2 verify, verify -a; repair, r, Repair, repair -doublecheck, -g 3 r -doublecheck=true} x archive state {intact, repairable by deletion, by shift/change, by removing appended bytes, shift+deletion, unrepairable, no parity (data intact / file deleted / file only shifted), one block left + shift, damaged index, missing index, (PAR1) a zero-length protected file intact / deleted / overwritten / deleted together with all volumes, a 17000-byte first file intact / damaged beyond or within its first 16 KiB with exactly one recovery block (volume) left or with all} x invocation directory {set directory with relative paths, parent with relative paths, unrelated with absolute paths}; command histories: a first verify / repair followed by every sequence of 2 (thorough 3) further steps from {verify, verify -a, repair, repair -doublecheck, delete a file, restore all files} from 5 starting states, every command judged against the byte truth at that moment; create variants (incl. option values at and beyond their limits - slice size 0 / 6 / negative / 2^20, block count 0 / -1 / 255 / 256 / 32768 / 65534 / 65535 / 65536, goroutines 0 / negative / 100000, an input listed twice, the index as its own input, no input, inputs whose names look like members of the set (s.pdf, s.par2.txt, s.vol-notes): there only 'exit 0 => complete valid set' is judged -; missing input, missing directory, an output path blocked by a directory: index, first and last recovery file; a Create cut short by a file size limit of 1..40 blocks, then repeated without the limit, then verify / delete a file + repair + verify), 11 usage-error command lines plus 29 near-command words (the empty word, blanks, proper prefixes, one letter too many, padded with blanks), unknown extensions. " +
			"Oracle (one-directional, as stated): exit 0 => full success by byte truth / library re-verification (for create also: taking any one input away makes the new set need repair); verify needed&possible => 1, needed&impossible => 2; repair needed&impossible => 2, possible => 0 and files restored; usage => 3; other failures => neither 0 nor 3; no Go panic; files created relative to the invocation directory. non-trivial = verify/repair/create runs",
		Assumptions: []string{"'needed' = some protected file not byte-identical; 'possible' = reference count of unfindable slices (unusable files) <= intact recovery blocks (volumes) present"},
		NewCase:     func() interface{} { return &c20Case{} },
		Gen:         c20Gen,
		Run:         c20Run,
	})
}
