package props

import (
	"bytes"
	"encoding/binary"
	"fmt"
	"runtime"
	"strings"
	"sync"
	"time"
	"sync/atomic"

	"github.com/akalin/gopar/gf2p16"
	"github.com/akalin/gopar/par2"
	"github.com/akalin/gopar/rsec16"

	"verifh/core"
	"verifh/envfs"
	"verifh/ref/rpar2"
	"verifh/scen"
)

// C12: coding results do not depend on goroutine count or scheduling.

type c12Case struct {
	Kind string `json:"kind"` // partition, par2g, race, sched
	// partition / race
	Len   int `json:"len,omitempty"`
	D     int `json:"d,omitempty"`
	P     int `json:"p,omitempty"`
	GLo   int `json:"glo,omitempty"`
	GHi   int `json:"ghi,omitempty"`
	Procs int `json:"procs,omitempty"`
	// sched
	Op      string `json:"op,omitempty"` // encode, reconstruct
	G       int    `json:"g,omitempty"`
	Gran    string `json:"gran,omitempty"`  // kernel, stmt
	Bound   int    `json:"bound,omitempty"` // preemption bound (-1 = unbounded)
	Prefix  []int  `json:"prefix,omitempty"`
	Split   int    `json:"split,omitempty"`
	Sparse  int    `json:"sparse,omitempty"`  // low-entropy shards, see c12Sparsify
	Odd     bool   `json:"odd,omitempty"`     // every input shard is a sub-slice starting at an odd offset of a larger buffer (as slices found displaced in a damaged file are)
	NoSSSE3 bool   `json:"nossse3,omitempty"` // partition / par2g with the SSSE3 dispatch flag forced off
}

// c12SchedRun / c12SchedGen are provided by the overlay (vsched) build.
var c12SchedRun func(c *c12Case, r *core.Rec)
var c12SchedGen func(g *core.Gen)

func c12Code(d, p, g int) rsec16.Coder {
	c, err := rsec16.NewCoderPAR2Vandermonde(d, p, g)
	if err != nil {
		panic(err)
	}
	return c
}

// c12Displace returns copies of the shards that start at an odd address and have spare capacity behind them.
func c12Displace(sh [][]byte) [][]byte {
	out := make([][]byte, len(sh))
	for i, s := range sh {
		if s == nil {
			continue
		}
		buf := make([]byte, len(s)+19)
		copy(buf[1:], s)
		out[i] = buf[1 : 1+len(s)]
	}
	return out
}

// c12Body runs encode + reconstruct with g goroutines and compares with
// the single-goroutine result.
func c12Body(r *core.Rec, seed int64, d, p, length, g int, odd bool) bool {
	return c12BodyS(r, seed, d, p, length, g, odd, 0)
}

// c12Sparsify: low-entropy shards. 1: shards 1.. are zero except their first and last word; 2: every shard is zero
// except its last word; 3: the middle half of every shard is zero; 4: shards 1.. are zero except the last word of
// every 16-byte block and the last word of the shard. Any shortcut taken for "empty" stretches of input has to be
// taken identically for every partition of the shard among goroutines.
func c12Sparsify(data [][]byte, sparse int) {
	for i, sh := range data {
		n := len(sh)
		if n < 4 {
			continue
		}
		switch sparse {
		case 1:
			if i >= 1 {
				for k := 2; k < n-2; k++ {
					sh[k] = 0
				}
				sh[n-1] |= 1
			}
		case 2:
			for k := 0; k < n-2; k++ {
				sh[k] = 0
			}
			sh[n-1] |= 1
		case 3:
			for k := n / 4; k < 3*n/4; k++ {
				sh[k] = 0
			}
		case 4:
			if i >= 1 {
				for k := 0; k < n-2; k++ {
					if k%16 < 14 {
						sh[k] = 0
					}
				}
				sh[n-1] |= 1
			}
		}
	}
}

func c12BodyS(r *core.Rec, seed int64, d, p, length, g int, odd bool, sparse int) bool {
	data := c07Data(seed, d, length)
	c12Sparsify(data, sparse)
	// sparse == 5: the data shards are consecutive sub-slices of ONE buffer, each with capacity reaching over the shards
	// behind it (as the slices of a file are when they are cut out of the file's bytes); the buffer must be what it was
	// after every call
	var whole, wholeCopy []byte
	if sparse == 5 {
		whole = make([]byte, 0, d*length+64)
		for _, sh := range data {
			whole = append(whole, sh...)
		}
		whole = append(whole, bytes.Repeat([]byte{0xEE}, 64)...)
		wholeCopy = append([]byte{}, whole...)
		for i := range data {
			data[i] = whole[i*length : (i+1)*length]
		}
		defer func() {
			if !bytes.Equal(whole, wholeCopy) {
				r.Violatef("input-buffer-modified", "d=%d p=%d len=%d g=%d: the buffer the data shards were cut from was written to", d, p, length, g)
			}
		}()
	}
	ref := c12Code(d, p, 1).GenerateParity(data)
	if odd {
		data = c12Displace(data)
	}
	coder := c12Code(d, p, g)
	// every other length: the coder has a history of three refused calls (nothing to reconstruct from) before it is
	// used - what such calls leave behind in the coder must not depend on, or interfere with, the goroutine count
	if (length/2)%2 == 1 {
		for k := 0; k < 3; k++ {
			var ferr error
			if pi := core.Catch(func() { ferr = coder.ReconstructData(make([][]byte, d), make([][]byte, p)) }); pi != nil {
				r.Violatef("reconstruct-panic:"+pi.Frame, "d=%d p=%d g=%d, call with nothing present: %s", d, p, g, pi.Value)
				return false
			}
			if ferr == nil {
				r.Violatef("reconstruct-nil-with-nothing-present", "d=%d p=%d g=%d", d, p, g)
				return false
			}
		}
	}
	// the other lengths: the coder has just been used - with the same goroutine count - on shards of a neighbouring length
	// that falls into the same number of 16-byte units (and once with one goroutine in between): whatever is remembered
	// about the partition of the previous call must not be applied to this one
	if (length/2)%2 == 0 && length >= 4 {
		nb := length - length%16 + (length%16+8)%16
		if nb < 2 {
			nb = 2
		}
		if nb != length && (nb+15)/16 == (length+15)/16 {
			other := c07Data(seed+1, d, nb)
			core.Catch(func() { coder.GenerateParity(other) })
			core.Catch(func() { c12Code(d, p, 1).GenerateParity(other) })
		}
	}
	var par [][]byte
	// the data list is handed in as a window into a longer list (the "next stripe" and its parity slots behind it): the
	// callee may not touch what lies behind the window, whatever the goroutine count
	arena := make([][]byte, 2*d+p+2)
	copy(arena, data)
	for i := d; i < len(arena); i++ {
		arena[i] = []byte{byte(i), 0x5a}
	}
	behind := append([][]byte{}, arena[d:]...)
	data = arena[:d]
	if pi := core.Catch(func() { par = coder.GenerateParity(data) }); pi != nil {
		r.Violatef("generate-panic:"+pi.Frame, "d=%d p=%d len=%d g=%d: %s", d, p, length, g, pi.Value)
		return false
	}
	for i := range behind {
		if len(arena[d+i]) != len(behind[i]) || &arena[d+i][0] != &behind[i][0] {
			r.Violatef("list-entries-behind-the-data-list-altered", "d=%d p=%d len=%d g=%d: GenerateParity overwrote entry %d behind the data list it was given (len %d, cap %d)", d, p, length, g, i, d, cap(data))
			return false
		}
	}
	for i := range ref {
		if !bytes.Equal(ref[i], par[i]) {
			r.Violatef("parity-depends-on-goroutines", "d=%d p=%d len=%d: parity shard %d with g=%d differs from g=1", d, p, length, i, g)
			return false
		}
	}
	// lose min(d,p) data shards
	k := p
	if k > d {
		k = d
	}
	dd := make([][]byte, d)
	for i := range dd {
		if i >= k {
			dd[i] = append([]byte{}, data[i]...)
		}
	}
	if odd {
		dd, par = c12Displace(dd), c12Displace(par)
	}
	var err error
	if pi := core.Catch(func() { err = coder.ReconstructData(dd, par) }); pi != nil {
		r.Violatef("reconstruct-panic:"+pi.Frame, "d=%d p=%d len=%d g=%d: %s", d, p, length, g, pi.Value)
		return false
	}
	if err != nil {
		r.Violatef("reconstruct-failed:"+errClass(err), "d=%d p=%d len=%d g=%d: %v", d, p, length, g, err)
		return false
	}
	for i := range dd {
		if !bytes.Equal(dd[i], data[i]) {
			r.Violatef("reconstruction-depends-on-goroutines", "d=%d p=%d len=%d g=%d: shard %d wrong", d, p, length, g, i)
			return false
		}
	}
	return true
}

// c12Par2Body creates and repairs through par2 with g goroutines and
// compares all written bytes with g=1.
func c12Par2Body(r *core.Rec, seed int64, sizes []int, slice, blocks, g int) bool {
	// damage 0: first file deleted and one slice of the last file hit (beyond the capacity of most of the sets used here:
	// Repair must fail alike); damage 1: one slice of the last file hit; damage 2: the shortest file deleted.
	// bad: -1, or the exponent of a recovery block whose data is wrong inside a well-formed packet - DoubleCheck has to
	// notice it (or not) identically for every goroutine count, whether or not the reconstruction consumed that block
	for dmg := 0; dmg < 3; dmg++ {
		for bad := -1; bad < blocks; bad++ {
			if dmg == 0 && bad >= 0 {
				continue
			}
			if !c12Par2BodyOne(r, seed, sizes, slice, blocks, g, dmg, bad) {
				return false
			}
		}
	}
	return true
}

// c12SpoilBlock flips one data byte of every recovery packet with exponent e in a PAR2 file and re-seals the packet.
func c12SpoilBlock(b []byte, e int) []byte {
	pk, err := rpar2.Parse(b)
	if err != nil {
		return b
	}
	nb := append([]byte{}, b...)
	for _, p := range pk {
		if p.Type == rpar2.TypeRecv && len(p.Body) > 4 && int(binary.LittleEndian.Uint32(p.Body)) == e {
			end := p.Offset + 64 + len(p.Body)
			nb[end-1] ^= 0x10
			copy(nb[p.Offset:end], rpar2.Rehash(append([]byte{}, nb[p.Offset:end]...)))
		}
	}
	return nb
}

func c12Par2BodyOne(r *core.Rec, seed int64, sizes []int, slice, blocks, g, dmg, bad int) bool {
	mk := func(gg int) (map[string][]byte, map[string][]byte, error) {
		fs := envfs.New()
		var paths []string
		shortest := 0
		for i, n := range sizes {
			p := fmt.Sprintf("/d/f%d", i)
			paths = append(paths, p)
			fs.Put(p, scen.Content("uniq", seed, i, n, slice))
			if n < sizes[shortest] {
				shortest = i
			}
		}
		if err := par2.VerifCreate(fs, "/d/s.par2", paths, par2.CreateOptions{SliceByteCount: slice, NumParityShards: blocks, NumGoroutines: gg}); err != nil {
			return nil, nil, err
		}
		created := fs.Snapshot()
		if dmg == 0 {
			fs.Del(paths[0])
		}
		if dmg == 0 || dmg == 1 {
			b, _ := fs.Get(paths[len(paths)-1])
			nb := append([]byte{}, b...)
			nb[0] ^= 0xff
			fs.Put(paths[len(paths)-1], nb)
		}
		if dmg == 2 {
			fs.Del(paths[shortest])
		}
		if bad >= 0 {
			for p, b := range created {
				if strings.HasSuffix(p, ".par2") {
					fs.Put(p, c12SpoilBlock(b, bad))
				}
			}
		}
		_, err := par2.VerifRepair(fs, "/d/s.par2", par2.RepairOptions{NumGoroutines: gg, DoubleCheck: true})
		return created, fs.Snapshot(), err
	}
	c1, r1, e1 := mk(1)
	var cg, rg map[string][]byte
	var eg error
	if pi := core.Catch(func() { cg, rg, eg = mk(g) }); pi != nil {
		r.Violatef("par2-panic:"+pi.Frame, "g=%d: %s", g, pi.Value)
		return false
	}
	r.Count(fmt.Sprintf("par2_repair_ok_%v", e1 == nil), 1)
	if bad >= 0 && e1 == nil && dmg != 0 {
		// a spoiled block and a double-checked Repair that succeeds: at g=1 this would be a C13 matter, here it only must
		// not differ by g; count it so that the evidence shows whether the detecting branch was reached
		r.Count("par2_doublecheck_accepted_spoiled_block", 1)
	}
	if (e1 == nil) != (eg == nil) {
		r.Violatef("par2-result-depends-on-goroutines", "sizes=%v slice=%d blocks=%d damage=%d spoiled block=%d: g=1 err=%v, g=%d err=%v", sizes, slice, blocks, dmg, bad, e1, g, eg)
		return false
	}
	if d := envfs.Diff(c1, cg); len(d) > 0 {
		r.Violatef("create-output-depends-on-goroutines", "sizes=%v slice=%d blocks=%d g=%d: %v differ from g=1", sizes, slice, blocks, g, d)
		return false
	}
	if d := envfs.Diff(r1, rg); len(d) > 0 {
		r.Violatef("repair-result-depends-on-goroutines", "sizes=%v slice=%d blocks=%d damage=%d spoiled block=%d g=%d: %v differ from g=1", sizes, slice, blocks, dmg, bad, g, d)
		return false
	}
	return true
}

// c12FailedRepair: a Repair that has several files to rewrite and whose k-th file write fails. What it leaves on disk
// and what it reports must be the same for every goroutine count - at the moment it returns and for good: whatever a
// worker goroutine still writes after the call has returned shows as a directory that changes afterwards.
func c12FailedRepair(r *core.Rec, seed int64, failAt int, procs int) {
	old := runtime.GOMAXPROCS(procs)
	defer runtime.GOMAXPROCS(old)
	type obs struct {
		err           string
		paths         []string
		atReturn, end map[string][]byte
	}
	run := func(gg int) *obs {
		fs := envfs.New()
		var paths []string
		for i, n := range []int{40, 24, 33, 17, 29, 36} {
			p := fmt.Sprintf("/d/f%d", i)
			paths = append(paths, p)
			fs.Put(p, scen.Content("uniq", seed, i, n, 8))
		}
		if err := par2.VerifCreate(fs, "/d/s.par2", paths, par2.CreateOptions{SliceByteCount: 8, NumParityShards: 30, NumGoroutines: 1}); err != nil {
			r.Violatef("create-failed:"+errClass(err), "%v", err)
			return nil
		}
		for _, p := range paths[:5] {
			fs.Del(p) // five files to rewrite, all within capacity
		}
		k := 0
		fs.Hook = func(index int, kind, path string, data []byte) *envfs.Fault {
			if kind == "write" {
				k++
				if k == failAt {
					return &envfs.Fault{Err: envfs.ErrInjected, Partial: -1, Kind: "error"}
				}
			}
			return nil
		}
		o := &obs{}
		pi := core.Catch(func() {
			res, err := par2.VerifRepair(fs, "/d/s.par2", par2.RepairOptions{NumGoroutines: gg})
			o.err, o.paths = errClass(err), res.RepairedPaths
		})
		o.atReturn = fs.Snapshot()
		if pi != nil {
			r.Violatef("repair-panic:"+pi.Frame, "g=%d write %d fails: %s", gg, failAt, pi.Value)
			return nil
		}
		// give anything that is still running every chance to finish (one-sided: sequential code changes nothing here)
		for i := 0; i < 200; i++ {
			runtime.Gosched()
		}
		time.Sleep(15 * time.Millisecond)
		o.end = fs.Snapshot()
		r.AddTransitions(1)
		return o
	}
	ref := run(1)
	if ref == nil {
		return
	}
	for _, gg := range []int{1, 2, 3, 4, 8} {
		o := run(gg)
		if o == nil {
			return
		}
		if d := envfs.Diff(o.atReturn, o.end); len(d) > 0 {
			r.Violatef("directory-changes-after-repair-returned", "g=%d, file write %d fails: %v changed after Repair had returned %q", gg, failAt, d, o.err)
			return
		}
		if d := envfs.Diff(ref.end, o.end); len(d) > 0 || o.err != ref.err || fmt.Sprint(o.paths) != fmt.Sprint(ref.paths) {
			r.Violatef("failed-repair-depends-on-goroutines", "file write %d fails: g=%d leaves %v different from g=1; result %q %v vs %q %v", failAt, gg, d, o.err, o.paths, ref.err, ref.paths)
			return
		}
	}
	r.AddStates(6)
}

func c12Gen(g *core.Gen) {
	if raceEnabled {
		// free-running pass under the race detector (separate build): same bodies, real scheduler
		for _, procs := range []int{1, 2, 4, 16} {
			for _, l := range []int{2, 16, 30, 32, 34, 64, 100, 256, 600, 4096} {
				g.Emit(&c12Case{Kind: "race", Len: l, D: 3, P: 2, GLo: 1, GHi: 9, Procs: procs})
				g.Emit(&c12Case{Kind: "race", Len: l, D: 3, P: 2, GLo: 1, GHi: 9, Procs: procs, Odd: true})
			}
			// many input shards, shards shorter than 16 bytes per goroutine
			for _, d := range []int{129, 300} {
				for _, l := range []int{4, 36, 100} {
					g.Emit(&c12Case{Kind: "race", Len: l, D: d, P: 2, GLo: 1, GHi: 9, Procs: procs})
				}
			}
			for k := 1; k <= 3; k++ {
				g.Emit(&c12Case{Kind: "failwrite", G: k, Procs: procs})
			}
			g.Emit(&c12Case{Kind: "race", Len: 0, Procs: procs})
			g.Emit(&c12Case{Kind: "race", Len: -1, Procs: procs})
		}
		return
	}
	maxLen := 600
	for l := 2; l <= maxLen; l += 2 {
		g.Emit(&c12Case{Kind: "partition", Len: l, D: 2, P: 2, GLo: 1, GHi: 41})
		g.Emit(&c12Case{Kind: "partition", Len: l, D: 3, P: 2, GLo: 1, GHi: 41})
		if l <= 200 || g.Thorough() {
			g.Emit(&c12Case{Kind: "partition", Len: l, D: 3, P: 2, GLo: 1, GHi: 41, Odd: true})
		}
	}
	// low-entropy shards (zero stretches with non-zero words at the very end / at block ends): every even length to 300
	// and lengths that are not multiples of 16 beyond, g 1..40
	for sp := 1; sp <= 5; sp++ {
		for l := 4; l <= 300; l += 2 {
			g.Emit(&c12Case{Kind: "partition", Len: l, D: 3, P: 2, GLo: 1, GHi: 41, Sparse: sp})
		}
		for _, l := range []int{1000, 1026, 2004, 4098, 65550} {
			g.Emit(&c12Case{Kind: "partition", Len: l, D: 3, P: 2, GLo: 1, GHi: 41, Sparse: sp})
		}
	}
	// codes with more rows (several missing rows per goroutine): short and medium shards x g 1..16
	for l := 2; l <= 200; l += 2 {
		g.Emit(&c12Case{Kind: "partition", Len: l, D: 6, P: 5, GLo: 1, GHi: 17})
		if l <= 100 || g.Thorough() {
			g.Emit(&c12Case{Kind: "partition", Len: l, D: 9, P: 8, GLo: 1, GHi: 13})
		}
	}
	for _, l := range []int{1024, 4096, 4098, 65536, 65550} {
		g.Emit(&c12Case{Kind: "partition", Len: l, D: 3, P: 2, GLo: 1, GHi: 41})
		g.Emit(&c12Case{Kind: "partition", Len: l, D: 2, P: 2, GLo: 4090, GHi: 4100})
	}
	// goroutine counts around the limits of 16-bit (and 17-bit) counters
	for _, l := range []int{34, 1000} {
		g.Emit(&c12Case{Kind: "partition", Len: l, D: 3, P: 2, GLo: 65534, GHi: 65539})
		g.Emit(&c12Case{Kind: "partition", Len: l, D: 3, P: 2, GLo: 131071, GHi: 131074})
		g.Emit(&c12Case{Kind: "partition", Len: l, D: 3, P: 2, GLo: 254, GHi: 259})
		g.Emit(&c12Case{Kind: "partition", Len: l, D: 3, P: 2, GLo: 32766, GHi: 32770})
	}
	// many input rows x long shards (working sets beyond cache sizes: any blocking / tiling of the single- and
	// multi-goroutine paths must agree): every row count 1..40 at 64 KiB, 60..130 at 4 KiB
	for d := 1; d <= 40; d++ {
		g.Emit(&c12Case{Kind: "partition", Len: 65536, D: d, P: 1, GLo: 1, GHi: 4})
	}
	for d := 60; d <= 130; d++ {
		g.Emit(&c12Case{Kind: "partition", Len: 4096, D: d, P: 1, GLo: 1, GHi: 4})
	}
	// many input shards x short shards x goroutine counts beyond the number of 16-byte units
	for _, d := range []int{127, 128, 129, 130, 255, 256, 257, 300, 1000} {
		for _, l := range []int{2, 4, 16, 18, 34, 64, 100} {
			g.Emit(&c12Case{Kind: "partition", Len: l, D: d, P: 2, GLo: 1, GHi: 20})
		}
	}
	// a Repair whose k-th file write fails, for every k and goroutine counts 1..8
	for k := 1; k <= 5; k++ {
		for _, procs := range []int{1, 4, 16} {
			g.Emit(&c12Case{Kind: "failwrite", G: k, Procs: procs})
		}
	}
	// the DEFAULT goroutine count (option 0 / negative: derived from the machine) under every GOMAXPROCS 1..4 and 16
	for _, procs := range []int{1, 2, 3, 4, 16} {
		for _, gg := range []int{0, -1} {
			g.Emit(&c12Case{Kind: "par2g", G: gg, Procs: procs})
		}
	}
	for gg := 1; gg <= 12; gg++ {
		g.Emit(&c12Case{Kind: "par2g", G: gg})
		g.Emit(&c12Case{Kind: "par2g", G: gg, NoSSSE3: true})
	}
	for l := 2; l <= 300; l += 2 {
		g.Emit(&c12Case{Kind: "partition", Len: l, D: 3, P: 2, GLo: 1, GHi: 20, NoSSSE3: true})
	}
	if c12SchedGen != nil {
		c12SchedGen(g)
	} else {
		g.Capped = true
		g.CapNote = "schedule exploration needs the overlay (instrumented) build; this binary ran only the partition / par2 / race parts"
	}
}

func c12Run(ci interface{}, r *core.Rec) {
	c := ci.(*c12Case)
	if c.NoSSSE3 {
		old := gf2p16.VerifSetUseSSSE3(false)
		defer gf2p16.VerifSetUseSSSE3(old)
	}
	switch c.Kind {
	case "partition":
		n := 0
		for gg := c.GLo; gg < c.GHi; gg++ {
			if !c12BodyS(r, r.Seed, c.D, c.P, c.Len, gg, c.Odd, c.Sparse) {
				return
			}
			n++
		}
		r.AddStates(n)
		r.AddTransitions(2 * n)
		r.Outcome(fmt.Sprintf("partition %d %d %d", c.Len, c.D, c.Sparse))
		if c.Len > 16 {
			r.NontrivialCase()
		}
	case "par2g":
		if c.Procs > 0 {
			old := runtime.GOMAXPROCS(c.Procs)
			defer runtime.GOMAXPROCS(old)
		}
		n := 0
		for _, cfg := range []struct {
			sizes         []int
			slice, blocks int
		}{{[]int{11, 6}, 4, 3}, {[]int{100, 37, 64}, 16, 4}, {[]int{1000, 333}, 64, 5}, {[]int{20000, 5}, 2000, 3}, {[]int{700, 650}, 600, 2}} {
			if !c12Par2Body(r, r.Seed, cfg.sizes, cfg.slice, cfg.blocks, c.G) {
				return
			}
			n++
		}
		r.AddStates(n)
		r.AddTransitions(4 * n)
		r.Outcome(fmt.Sprintf("par2g %d", c.G))
		if c.G > 1 {
			r.NontrivialCase()
		}
	case "race":
		old := runtime.GOMAXPROCS(c.Procs)
		defer runtime.GOMAXPROCS(old)
		n := 0
		if c.Len == -1 {
			// independent objects used concurrently: four goroutines, each with coders and matrices of its own (unrelated
			// erasure patterns that need pivot swaps), a hundred rounds each - whatever they share behind the scenes (a
			// scratch row, a pooled buffer, a memo) is shared without their knowing
			var wg sync.WaitGroup
			var bad int32
			for w := 0; w < 4; w++ {
				wg.Add(1)
				go func(w int) {
					defer wg.Done()
					for rep := 0; rep < 100; rep++ {
						nn := 3 + (w+rep)%4
						// a cyclic-shift permutation scaled by distinct constants: every pivot needs a swap
						m := gf2p16.NewMatrixFromFunction(nn, nn, func(i, j int) gf2p16.T {
							if j == (i+1+w%2)%nn {
								return gf2p16.T(2 + i + 7*w)
							}
							return 0
						})
						inv, err := m.Inverse()
						if err != nil {
							atomic.AddInt32(&bad, 1)
							continue
						}
						p := m.Times(inv)
						for i := 0; i < nn; i++ {
							for j := 0; j < nn; j++ {
								if (p.At(i, j) == 1) != (i == j) || (i != j && p.At(i, j) != 0) {
									atomic.AddInt32(&bad, 1)
								}
							}
						}
						d, pp := 3+w%2, 2
						data := c07Data(r.Seed+int64(w), d, 34+2*w)
						coder := c12Code(d, pp, 1+rep%3)
						par := coder.GenerateParity(data)
						dd := make([][]byte, d)
						for i := 1; i < d; i++ {
							dd[i] = append([]byte{}, data[i]...)
						}
						if coder.ReconstructData(dd, par) != nil || !bytes.Equal(dd[0], data[0]) {
							atomic.AddInt32(&bad, 1)
						}
					}
				}(w)
			}
			wg.Wait()
			if bad > 0 {
				r.Violatef("independent-objects-interfere", "%d wrong results when four goroutines used matrices / coders of their own at the same time", bad)
			}
			n = 400
		} else if c.Len == 0 {
			for gg := 1; gg <= 8; gg++ {
				c12Par2Body(r, r.Seed, []int{1000, 333}, 64, 5, gg)
				c12Par2Body(r, r.Seed, []int{100, 37, 64}, 16, 4, gg)
				n += 2
			}
		} else {
			for rep := 0; rep < 20; rep++ {
				for gg := c.GLo; gg < c.GHi; gg++ {
					c12Body(r, r.Seed, c.D, c.P, c.Len, gg, c.Odd)
					n++
				}
			}
		}
		r.AddStates(n)
		r.AddTransitions(2 * n)
		r.Count("race_detector_executions", n)
		r.Outcome(fmt.Sprintf("race %d %d", c.Len, c.Procs))
		r.NontrivialCase()
	case "failwrite":
		c12FailedRepair(r, r.Seed, c.G, c.Procs)
		r.Outcome(fmt.Sprintf("failwrite %d", c.G))
		r.NontrivialCase()
	case "sched":
		if c12SchedRun == nil {
			r.Note("schedule case skipped: not an overlay build")
			return
		}
		c12SchedRun(c, r)
	}
}

func init() {
	core.Register(&core.Prop{
		ID:      "C12",
		AltArch: true, // the alternate binary here is the -race build
		Level:   "model_checking",
		Rule: "(i) partition arithmetic, full product through the real GenerateParity/ReconstructData: every even shard length 2..600 (+1024..65550) x goroutine count 1..40 (and > number of 16-byte units) x codes (2,2),(3,2), and every even length 2..200 x g 1..16 x codes (6,5),(9,8) (several missing rows per goroutine), compared with g=1 (the data list is a window into a longer list whose entries behind it must stay untouched); every row count 1..40 x 64 KiB shards and 60..130 x 4 KiB shards x g 1..3; row counts {127..130,255..257,300,1000} x short shards {2..100} x g 1..19; the (3,2) code also with every input shard displaced to an odd address inside a larger buffer; " +
			"(ii) controlled-scheduler exploration of the real worker goroutines (sources instrumented from the current tree and injected with go build -overlay): for encode and reconstruct configurations (workers x kernel calls), EVERY interleaving at kernel-call/synchronisation granularity (unbounded), and every interleaving with <=2 (thorough 3) preemptions at statement granularity; three configurations with 129/130 input shards at kernel granularity with <=1 preemption; per execution: output == single-goroutine bytes, recorded kernel access sets of different workers conflict-free, no deadlock; " +
			"(iii) Create / Repair through par2 for g in 1..12, and for the default count (option 0 / -1) under GOMAXPROCS {1,2,3,4,16}, byte-identical to g=1, over three damage kinds (beyond capacity, one slice hit, shortest file deleted) x {no, each} recovery block spoiled inside a well-formed packet with DoubleCheck on; a Repair with five files to rewrite whose k-th file write fails (k = 1..5, g in {1,2,3,4,8}, GOMAXPROCS {1,4,16}): result and directory equal to g=1, and the directory does not change after the call has returned; (iv) the same bodies free-running under the race detector (separate -race build, GOMAXPROCS 1,2,4,16; also codes with 129 and 300 input shards), plus four goroutines using matrices and coders of their own concurrently. non-trivial = executions with >=2 runnable threads at some choice point / g>1 cases",
		Assumptions: []string{"the controlled scheduler is sequentially consistent; weak-memory effects are covered only by the race-detector pass (no race => SC)", "scheduling points: spawn, exit, WaitGroup/Mutex operations, kernel calls, and (statement granularity) every statement of the instrumented files"},
		NewCase:     func() interface{} { return &c12Case{} },
		Gen:         c12Gen,
		Run:         c12Run,
	})
}
