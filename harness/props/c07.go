package props

import (
	"bytes"
	"fmt"

	"github.com/akalin/gopar/gf2p16"
	"github.com/akalin/gopar/rsec16"

	"verifh/core"
	"verifh/ref/gf16"
	"verifh/ref/lin"
	"verifh/scen"
)

// C07: Reed-Solomon coder recovers any erasure pattern within capability.

type c07Case struct {
	Kind    string `json:"kind"`  // small, large, limits
	Coder   string `json:"coder"` // cauchy, vandermonde
	D       int    `json:"d"`
	P       int    `json:"p"`
	Len     int    `json:"len,omitempty"`
	G       int    `json:"g,omitempty"`
	Lo      int    `json:"lo,omitempty"`
	Hi      int    `json:"hi,omitempty"`
	MissD   []int  `json:"missd,omitempty"`   // explicit: missing data shards
	AvailP  []int  `json:"availp,omitempty"`  // explicit: available parity shards
	K       int    `json:"k,omitempty"`       // tight: number of missing data shards = number of available parity shards
	NoSSSE3 bool   `json:"nossse3,omitempty"` // run with the SSSE3 dispatch flag forced off
	Alias   int    `json:"alias,omitempty"`   // small: the first Alias data shards have the same content and are handed in as the SAME slice (as a decoder does for duplicated slices)
}

// c07Alias is set by the "small" kind for the duration of a case: number of leading data shards handed in as one slice.
var c07Alias int

func c07NewCoder(kind string, d, p, g int) (rsec16.Coder, error) {
	if kind == "cauchy" {
		return rsec16.NewCoderCauchy(d, p, g)
	}
	return rsec16.NewCoderPAR2Vandermonde(d, p, g)
}

func c07Data(seed int64, d, n int) [][]byte {
	out := make([][]byte, d)
	for i := range out {
		out[i] = scen.NewRand(uint64(seed)*77 + uint64(i)*1315423911 + uint64(n)).Bytes(n)
	}
	return out
}

// refVandermondeParity computes parity row e = sum_j c_j^e * data_j.
func refVandermondeParity(data [][]byte, e int) []byte {
	consts := gf16.Par2Constants(len(data))
	out := make([]byte, len(data[0]))
	for j, sh := range data {
		c := gf16.Pow(consts[j], uint64(e))
		for w := 0; w+1 < len(sh); w += 2 {
			y := gf16.Mul(c, uint16(sh[w])|uint16(sh[w+1])<<8)
			out[w] ^= byte(y)
			out[w+1] ^= byte(y >> 8)
		}
	}
	return out
}

// What the previous successful call restored (the slices themselves, and copies): a later call - of any coder - must
// not alter them.
var c07Prev, c07PrevWant [][]byte
var c07PrevWhat string

func c07CheckPrev(r *core.Rec, now string) {
	for i := range c07Prev {
		if !bytes.Equal(c07Prev[i], c07PrevWant[i]) {
			r.Violatef("restored-shards-altered-by-a-later-call", "shards restored by [%s] were altered by the later call [%s]", c07PrevWhat, now)
			break
		}
	}
	c07Prev, c07PrevWant = nil, nil
}

// c07Try runs one reconstruction and judges it. missD / missP are bit masks.
func c07Try(r *core.Rec, coder rsec16.Coder, kind string, d, p int, orig, parity [][]byte, missD, missP []bool) {
	// the shard lists handed to the coder are windows into longer lists (as when the lists of several stripes lie
	// back to back): capacity beyond the length, and what lies behind - here a copy of the same lists - is not the
	// callee's to touch
	dataArena := make([][]byte, 2*d+p+2)
	parArena := make([][]byte, 2*p+d+2)
	data := dataArena[:d]
	var keepCopies [][]byte
	nMissD := 0
	var missCols []int
	for i := 0; i < d; i++ {
		if missD[i] {
			nMissD++
			missCols = append(missCols, i)
		} else {
			data[i] = append([]byte{}, orig[i]...)
			if i > 0 && i < c07Alias && !missD[0] {
				data[i] = data[0] // the supplied copies of the identical shards are one slice, too
			} else if i > 1 && i < c07Alias && !missD[1] {
				data[i] = data[1]
			}
		}
		keepCopies = append(keepCopies, data[i])
	}
	par := parArena[:p]
	var avail []int
	for i := 0; i < p; i++ {
		if !missP[i] {
			par[i] = append([]byte{}, parity[i]...)
			avail = append(avail, i)
		}
	}
	copy(dataArena[d:2*d], data) // "the next stripe": same shards, same holes
	copy(parArena[p:2*p], par)
	behindData := append([][]byte{}, dataArena[d:]...)
	behindPar := append([][]byte{}, parArena[p:]...)
	var err error
	if pi := core.Catch(func() { err = coder.ReconstructData(data, par) }); pi != nil {
		r.Violatef("reconstruct-panic:"+pi.Frame, "%s d=%d p=%d missing data %v parity %v: %s", kind, d, p, missD, missP, pi.Value)
		return
	}
	r.AddTransitions(1)
	what := fmt.Sprintf("%s d=%d p=%d len=%d missing data %v, available parity %v", kind, d, p, len(orig[0]), missCols, avail)
	c07CheckPrev(r, what)
	sameSlot := func(a, b []byte) bool {
		if a == nil || b == nil {
			return a == nil && b == nil
		}
		return len(a) == len(b) && (len(a) == 0 || &a[0] == &b[0])
	}
	for j := range behindData {
		if !sameSlot(behindData[j], dataArena[d+j]) {
			r.Violatef("list-entries-behind-the-data-list-altered", "%s: entry %d behind the data list handed in (len %d, cap %d) was overwritten", what, j, d, cap(data))
			break
		}
	}
	for j := range behindPar {
		if !sameSlot(behindPar[j], parArena[p+j]) {
			r.Violatef("list-entries-behind-the-parity-list-altered", "%s: entry %d behind the parity list handed in was overwritten", what, j)
			break
		}
	}
	// supplied data shards untouched
	for i := 0; i < d; i++ {
		if !missD[i] {
			if !bytes.Equal(keepCopies[i], orig[i]) || (data[i] != nil && !bytes.Equal(data[i], orig[i])) {
				r.Violatef("supplied-data-shard-altered", "%s: data shard %d was modified", what, i)
			}
		}
	}
	if err != nil {
		// a failed call followed by a retry on the SAME data slice with every parity shard available (a caller that
		// waits for more parity to arrive): a nil error must still mean exact originals
		retry := make([][]byte, p)
		for i := range retry {
			retry[i] = append([]byte{}, parity[i]...)
		}
		var err2 error
		if pi := core.Catch(func() { err2 = coder.ReconstructData(data, retry) }); pi != nil {
			r.Violatef("reconstruct-panic:"+pi.Frame, "retry after error, %s d=%d p=%d: %s", kind, d, p, pi.Value)
			return
		}
		r.AddTransitions(1)
		if err2 == nil {
			for i := 0; i < d; i++ {
				if !bytes.Equal(data[i], orig[i]) {
					r.Violatef("retry-after-error-nil-but-wrong", "%s d=%d p=%d missing data %v, available parity %v: first call returned %v; the retry with all parity shards returned nil but shard %d differs from the original", kind, d, p, missCols, avail, err, i)
					return
				}
			}
		}
	}
	// the same call with the parity list cut off behind its last available shard (a shorter list is legitimate) and
	// handed in as a window into a longer list whose further entries are non-nil shards of something else: what lies
	// behind the window must not be taken for offered parity
	if L := lastTrue(missP); L < p {
		arena := make([][]byte, p+d+3)
		for i := range arena {
			if i < L {
				if !missP[i] {
					arena[i] = append([]byte{}, parity[i]...)
				}
			} else {
				arena[i] = bytes.Repeat([]byte{0x5a, 0xa5}, len(orig[0])/2)
			}
		}
		data2 := make([][]byte, d)
		for i := 0; i < d; i++ {
			if !missD[i] {
				data2[i] = append([]byte{}, orig[i]...)
			}
		}
		var errW error
		if pi := core.Catch(func() { errW = coder.ReconstructData(data2, arena[:L]) }); pi != nil {
			r.Violatef("reconstruct-panic:"+pi.Frame, "short parity list, %s: %s", what, pi.Value)
			return
		}
		r.AddTransitions(1)
		_, ne1 := err.(rsec16.NotEnoughParityShardsError)
		_, ne2 := errW.(rsec16.NotEnoughParityShardsError)
		if (err == nil) != (errW == nil) || ne1 != ne2 {
			r.Violatef("short-parity-window-changes-the-outcome", "%s: with the full-length parity list the call returned %v, with the list cut off behind the last available shard (entries behind the window non-nil) it returned %v", what, err, errW)
			return
		}
		if errW == nil {
			for i := 0; i < d; i++ {
				if !bytes.Equal(data2[i], orig[i]) {
					r.Violatef("short-parity-window-changes-the-outcome", "%s: with the parity list cut off behind the last available shard the call returned nil but shard %d differs from the original", what, i)
					return
				}
			}
		}
	}
	if nMissD > len(avail) {
		if _, ok := err.(rsec16.NotEnoughParityShardsError); !ok {
			r.Violatef("not-enough-parity-not-reported", "%s: expected NotEnoughParityShardsError, got %v", what, err)
		}
		return
	}
	exact := true
	for i := 0; i < d; i++ {
		if !bytes.Equal(data[i], orig[i]) {
			exact = false
		}
	}
	if err == nil && !exact {
		r.Violatef("reconstruct-nil-but-wrong", "%s: nil error but restored shards differ from the originals", what)
		return
	}
	if err == nil && nMissD > 0 && d <= 64 {
		c07PrevWhat = what
		for _, i := range missCols {
			c07Prev = append(c07Prev, data[i])
			c07PrevWant = append(c07PrevWant, append([]byte{}, data[i]...))
		}
	}
	if nMissD == 0 {
		if err != nil {
			r.Violatef("reconstruct-error-nothing-missing", "%s: %v", what, err)
		}
		return
	}
	if kind == "cauchy" {
		if err != nil {
			r.Violatef("cauchy-reconstruct-failed:"+errClass(err), "%s: %v", what, err)
		}
		return
	}
	// Vandermonde: lowest-numbered available rows x missing columns
	consts := gf16.Par2Constants(d)
	m := lin.New(nMissD, nMissD)
	for a := 0; a < nMissD; a++ {
		for b, col := range missCols {
			m[a][b] = gf16.Pow(consts[col], uint64(avail[a]))
		}
	}
	if lin.Singular(m) {
		r.Count("singular_systems", 1)
		if err == nil {
			r.Count("singular_but_exact", 1)
		}
		return
	}
	if err != nil {
		r.Violatef("vandermonde-reconstruct-failed:"+errClass(err), "%s: system on the lowest available rows is non-singular, got %v", what, err)
	}
}

type c07CoderKey struct {
	kind    string
	d, p, g int
}

var _ = gf2p16.T(0)

var c07Cache = map[c07CoderKey]rsec16.Coder{}

func c07Coder(r *core.Rec, kind string, d, p, g int) (rsec16.Coder, bool) {
	k := c07CoderKey{kind, d, p, g}
	if c, ok := c07Cache[k]; ok {
		return c, true
	}
	c, err := c07NewCoder(kind, d, p, g)
	if err != nil {
		r.Violatef("new-coder-failed:"+errClass(err), "%s d=%d p=%d: %v", kind, d, p, err)
		return c, false
	}
	c07Cache[k] = c
	return c, true
}

func c07Gen(g *core.Gen) {
	maxD, maxP := 6, 5
	if g.Thorough() {
		maxD, maxP = 8, 6
	}
	lens := []int{2, 4, 14, 16, 18, 32, 34, 66}
	for _, kind := range []string{"cauchy", "vandermonde"} {
		for d := 1; d <= maxD; d++ {
			for p := 1; p <= maxP; p++ {
				for li, l := range lens {
					for gi, gg := range []int{1, 2, 3, 5} {
						if !g.Thorough() && d+p > 8 && (li+gi)%2 == 1 {
							continue
						}
						g.Emit(&c07Case{Kind: "small", Coder: kind, D: d, P: p, Len: l, G: gg})
					}
				}
			}
		}
	}
	// structured large code: all 2-erasures for (140, 260) with parity rows {0, e}
	dL, pL := 140, 260
	for i := 0; i < dL; i++ {
		if !g.Thorough() && i%10 != 0 && i != 128 && i != 1 {
			continue
		}
		g.Emit(&c07Case{Kind: "large", Coder: "vandermonde", D: dL, P: pL, Lo: i, Hi: i + 1, Len: 4, G: 1 + i%3})
	}
	for i := 0; i < dL; i += 35 {
		g.Emit(&c07Case{Kind: "large", Coder: "cauchy", D: dL, P: 20, Lo: i, Hi: i + 1, Len: 6, G: 2})
	}
	// tight patterns on codes with many parity rows: EVERY k-subset of missing data x EVERY k-subset of available parity
	// (non-contiguous surviving rows make leading minors of the decode system vanish, which needs row swaps during elimination)
	tightCodes := [][2]int{{8, 12}, {5, 12}, {3, 14}}
	if g.Thorough() {
		tightCodes = append(tightCodes, [2]int{9, 12}, [2]int{8, 13}, [2]int{6, 14}, [2]int{4, 16})
	}
	for _, dp := range tightCodes {
		for k := 1; k <= dp[0] && k <= dp[1]; k++ {
			for _, kind := range []string{"vandermonde", "cauchy"} {
				if kind == "cauchy" && (k%3 != 0 || !g.Thorough()) {
					continue
				}
				g.Emit(&c07Case{Kind: "tight", Coder: kind, D: dp[0], P: dp[1], K: k, Len: 4, G: 1 + k%3})
			}
		}
	}
	// structured large code (140,260): 3-erasures built on every pair of columns whose 2x2 minor with rows {0,e} vanishes
	// (found with the reference arithmetic), extended by every third column, with rows {0,e,e+1} and {0,e,259}
	consts := gf16.Par2Constants(dL)
	for e := 1; e < pL-1; e++ {
		pw := make([]uint16, dL)
		for i := range pw {
			pw[i] = gf16.Pow(consts[i], uint64(e))
		}
		for i := 0; i < dL; i++ {
			for j := i + 1; j < dL; j++ {
				if pw[i] != pw[j] {
					continue
				}
				for k := 0; k < dL; k++ {
					if k == i || k == j {
						continue
					}
					if !g.Thorough() && k%4 != 0 && k != 129 {
						continue
					}
					for _, rows := range [][]int{{0, e, e + 1}, {0, e, pL - 1}, {1, e, e + 1}} {
						if rows[0] == rows[1] || rows[1] == rows[2] {
							continue
						}
						g.Emit(&c07Case{Kind: "explicit", Coder: "vandermonde", D: dL, P: pL, MissD: []int{i, j, k}, AvailP: rows, Len: 4, G: 2})
					}
				}
			}
		}
	}
	// rows e = 65535/q (q = 3, 5, 17, 257): on columns whose generator exponents agree modulo q, row e is proportional to
	// row 0 and row e+1 to row 1. 3-erasures on three such columns with rows {0,e,e+1}, {0,1,e+1}, {1,e,e+1}, {0,1,e}:
	// elimination meets a zero pivot, swaps, and then finds (or does not find) a zero column - singular systems right
	// after a row swap, which the small codes never produce
	{
		const dQ = 40
		var ns []int
		for n := 1; len(ns) < dQ; n++ {
			if n%3 != 0 && n%5 != 0 && n%17 != 0 && n%257 != 0 {
				ns = append(ns, n)
			}
		}
		for _, qe := range [][2]int{{3, 21845}, {5, 13107}, {17, 3855}, {257, 255}} {
			q, e := qe[0], qe[1]
			groups := map[int][]int{}
			for idx, n := range ns {
				groups[n%q] = append(groups[n%q], idx)
			}
			for cls := 0; cls < q; cls++ {
				cols := groups[cls]
				if len(cols) < 3 {
					continue
				}
				for a := 0; a+2 < len(cols) && a < 3; a++ {
					tri := []int{cols[a], cols[a+1], cols[len(cols)-1]}
					for _, rows := range [][]int{{0, e, e + 1}, {0, 1, e + 1}, {1, e, e + 1}, {0, 1, e}, {0, e, e + 2}} {
						g.Emit(&c07Case{Kind: "explicit", Coder: "vandermonde", D: dQ, P: e + 3, MissD: tri, AvailP: rows, Len: 4, G: 1 + a%2})
					}
				}
			}
		}
	}
	// identical data shards handed in as ONE slice (2, 3, 4 and all of them): every erasure pattern
	for _, kind := range []string{"cauchy", "vandermonde"} {
		for _, dp := range [][2]int{{4, 3}, {5, 4}, {6, 3}} {
			for _, al := range []int{2, 3, 4, dp[0]} {
				for _, l := range []int{2, 34} {
					g.Emit(&c07Case{Kind: "small", Coder: kind, D: dp[0], P: dp[1], Len: l, G: 1 + al%3, Alias: al})
				}
			}
		}
	}
	g.Emit(&c07Case{Kind: "limits"})
	for _, l := range []int{2, 4, 34} {
		for gg := 1; gg <= 2; gg++ {
			g.Emit(&c07Case{Kind: "history", Len: l, G: gg, K: 2})
		}
	}
	// the widest Cauchy codes the constructor accepts (data + parity = 65535): two lost data shards whose indices
	// differ by each power of two (and the symmetric choice of two parity rows in the tallest code), so that no
	// numbering of the evaluation points that repeats with a period is left unseen
	for k := 0; k < 16; k++ {
		for _, j := range []int{0, 1, 1<<k - 1, 65532 - 1<<k} {
			if j < 0 || j+1<<k > 65532 {
				continue
			}
			if !g.Thorough() && j != 0 && k != 15 && k != 8 {
				continue
			}
			g.Emit(&c07Case{Kind: "explicit", Coder: "cauchy", D: 65533, P: 2, MissD: []int{j, j + 1<<k}, AvailP: []int{0, 1}, Len: 2, G: 1 + k%3})
			g.Emit(&c07Case{Kind: "explicit", Coder: "cauchy", D: 2, P: 65533, MissD: []int{0, 1}, AvailP: []int{j, j + 1<<k}, Len: 2, G: 1 + k%3})
		}
	}
	g.Emit(&c07Case{Kind: "explicit", Coder: "cauchy", D: 65532, P: 3, MissD: []int{0, 32768, 65531}, AvailP: []int{0, 1, 2}, Len: 4, G: 2})
	// a slice of the small grid on the non-SSSE3 dispatch path (shards long enough for the bulk kernels)
	for _, kind := range []string{"cauchy", "vandermonde"} {
		for _, dp := range [][2]int{{3, 2}, {5, 4}, {6, 5}} {
			for _, l := range []int{2, 30, 32, 34, 38, 66, 70, 130, 1000} {
				for _, gg := range []int{1, 2, 3, 5, 16} {
					g.Emit(&c07Case{Kind: "small", Coder: kind, D: dp[0], P: dp[1], Len: l, G: gg, NoSSSE3: true})
				}
			}
		}
	}
}

func c07Run(ci interface{}, r *core.Rec) {
	c := ci.(*c07Case)
	if c.NoSSSE3 {
		old := gf2p16.VerifSetUseSSSE3(false)
		defer gf2p16.VerifSetUseSSSE3(old)
	}
	switch c.Kind {
	case "small":
		coder, ok := c07Coder(r, c.Coder, c.D, c.P, c.G)
		if !ok {
			return
		}
		orig := c07Data(r.Seed, c.D, c.Len)
		for i := 1; i < c.Alias && i < c.D; i++ {
			orig[i] = orig[0] // same content, same memory
		}
		c07Alias = c.Alias
		defer func() { c07Alias = 0 }()
		var parity [][]byte
		if pi := core.Catch(func() { parity = coder.GenerateParity(orig) }); pi != nil {
			r.Violatef("generate-panic:"+pi.Frame, "%s", pi.Value)
			return
		}
		r.AddTransitions(1)
		if c.Coder == "vandermonde" {
			for e := 0; e < c.P; e++ {
				if !bytes.Equal(parity[e], refVandermondeParity(orig, e)) {
					r.Violatef("vandermonde-parity-wrong", "d=%d p=%d len=%d g=%d: parity shard %d differs from sum c_j^%d * data_j", c.D, c.P, c.Len, c.G, e, e)
					return
				}
			}
		}
		if len(parity) != c.P {
			r.Violatef("parity-count-wrong", "%d parity shards for p=%d", len(parity), c.P)
			return
		}
		for md := 0; md < 1<<uint(c.D); md++ {
			for mp := 0; mp < 1<<uint(c.P); mp++ {
				missD := make([]bool, c.D)
				missP := make([]bool, c.P)
				for i := range missD {
					missD[i] = md&(1<<uint(i)) != 0
				}
				for i := range missP {
					missP[i] = mp&(1<<uint(i)) != 0
				}
				c07Try(r, coder, c.Coder, c.D, c.P, orig, parity, missD, missP)
			}
		}
		r.AddStates(1 << uint(c.D+c.P))
		r.Outcome(fmt.Sprintf("%s %d %d", c.Coder, c.D, c.P))
		r.NontrivialCase()
	case "large":
		coder, ok := c07Coder(r, c.Coder, c.D, c.P, c.G)
		if !ok {
			return
		}
		orig := c07Data(r.Seed, c.D, c.Len)
		parity := coder.GenerateParity(orig)
		n := 0
		for i := c.Lo; i < c.Hi; i++ {
			for j := i + 1; j < c.D; j++ {
				for e := 1; e < c.P; e++ {
					missD := make([]bool, c.D)
					missD[i], missD[j] = true, true
					missP := make([]bool, c.P)
					for k := range missP {
						missP[k] = k != 0 && k != e
					}
					c07Try(r, coder, c.Coder, c.D, c.P, orig, parity, missD, missP)
					n++
					// the same pair with one spare parity row behind it: when rows {0,e} are singular for these columns
					// the coder may report that or pick other rows - but a nil error must mean exact data
					if (e+j)%8 == 0 && e+1 < c.P {
						missP[e+1] = false
						c07Try(r, coder, c.Coder, c.D, c.P, orig, parity, missD, missP)
						n++
					}
				}
			}
		}
		r.AddStates(n)
		r.Outcome(fmt.Sprintf("large %s %d", c.Coder, c.Lo))
		r.NontrivialCase()
	case "tight":
		coder, ok := c07Coder(r, c.Coder, c.D, c.P, c.G)
		if !ok {
			return
		}
		orig := c07Data(r.Seed, c.D, c.Len)
		parity := coder.GenerateParity(orig)
		n := 0
		forCombos(c.D, c.K, func(md []int) {
			forCombos(c.P, c.K, func(ap []int) {
				missD := make([]bool, c.D)
				for _, i := range md {
					missD[i] = true
				}
				missP := make([]bool, c.P)
				for i := range missP {
					missP[i] = true
				}
				for _, i := range ap {
					missP[i] = false
				}
				c07Try(r, coder, c.Coder, c.D, c.P, orig, parity, missD, missP)
				n++
			})
		})
		r.AddStates(n)
		r.Outcome(fmt.Sprintf("tight %s %d %d %d", c.Coder, c.D, c.P, c.K))
		r.NontrivialCase()
	case "explicit":
		coder, ok := c07Coder(r, c.Coder, c.D, c.P, c.G)
		if !ok {
			return
		}
		orig := c07Data(r.Seed, c.D, c.Len)
		parity := coder.GenerateParity(orig)
		missD := make([]bool, c.D)
		for _, i := range c.MissD {
			missD[i] = true
		}
		missP := make([]bool, c.P)
		for i := range missP {
			missP[i] = true
		}
		for _, i := range c.AvailP {
			missP[i] = false
		}
		c07Try(r, coder, c.Coder, c.D, c.P, orig, parity, missD, missP)
		r.AddStates(1)
		r.Outcome(fmt.Sprintf("explicit %v %v", c.MissD, c.AvailP))
		r.NontrivialCase()
	case "history":
		// a call that fails on a singular system, then successful calls of other coders: what each of them restored stays
		// as it is while the later ones run
		type step struct {
			kind   string
			d, p   int
			md, ap []int
		}
		steps := []step{{"vandermonde", 10, 3856, []int{1, 9}, []int{0, 3855}}, {"cauchy", 4, 2, []int{0, 3}, []int{0, 1}}, {"cauchy", 4, 2, []int{1, 2}, []int{0, 1}}, {"vandermonde", 5, 3, []int{4}, []int{2}}, {"cauchy", 3, 2, []int{0, 1}, []int{0, 1}}}
		for rot := 0; rot < c.K+1; rot++ {
			for _, st := range steps {
				coder, ok := c07Coder(r, st.kind, st.d, st.p, c.G)
				if !ok {
					return
				}
				orig := c07Data(r.Seed+int64(rot), st.d, c.Len)
				parity := coder.GenerateParity(orig)
				missD := make([]bool, st.d)
				for _, i := range st.md {
					missD[i] = true
				}
				missP := make([]bool, st.p)
				for i := range missP {
					missP[i] = true
				}
				for _, i := range st.ap {
					missP[i] = false
				}
				c07Try(r, coder, st.kind, st.d, st.p, orig, parity, missD, missP)
			}
		}
		c07CheckPrev(r, "end of the history")
		r.AddStates(len(steps) * (c.K + 1))
		r.Outcome("history")
		r.NontrivialCase()
	case "limits":
		type lim struct {
			kind  string
			d, p  int
			wantE bool
		}
		for _, l := range []lim{
			{"vandermonde", 32768, 1, false}, {"vandermonde", 32769, 1, true}, {"vandermonde", 1, 65535, false}, {"vandermonde", 1, 65536, true},
			{"vandermonde", 3, 65535, false}, {"vandermonde", 3, 65534, false}, {"vandermonde", 5, 65535, false},
			{"vandermonde", 32768, 3, false}, {"vandermonde", 32767, 3, false}, {"vandermonde", 257, 3, false}, {"vandermonde", 256, 3, false},
			{"cauchy", 65534, 1, false}, {"cauchy", 65535, 1, true}, {"cauchy", 1, 65534, false}, {"cauchy", 1, 65535, true},
		} {
			var err error
			var coder rsec16.Coder
			if pi := core.Catch(func() { coder, err = c07NewCoder(l.kind, l.d, l.p, 2) }); pi != nil {
				r.Violatef("new-coder-panic:"+pi.Frame, "%s(%d,%d): %s", l.kind, l.d, l.p, pi.Value)
				continue
			}
			r.AddTransitions(1)
			if l.wantE && err == nil {
				// beyond the documented limit: accepted only if it still round-trips (rows/columns would repeat)
				r.Count("beyond_limit_accepted", 1)
			}
			if !l.wantE && err != nil {
				r.Violatef("coder-refused-within-limit:"+errClass(err), "%s(%d,%d): %v", l.kind, l.d, l.p, err)
				continue
			}
			if err == nil && !l.wantE {
				// round trip at the limit: lose the last data shard
				orig := c07Data(r.Seed, l.d, 2)
				parity := coder.GenerateParity(orig)
				if l.kind == "vandermonde" && (l.d <= 8 || l.p <= 8) {
					// the highest rows against the definition (row e = sum_j c_j^e * data_j), not only against the coder itself
					for _, e := range []int{0, 1, 2, 255, 256, 32767, 32768, 65533, 65534} {
						if e < l.p && !bytes.Equal(parity[e], refVandermondeParity(orig, e)) {
							r.Violatef("parity-differs-from-reference", "vandermonde(%d,%d): parity row %d differs from sum_j c_j^%d * data_j", l.d, l.p, e, e)
						}
					}
					if l.d >= 2 {
						// two data shards lost, only the first and the last parity row available
						md := make([]bool, l.d)
						md[0], md[l.d-1] = true, true
						mp := make([]bool, l.p)
						for k := range mp {
							mp[k] = k != 0 && k != l.p-1
						}
						c07Try(r, coder, l.kind, l.d, l.p, orig, parity, md, mp)
					}
				}
				missD := make([]bool, l.d)
				missD[l.d-1] = true
				missP := make([]bool, l.p)
				for k := range missP {
					missP[k] = k != l.p-1
				}
				c07Try(r, coder, l.kind, l.d, l.p, orig, parity, missD, missP)
			}
		}
		r.AddStates(8)
		r.NontrivialCase()
	}
}

func init() {
	core.Register(&core.Prop{
		ID:    "C07",
		Level: "model_checking",
		Rule: "bounded-exhaustive erasure patterns: both coders x every (d<=6,p<=5) (thorough d<=8,p<=6) x EVERY subset of missing data shards x EVERY subset of missing parity shards x shard length {2,4,14,16,18,32,34,66} x goroutines {1,2,3,5}; Vandermonde parity also compared with the reference sum; after every call the shards restored by the previous successful call are compared again (also across cases of a worker process), and call histories that start with a failure on a singular system; the widest Cauchy codes (65533+2, 2+65533, 65532+3) with two lost data shards / two available parity rows whose indices differ by each power of two; structured large code (140,260): 2-erasures with only parity rows {0,e} available for every e (contains the construction's singular pairs), and 3-erasures built on every column pair whose 2x2 minor vanishes (zero pivots, i.e. row swaps during elimination) x every third column x three row sets; 3-erasures on columns that agree modulo q under rows 65535/q and neighbours (q = 3, 5, 17, 257; singular systems met right after a row swap); tight patterns on (8,12),(5,12),(3,14) (thorough more): every k-subset of missing data x every k-subset of surviving parity; Cauchy (140,20); the documented limits (incl. 32768 / 32767 / 257 / 256 data shards with 3 parity rows and 65535 parity rows for 1, 3 and 5 data shards: the highest rows are compared with the definition and used for reconstruction). " +
			"Oracle: too few parity => NotEnoughParityShardsError; Cauchy always exact; Vandermonde exact iff the reference determinant of (lowest available rows x missing columns) != 0, else error or exact; nil => exact; supplied data shards unchanged; the shard lists are windows into longer lists, whose entries behind the window must not change; whenever the highest parity shards are unavailable the call is repeated with the parity list cut off behind the last available shard, as a window with non-nil entries behind it, and must give the same outcome. non-trivial = every case (all contain reconstructions)",
		Assumptions: []string{"the statement does not constrain supplied parity shards; they are not compared"},
		NewCase:     func() interface{} { return &c07Case{} },
		Gen:         c07Gen,
		Run:         c07Run,
	})
}

// lastTrue returns 1 + the index of the last false entry (the length of the shortest prefix holding every available shard).
func lastTrue(miss []bool) int {
	L := 0
	for i, m := range miss {
		if !m {
			L = i + 1
		}
	}
	return L
}
