package props

import (
	"verifh/core"
	"verifh/scen"
)

// C01: PAR2 repair restores everything within capacity.

func sizesGrid(s int) []int { return []int{1, s - 1, s, s + 1, 2 * s, 2*s + 3} }

// forCombos calls f with every k-subset (as index list, ascending) of n.
func forCombos(n, k int, f func([]int)) {
	idx := make([]int, k)
	var rec func(start, d int)
	rec = func(start, d int) {
		if d == k {
			f(append([]int{}, idx...))
			return
		}
		for i := start; i < n; i++ {
			idx[d] = i
			rec(i+1, d+1)
		}
	}
	rec(0, 0)
}

// nRecFiles is the number of recovery files gopar writes for p blocks
// (1,2,4,... doubling).
func nRecFiles(p int) int {
	n, v := 0, 1
	for i := 0; i < p; {
		if i+v > p {
			v = p - i
		}
		i += v
		v *= 2
		n++
	}
	return n
}

// genP2Deviations emits all scenarios with at most D damage operators
// from the menu of cfg (operators applied in menu order).
func genP2Deviations(g *core.Gen, cfg scen.P2Config, full bool, D int, mk func(d []scen.Dmg) *p2Case) {
	menu := scen.DataMenu(cfg.Sizes, cfg.Slice, nRecFiles(cfg.Blocks), full)
	menu = append(menu, scen.DupRecMenu(nRecFiles(cfg.Blocks))...)
	g.Emit(mk(nil))
	for d := 1; d <= D; d++ {
		forCombos(len(menu), d, func(ix []int) {
			if g.Stopped() {
				return
			}
			var ds []scen.Dmg
			for _, i := range ix {
				ds = append(ds, menu[i])
			}
			c := mk(ds)
			if d == 1 && full {
				c.DiskTwin = true // every single-damage scenario of a full menu also runs on a real directory
			}
			g.Emit(c)
		})
	}
}

func c01Gen(g *core.Gen, emit func(*p2Case)) {
	mk := func(cfg scen.P2Config, rg int) func(d []scen.Dmg) *p2Case {
		return func(d []scen.Dmg) *p2Case {
			// the double-check option is on whenever recovery files were lost (non-contiguous survivors) and for every other scenario
			dc := len(d)%2 == 1
			for _, x := range d {
				if x.Op == "delrec" {
					dc = true
				}
			}
			return &p2Case{Cfg: cfg, Dmg: d, G: rg, DoubleCheck: dc}
		}
	}
	wrap := &core.Gen{}
	_ = wrap
	// (a) core grid, reduced menu, single damage + "all recovery files but enough" handled by delrec singles
	for _, s := range []int{4, 8} {
		sz := sizesGrid(s)
		for nf := 1; nf <= 3; nf++ {
			var rec func(cur []int)
			rec = func(cur []int) {
				if len(cur) == nf {
					for _, p := range []int{1, 2, 3, 5} {
						for _, gg := range []int{1, 3} {
							cfg := scen.P2Config{Sizes: append([]int{}, cur...), Slice: s, Blocks: p, G: gg, Class: "uniq"}
							D := 1
							genP2Deviations(g, cfg, false, D, mk(cfg, gg))
						}
					}
					return
				}
				for _, z := range sz {
					if nf == 3 && !g.Thorough() && (z == s-1 || z == 2*s) {
						continue // quick: thin the 3-file grid
					}
					rec(append(cur, z))
				}
			}
			rec(nil)
		}
	}
	// (b) default set, every content class, full menu, D deviations
	D := 2
	if g.Thorough() {
		D = 3
	}
	for _, class := range []string{"uniq", "zero", "periodic", "dupslice", "trailzero"} {
		cfg := scen.P2Config{Sizes: []int{11, 6}, Slice: 4, Blocks: 3, Class: class}
		d := D
		if class != "uniq" && d > 2 {
			d = 2
		}
		if class != "uniq" && !g.Thorough() {
			d = 1
		}
		genP2Deviations(g, cfg, true, d, mk(cfg, 1))
	}
	// interactions: low-entropy content x several goroutines x names in sub-directories
	for _, class := range []string{"dupslice", "periodic", "trailzero", "lookalike"} {
		cfg := scen.P2Config{Sizes: []int{13, 8, 6}, Slice: 4, Blocks: 4, Class: class, G: 3, Names: []string{"d/e/f0", "f 1", "d/f2"}}
		genP2Deviations(g, cfg, false, 2, mk(cfg, 3))
	}
	// sets written by an Encoder object on its second cycle (the staged API behind Create): every single damage, and
	// pairs on the first set
	for i, rc := range []scen.P2Config{{Sizes: []int{11, 6}, Slice: 4, Blocks: 3, Class: "uniq", Reused: true}, {Sizes: []int{20000, 17001}, Slice: 1000, Blocks: 3, Class: "uniq", G: 2, Reused: true}} {
		genP2Deviations(g, rc, i == 0, 2-i, mk(rc, 1))
	}
	for _, rc := range []scen.P2Config{{Sizes: []int{11, 6}, Slice: 4, Blocks: 3, Class: "uniq", Reused: true, ReloadFails: true}, {Sizes: []int{9, 4, 13}, Slice: 4, Blocks: 5, Class: "uniq", Reused: true, ReloadFails: true}, {Sizes: []int{6, 13, 5, 9}, Slice: 4, Blocks: 4, Class: "uniq", Reused: true, ReloadFails: true}} {
		genP2Deviations(g, rc, false, 1, mk(rc, 1))
	}
	// sets with more recovery blocks than a set can have slices (32768) and with the most a set can have (65535): both
	// files lost, every recovery file but one lost too - for each choice of the surviving file (its lowest exponent is
	// 0, 1, 3, 7, ..., 32767)
	for _, blocks := range []int{32770, 65535} {
		bc := scen.P2Config{Sizes: []int{4, 3}, Slice: 4, Blocks: blocks, Class: "uniq"}
		nrec := nRecFiles(blocks)
		for keep := 0; keep < nrec; keep++ {
			ds := []scen.Dmg{{Op: "del", F: 0}, {Op: "del", F: 1}}
			for v := 0; v < nrec; v++ {
				if v != keep {
					ds = append(ds, scen.Dmg{Op: "delrec", F: v})
				}
			}
			g.Emit(mk(bc, 1)(ds))
		}
	}
	// same-size displacement: n bytes inserted at a and n bytes cut at b > a in one file (the length is what it was,
	// everything between a and b sits n bytes later); two recovery blocks, which suffice whenever at most two slices
	// are really gone
	{
		sd := scen.P2Config{Sizes: []int{30, 9}, Slice: 4, Blocks: 2, Class: "uniq"}
		for n := 1; n <= 3; n++ {
			for _, a := range []int{0, 1, 5, 13, 20} {
				for b := a + 1; b <= 30; b++ {
					g.Emit(mk(sd, 1)([]scen.Dmg{{Op: "ins", F: 0, At: a, N: n}, {Op: "cut", F: 0, At: b, N: n}}))
				}
			}
		}
	}
	// right after a Verify / Repair (in this process, no Create in between) of a copy of the set in which a recovery
	// packet fails its hash, or whose index is cut short: what a rejected packet leaves behind must not reach the next call
	for pb := 1; pb <= 3; pb++ {
		pcfg := scen.P2Config{Sizes: []int{11, 6}, Slice: 4, Blocks: 3, Class: "uniq"}
		for _, m := range append([]scen.Dmg{{Op: "none"}}, scen.DataMenu(pcfg.Sizes, pcfg.Slice, nRecFiles(pcfg.Blocks), false)...) {
			c := mk(pcfg, 1)([]scen.Dmg{m})
			c.PriorBad = pb
			g.Emit(c)
		}
	}
	// names made of the first and last printable / control ASCII codes (0x01, 0x1f, 0x20, 0x7e, 0x7f): whatever Create
	// accepts, Repair has to be able to read back
	for _, nm := range [][]string{{"a\x7fb", "c~d"}, {"\x01x", "y\x1f"}, {" lead", "trail "}, {"\x7f", "~"}, {"sub/report", "sub/report.txt"}, {"x.tar", "x.tar.gz"}, {"notes", "notes.bak"}} {
		ncfg := scen.P2Config{Sizes: []int{11, 6}, Slice: 4, Blocks: 3, Class: "uniq", Names: nm}
		genP2Deviations(g, ncfg, false, 1, mk(ncfg, 1))
	}
	// index files under other base names (ending in characters of the extension, dotted, named like a recovery file)
	for _, b := range []string{"data", "a", "photos2", "foo.par", "s.par2", "s.vol00+01", "Backup 2"} {
		bcfg := scen.P2Config{Sizes: []int{11, 6}, Slice: 4, Blocks: 3, Class: "uniq", Base: b}
		genP2Deviations(g, bcfg, false, 1, mk(bcfg, 1))
	}
	// protected files, in a sub-directory, that carry the names of the set's own recovery files (an older copy of the set
	// kept below it): what is protected and what is a recovery file is decided by where a file lies, not by its base name
	{
		vcfg := scen.P2Config{Sizes: []int{13, 8, 6}, Slice: 4, Blocks: 3, Class: "uniq", Names: []string{"old/s.vol00+01.par2", "f 1", "old/s.vol01+02.par2"}}
		genP2Deviations(g, vcfg, false, 2, mk(vcfg, 1))
		vcfg2 := scen.P2Config{Sizes: []int{9, 5}, Slice: 4, Blocks: 3, Class: "uniq", Names: []string{"old/s.par2", "bak/old/s.vol00+01.par2"}}
		genP2Deviations(g, vcfg2, false, 1, mk(vcfg2, 1))
	}
	dup := scen.P2Config{Sizes: []int{9, 9}, Slice: 4, Blocks: 3, Class: "uniq", DupFile: true}
	genP2Deviations(g, dup, true, 1, mk(dup, 1))
	coll := scen.P2Config{Sizes: []int{27, 20}, Slice: 8, Blocks: 3, Class: "crccollide"}
	genP2Deviations(g, coll, true, 1, mk(coll, 1))
	for _, cf := range []scen.P2Config{{Sizes: []int{59, 20}, Slice: 8, Blocks: 3, Class: "crcfield"}, {Sizes: []int{14, 9}, Slice: 4, Blocks: 2, Class: "crcfield"}} {
		genP2Deviations(g, cf, true, 1, mk(cf, 1))
	}
	// three files, more blocks, goroutines
	cfg3 := scen.P2Config{Sizes: []int{9, 4, 13}, Slice: 4, Blocks: 5, Class: "uniq", G: 2}
	d3 := 1
	if g.Thorough() {
		d3 = 2
	}
	genP2Deviations(g, cfg3, true, d3, mk(cfg3, 3))
	// (c) structured large cases
	for _, lc := range c01LargeConfigs(g.Thorough()) {
		cfg := lc
		menu := []scen.Dmg{{Op: "none"}}
		for f := range cfg.Sizes {
			menu = append(menu, scen.Dmg{Op: "del", F: f})
			ns := (cfg.Sizes[f] + cfg.Slice - 1) / cfg.Slice
			for _, k := range []int{0, ns / 2, ns - 1} {
				menu = append(menu, scen.Dmg{Op: "ovw", F: f, At: k})
			}
			menu = append(menu, scen.Dmg{Op: "ins", F: f, At: 1, N: 1})
		}
		for _, d := range menu {
			for _, rg := range []int{1, 4} {
				g.Emit(&p2Case{Cfg: cfg, Dmg: []scen.Dmg{d}, G: rg, DiskTwin: rg == 4})
			}
		}
	}
}

func c01LargeConfigs(thorough bool) []scen.P2Config {
	out := []scen.P2Config{
		{Sizes: []int{16383, 16384, 16385, 20000}, Slice: 2000, Blocks: 12, Class: "uniq", G: 3}, // around the 16 KiB hash boundary
		{Sizes: []int{4 * 257, 4 * 43}, Slice: 4, Blocks: 50, Class: "uniq", G: 2},               // >256 slices: other constants
		{Sizes: []int{64 * 20, 64*3 + 5}, Slice: 64, Blocks: 7, Class: "uniq", G: 7},
		{Sizes: []int{300000, 70001}, Slice: 4096, Blocks: 5, Class: "uniq", G: 3}, // files and recovery files well above 64 KiB (buffered I/O sizes)
		{Sizes: []int{8 * 32766, 8, 5}, Slice: 8, Blocks: 2, Class: "uniq", G: 4},  // exactly 32768 slices: the format's limit (slice 8: no coincidental matches)
		{Sizes: []int{8 * 32765, 8, 5}, Slice: 8, Blocks: 2, Class: "uniq", G: 2},  // 32767
		// slice size exactly the length of the 16k-hash prefix (and its neighbours), with a file shorter than one slice; one block: no spare
		{Sizes: []int{40000, 5000}, Slice: 16384, Blocks: 1, Class: "uniq", G: 2},
		{Sizes: []int{40000, 5000}, Slice: 16380, Blocks: 1, Class: "uniq", G: 2},
		{Sizes: []int{40000, 16384, 5000}, Slice: 16388, Blocks: 1, Class: "uniq", G: 2},
	}
	if thorough {
		out = append(out,
			scen.P2Config{Sizes: []int{4 * 4000, 4 * 97}, Slice: 4, Blocks: 100, Class: "uniq", G: 16},
			scen.P2Config{Sizes: []int{4 * 290, 1, 7}, Slice: 4, Blocks: 300, Class: "uniq", G: 2},
		)
	}
	return out
}

func init() {
	core.Register(&core.Prop{
		ID:    "C01",
		Level: "model_checking",
		Rule: "(later rounds added: sets written by a reused Encoder, also with a failed reload before the write; sets with 32770 / 65535 recovery blocks and one surviving recovery file; same-size displacement; names of boundary ASCII codes; protected files named like the set's volumes in sub-directories; the damage operator 'same CRC-32, other bytes'; a prior Verify / Repair of a copy with a bad-hash packet or cut index; checksum-field boundary contents; a staged twin with the recovery data loaded first and a refused Repair repeated; disk twins from another working directory with three spellings of the index path and a symlinked file) bounded-exhaustive scenarios: full product of a core grid (1-3 files x 6 sizes x slice{4,8} x blocks{1,2,3,5} x goroutines{1,3}) x every single damage of a reduced menu; " +
			"around a default set (sizes 11,6; slice 4; 3 blocks) ALL combinations of <=D operators (quick D=2, thorough D=3) from the full menu (delete, overwrite each slice, bit flips at every byte, " +
			"insert 1/s-1/s/s+1 bytes at every offset, truncate/cut at every offset, append, swap, copy, delete each recovery file) for 5 content classes; structured large sets; a set above 16 KiB verified / repaired right after ANOTHER GENERATION of itself (same names, lengths, first 16 KiB => same file ids and set id, other content) in the same process, with exactly as many slices lost as blocks exist. " +
			"Each scenario runs the real Create, Verify and Repair; oracle = brute-force slice scan + reference Vandermonde singularity test. non-trivial = damaged scenario in which Repair wrote >=1 file",
		Assumptions: []string{
			"in-memory filesystem implements the fileIO contract faithfully (fresh copies on read, ENOENT for missing, literal prefix/suffix listing)",
			"scenarios whose slice occurrences overlap (low-entropy content) are asserted only for the unconditional clause 'nil error => files identical' (counted as skipped_ambiguous)",
			"must-succeed is asserted when every K-subset of the surviving exponents is non-singular by the reference (so any choice of rows is accepted)",
		},
		NewCase: func() interface{} { return &p2Case{} },
		Gen: func(g *core.Gen) {
			c01Gen(g, nil)
			genGenerationCases(func(c *p2Case) { g.Emit(c) }, false)
		},
		Run: func(ci interface{}, r *core.Rec) {
			runP2(ci.(*p2Case), r, p2Clauses{RepairWithinCapacity: true})
		},
	})
}
