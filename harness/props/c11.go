package props

import (
	"fmt"
	"runtime"

	"github.com/akalin/gopar/gf2p16"

	"verifh/core"
	"verifh/ref/gf16"
	"verifh/ref/lin"
)

// C11: matrix inversion / row reduction / product over GF(2^16).

type c11Case struct {
	Kind    string `json:"kind"`
	N       int    `json:"n"`
	Lo      int64  `json:"lo,omitempty"`
	Hi      int64  `json:"hi,omitempty"`
	A       []int  `json:"alphabet,omitempty"`
	NoSSSE3 bool   `json:"nossse3,omitempty"` // run with the SSSE3 dispatch flag forced off (the row kernels then take the scalar path)
}

// toG builds the gopar matrix, alternately through NewMatrixFromFunction and through NewMatrixFromSlice over a window
// of a long-lived arena that is overwritten right after the call (a caller that assembles rows in a reused buffer): the
// matrix has to be a value of its own from then on.
var (
	c11Arena     = make([]gf2p16.T, 1<<16)
	c11ToGCount  int
	c11AliasSeen string
)

func toG(m lin.M) gf2p16.Matrix {
	c11ToGCount++
	rows, cols := len(m), len(m[0])
	if c11ToGCount%2 == 0 || rows*cols+3 > len(c11Arena) {
		return gf2p16.NewMatrixFromFunction(rows, cols, func(i, j int) gf2p16.T { return gf2p16.T(m[i][j]) })
	}
	win := c11Arena[3 : 3+rows*cols]
	for i := 0; i < rows; i++ {
		for j := 0; j < cols; j++ {
			win[i*cols+j] = gf2p16.T(m[i][j])
		}
	}
	g := gf2p16.NewMatrixFromSlice(rows, cols, win)
	for i := range win {
		win[i] ^= 0x5a5a
	}
	for i := 0; i < rows && c11AliasSeen == ""; i++ {
		for j := 0; j < cols; j++ {
			if uint16(g.At(i, j)) != m[i][j] {
				c11AliasSeen = fmt.Sprintf("a %dx%d matrix built by NewMatrixFromSlice changed at (%d,%d) when the caller reused the slice afterwards", rows, cols, i, j)
				break
			}
		}
	}
	return g
}

func fromG(g gf2p16.Matrix, r, c int) lin.M {
	m := lin.New(r, c)
	for i := 0; i < r; i++ {
		for j := 0; j < c; j++ {
			m[i][j] = uint16(g.At(i, j))
		}
	}
	return m
}

// c11Kept holds operands of earlier calls (with a snapshot of their contents): a matrix operation must not modify
// its operands - not during the call and not later (an operand that a later call scribbles on, because the earlier
// call kept a reference to its storage, was modified all the same).
type c11KeptOperand struct {
	g    gf2p16.Matrix
	snap lin.M
	what string
}

var c11Kept []c11KeptOperand

func c11Keep(g gf2p16.Matrix, snap lin.M, what string) {
	if len(c11Kept) >= 12 {
		c11Kept = c11Kept[1:]
	}
	cp := make(lin.M, len(snap)) // the enumerators reuse their matrices: keep a private snapshot
	for i := range snap {
		cp[i] = append([]uint16{}, snap[i]...)
	}
	c11Kept = append(c11Kept, c11KeptOperand{g, cp, what})
}

func c11CheckKept(r *core.Rec, now string) {
	for _, k := range c11Kept {
		if !lin.Equal(fromG(k.g, len(k.snap), len(k.snap[0])), k.snap) {
			r.Violatef("operand-of-an-earlier-call-modified-later", "an operand of %s changed its contents during / after %s", k.what, now)
			c11Kept = nil
			return
		}
	}
}

// checkSquare runs Inverse and RowReduceForInverse on m and judges them.
// small: use determinant/adjugate; else product checks + reference rank.
func c11CheckSquare(r *core.Rec, m lin.M, what string) {
	n := len(m)
	g := toG(m)
	var inv gf2p16.Matrix
	var err error
	if pi := core.Catch(func() { inv, err = g.Inverse() }); pi != nil {
		r.Violatef("inverse-panic:"+pi.Frame, "%s: %s", what, pi.Value)
		return
	}
	r.AddTransitions(1)
	if err != nil {
		var err2 error
		if pi := core.Catch(func() { _, err2 = g.Inverse() }); pi != nil {
			r.Violatef("inverse-panic:"+pi.Frame, "%s (repeated call): %s", what, pi.Value)
			return
		}
		r.AddTransitions(1)
		if err2 == nil {
			r.Violatef("inverse-repeated-call-differs", "%s: Inverse returned %v, the same call repeated returned nil", what, err)
		}
	}
	var singular bool
	if n <= 4 {
		singular = lin.DetCofactor(m) == 0
		if (lin.Rank(m) < n) != singular {
			panic("reference self-check: determinant and elimination disagree")
		}
	} else {
		singular = lin.Rank(m) < n
	}
	if singular {
		if err == nil {
			r.Violatef("inverse-of-singular-matrix", "%s: Inverse returned no error for a singular matrix %v", what, c11Show(m))
		}
	} else {
		if err != nil {
			r.Violatef("inverse-error-for-nonsingular", "%s: Inverse returned %v for a non-singular matrix %v", what, err, c11Show(m))
		} else {
			got := fromG(inv, n, n)
			if !lin.Equal(lin.Mul(m, got), lin.Identity(n)) || !lin.Equal(lin.Mul(got, m), lin.Identity(n)) {
				r.Violatef("inverse-wrong", "%s: M*Inverse(M) != I for %v", what, c11Show(m))
			}
			if n <= 4 {
				if want, ok := lin.InverseAdj(m); !ok || !lin.Equal(want, got) {
					r.Violatef("inverse-wrong", "%s: Inverse differs from the adjugate inverse for %v", what, c11Show(m))
				}
			}
		}
	}
	if !lin.Equal(fromG(g, n, n), m) {
		r.Violatef("operand-modified", "%s: Inverse modified its receiver", what)
	}
	// RowReduceForInverse with N of 1..n+2 columns (cycled by n) and N = I
	for _, cols := range []int{n, 1 + (n+int(m[0][0]))%(n+2)} {
		nm := lin.New(n, cols)
		for i := 0; i < n; i++ {
			for j := 0; j < cols; j++ {
				if cols == n {
					if i == j {
						nm[i][j] = 1
					}
				} else {
					nm[i][j] = gf16.Exp2(17*i + 5*j + 1)
				}
			}
		}
		gn := toG(nm)
		var red gf2p16.Matrix
		var rerr error
		if pi := core.Catch(func() { red, rerr = g.RowReduceForInverse(gn) }); pi != nil {
			r.Violatef("rowreduce-panic:"+pi.Frame, "%s: %s", what, pi.Value)
			return
		}
		r.AddTransitions(1)
		if rerr != nil {
			// the same call again, right away (a caller that retries a refused system): the answer has to be the same -
			// what a refused call leaves behind must not be mistaken for its result
			var red2 gf2p16.Matrix
			var rerr2 error
			if pi := core.Catch(func() { red2, rerr2 = g.RowReduceForInverse(gn) }); pi != nil {
				r.Violatef("rowreduce-panic:"+pi.Frame, "%s (repeated call): %s", what, pi.Value)
				return
			}
			r.AddTransitions(1)
			if rerr2 == nil {
				r.Violatef("rowreduce-repeated-call-differs", "%s: RowReduceForInverse returned %v, the same call repeated returned nil (%dx%d result)", what, rerr, len(fromG(red2, n, cols)), cols)
			}
		}
		if singular != (rerr != nil) {
			r.Violatef("rowreduce-singularity-wrong", "%s: RowReduceForInverse err=%v, reference singular=%v for %v", what, rerr, singular, c11Show(m))
		} else if !singular {
			rr := fromG(red, n, cols)
			if !lin.Equal(lin.Mul(m, rr), nm) {
				r.Violatef("rowreduce-wrong", "%s: M * RowReduce(M,N) != N for %v", what, c11Show(m))
			}
		}
		if !lin.Equal(fromG(g, n, n), m) || !lin.Equal(fromG(gn, n, cols), nm) {
			r.Violatef("operand-modified", "%s: RowReduceForInverse modified an operand", what)
		}
		c11Keep(gn, nm, fmt.Sprintf("RowReduceForInverse (err=%v) on %s", rerr, what))
		c11CheckKept(r, what)
	}
	c11Keep(g, m, "Inverse / RowReduceForInverse on "+what)
	c11CheckKept(r, what)
}

func c11Show(m lin.M) string {
	if len(m) > 6 {
		return fmt.Sprintf("(%dx%d)", len(m), len(m))
	}
	return fmt.Sprint([][]uint16(m))
}

func c11Permutations(n int, f func(p []int)) {
	p := make([]int, n)
	for i := range p {
		p[i] = i
	}
	var rec func(k int)
	rec = func(k int) {
		if k == n {
			f(p)
			return
		}
		for i := k; i < n; i++ {
			p[k], p[i] = p[i], p[k]
			rec(k + 1)
			p[k], p[i] = p[i], p[k]
		}
	}
	rec(0)
}

func c11Structured(n int, kind string, pos int) lin.M {
	m := lin.New(n, n)
	switch kind {
	case "vandermonde": // rows: powers of distinct nodes
		for i := 0; i < n; i++ {
			for j := 0; j < n; j++ {
				m[i][j] = gf16.Pow(gf16.Exp2(j+1), uint64(i))
			}
		}
	case "cauchy":
		for i := 0; i < n; i++ {
			for j := 0; j < n; j++ {
				m[i][j] = gf16.Inv(uint16(n+i) ^ uint16(j))
			}
		}
	case "upper", "lower":
		for i := 0; i < n; i++ {
			for j := 0; j < n; j++ {
				if (kind == "upper" && j >= i) || (kind == "lower" && j <= i) {
					m[i][j] = gf16.Exp2(3*i + 7*j + 1)
				}
			}
		}
	case "rankdef": // Vandermonde with row pos replaced by a combination of two other rows
		m = c11Structured(n, "vandermonde", 0)
		a, b := (pos+1)%n, (pos+2)%n
		for j := 0; j < n; j++ {
			m[pos][j] = gf16.Mul(3, m[a][j]) ^ gf16.Mul(0x100b, m[b][j])
		}
		if n == 2 {
			for j := 0; j < n; j++ {
				m[pos][j] = gf16.Mul(7, m[a][j])
			}
		}
	case "zerodiag": // non-singular, but a zero at diagonal position pos after elimination of earlier columns: swap rows pos and pos+1 of an upper-triangular matrix
		m = c11Structured(n, "upper", 0)
		if pos+1 < n {
			m[pos], m[pos+1] = m[pos+1], m[pos]
		}
	case "zerocol": // column pos entirely zero
		m = c11Structured(n, "cauchy", 0)
		for i := 0; i < n; i++ {
			m[i][pos] = 0
		}
	case "lastpivotfar": // needs the swap with the LAST row at stage pos
		m = c11Structured(n, "upper", 0)
		last := m[pos]
		copy(m[pos:], m[pos+1:])
		m[n-1] = last
	}
	return m
}

func c11Gen(g *core.Gen) {
	full := []int{0, 1, 2, 3, 0x100b, 0xffff}
	g.Emit(&c11Case{Kind: "all", N: 1, Lo: 0, Hi: 6, A: full})
	g.Emit(&c11Case{Kind: "all", N: 2, Lo: 0, Hi: 1296, A: full})
	a3 := []int{0, 1, 2, 0xffff}
	for lo := int64(0); lo < 262144; lo += 4096 {
		g.Emit(&c11Case{Kind: "all", N: 3, Lo: lo, Hi: lo + 4096, A: a3})
	}
	for lo := int64(0); lo < 65536; lo += 2048 {
		g.Emit(&c11Case{Kind: "all", N: 4, Lo: lo, Hi: lo + 2048, A: []int{0, 1}})
	}
	if g.Thorough() {
		tot := int64(43046721) // 3^16
		for lo := int64(0); lo < tot; lo += 65536 {
			hi := lo + 65536
			if hi > tot {
				hi = tot
			}
			g.Emit(&c11Case{Kind: "all", N: 4, Lo: lo, Hi: hi, A: []int{0, 1, 2}})
		}
	}
	for n := 1; n <= 7; n++ {
		g.Emit(&c11Case{Kind: "perm", N: n})
	}
	ns := []int{5, 6, 7, 8, 9, 10, 12, 15, 16, 17, 20, 31, 32, 33, 40, 100}
	if g.Thorough() {
		ns = nil
		for n := 5; n <= 40; n++ {
			ns = append(ns, n)
		}
		ns = append(ns, 64, 100, 300)
	}
	for _, n := range ns {
		g.Emit(&c11Case{Kind: "structured", N: n})
	}
	g.Emit(&c11Case{Kind: "times"})
	for n := 1; n <= 5; n++ {
		g.Emit(&c11Case{Kind: "chain", N: n})
	}
	// every field element against every boundary value, as one outer product in each orientation (sharded by
	// the high nibble of the element so the chunks run in parallel)
	for lo := 0; lo < 16; lo++ {
		g.Emit(&c11Case{Kind: "times_all", Lo: int64(lo)})
	}
	g.Emit(&c11Case{Kind: "churn"})
	// the same families with the SSSE3 dispatch flag forced off (Matrix row operations then use the scalar kernels)
	g.Emit(&c11Case{Kind: "all", N: 2, Lo: 0, Hi: 1296, A: full, NoSSSE3: true})
	for lo := int64(0); lo < 262144; lo += 16384 {
		g.Emit(&c11Case{Kind: "all", N: 3, Lo: lo, Hi: lo + 16384, A: a3, NoSSSE3: true})
	}
	for n := 1; n <= 6; n++ {
		g.Emit(&c11Case{Kind: "perm", N: n, NoSSSE3: true})
	}
	for _, n := range ns {
		g.Emit(&c11Case{Kind: "structured", N: n, NoSSSE3: true})
	}
}

func c11Run(ci interface{}, r *core.Rec) {
	c := ci.(*c11Case)
	defer func() {
		if c11AliasSeen != "" {
			r.Violate("matrix-shares-storage-with-its-source-slice", c11AliasSeen)
			c11AliasSeen = ""
		}
	}()
	if c.NoSSSE3 {
		old := gf2p16.VerifSetUseSSSE3(false)
		defer gf2p16.VerifSetUseSSSE3(old)
	}
	switch c.Kind {
	case "all":
		n := c.N
		k := int64(len(c.A))
		m := lin.New(n, n)
		sing := 0
		for idx := c.Lo; idx < c.Hi; idx++ {
			if idx&4095 == 0 {
				r.Heartbeat()
			}
			v := idx
			for i := 0; i < n; i++ {
				for j := 0; j < n; j++ {
					m[i][j] = uint16(c.A[v%k])
					v /= k
				}
			}
			before := len(r.Violations)
			c11CheckSquare(r, m, fmt.Sprintf("matrix #%d over %v", idx, c.A))
			if len(r.Violations) > before {
				return
			}
			if lin.Rank(m) < n {
				sing++
			}
		}
		r.AddStates(int(c.Hi - c.Lo))
		r.Outcome(fmt.Sprintf("all n=%d lo=%d singular=%d", n, c.Lo, sing))
		if sing > 0 && int64(sing) < c.Hi-c.Lo {
			r.NontrivialCase()
		}
	case "perm":
		n := c.N
		cnt := 0
		c11Permutations(n, func(p []int) {
			m := lin.New(n, n)
			d := lin.New(n, n)
			for i, j := range p {
				m[i][j] = 1
				d[i][j] = gf16.Exp2(5*i + 11*j + 3)
			}
			c11CheckSquare(r, m, fmt.Sprintf("permutation %v", p))
			c11CheckSquare(r, d, fmt.Sprintf("permutation x diagonal %v", p))
			cnt += 2
		})
		r.AddStates(cnt)
		r.Outcome(fmt.Sprintf("perm n=%d", n))
		r.NontrivialCase()
	case "structured":
		n := c.N
		cnt := 0
		for _, kind := range []string{"vandermonde", "cauchy", "upper", "lower"} {
			c11CheckSquare(r, c11Structured(n, kind, 0), fmt.Sprintf("%s n=%d", kind, n))
			cnt++
		}
		step := 1
		if n > 64 {
			step = n / 16
		}
		for pos := 0; pos < n; pos += step {
			for _, kind := range []string{"rankdef", "zerodiag", "zerocol", "lastpivotfar"} {
				c11CheckSquare(r, c11Structured(n, kind, pos), fmt.Sprintf("%s n=%d pos=%d", kind, n, pos))
				cnt++
			}
		}
		r.AddStates(cnt)
		r.Outcome(fmt.Sprintf("structured n=%d", n))
		r.NontrivialCase()
	case "churn":
		// hundreds of short-lived matrices of one dimension, each dropped and collected before the next is built (so the
		// next one may well be laid out where the last one was), alternately singular and non-singular: an answer
		// remembered under anything but the matrix's contents comes back for the wrong matrix
		cnt := 0
		for _, n := range []int{16, 17, 24, 40} {
			for round := 0; round < 120; round++ {
				m := lin.New(n, n)
				for i := 0; i < n; i++ {
					for j := 0; j < n; j++ {
						m[i][j] = gf16.Exp2(round*131 + i*17 + j*29 + i*j)
					}
				}
				if round%3 == 2 {
					copy(m[n-1], m[0]) // two equal rows: singular
				}
				c11CheckSquare(r, m, fmt.Sprintf("churn n=%d round %d", n, round))
				cnt++
				c11Kept = nil
				runtime.GC()
			}
		}
		r.AddStates(cnt)
		r.Outcome("churn")
		r.NontrivialCase()
	case "chain":
		// results as operands: every sequence of 4 operations in which each result is the next call's operand. After each
		// call the result is compared with the reference and EVERY value made so far (inputs and earlier results) is
		// compared again: a result must be as good an operand as a freshly built matrix
		n := int(c.N)
		mk := func(salt int) lin.M {
			for try := 0; ; try++ {
				m := lin.New(n, n)
				for i := range m {
					for j := range m[i] {
						m[i][j] = gf16.Exp2(salt*131+try*977+(i*7+1)*(j*5+3)) ^ uint16(i*j)
					}
				}
				if !lin.Singular(m) {
					return m
				}
			}
		}
		aRef, bRef := mk(1), mk(2)
		vRef := lin.New(n, 1)
		for i := range vRef {
			vRef[i][0] = gf16.Exp2(i*5 + 3)
		}
		const nOps = 6
		cnt := 0
		for code := 0; code < nOps*nOps*nOps*nOps; code++ {
			type val struct {
				g   gf2p16.Matrix
				ref lin.M
			}
			a, b, v := toG(aRef), toG(bRef), toG(vRef)
			live := []val{{a, aRef}, {b, bRef}, {v, vRef}}
			cur, curRef := a, aRef
			seq := []int{code % nOps, code / nOps % nOps, code / nOps / nOps % nOps, code / nOps / nOps / nOps}
			for step, op := range seq {
				var res gf2p16.Matrix
				var resRef lin.M
				var err error
				pi := core.Catch(func() {
					switch op {
					case 0:
						res, err = cur.RowReduceForInverse(toG(lin.Identity(n)))
						resRef = lin.Solve(curRef, lin.Identity(n))
					case 1:
						res, err = cur.RowReduceForInverse(b)
						resRef = lin.Solve(curRef, bRef)
					case 2:
						res, err = cur.Inverse()
						resRef = lin.Solve(curRef, lin.Identity(n))
					case 3:
						res = cur.Times(b)
						resRef = lin.Mul(curRef, bRef)
					case 4:
						res, err = b.RowReduceForInverse(cur)
						resRef = lin.Solve(bRef, curRef)
					case 5:
						res, err = cur.RowReduceForInverse(v)
						resRef = lin.Solve(curRef, vRef)
					}
				})
				cnt++
				r.AddTransitions(1)
				if pi != nil {
					r.Violatef("chain-panic:"+pi.Frame, "n=%d ops %v step %d: %s", n, seq, step, pi.Value)
					break
				}
				if err != nil {
					r.Violatef("chain-error-for-nonsingular", "n=%d ops %v step %d: %v", n, seq, step, err)
					break
				}
				if !lin.Equal(fromG(res, len(resRef), len(resRef[0])), resRef) {
					r.Violatef("chain-result-wrong", "n=%d ops %v: the result of step %d (operation %d on the previous result) differs from the reference", n, seq, step, op)
					break
				}
				bad := false
				for k, lv := range live {
					if !lin.Equal(fromG(lv.g, len(lv.ref), len(lv.ref[0])), lv.ref) {
						r.Violatef("operand-modified", "n=%d ops %v: after step %d (operation %d) value #%d (0..2 inputs, then earlier results) no longer holds what it held", n, seq, step, op, k)
						bad = true
						break
					}
				}
				if bad {
					break
				}
				live = append(live, val{res, resRef})
				if op != 5 {
					cur, curRef = res, resRef
				}
			}
		}
		r.AddStates(cnt)
		r.Outcome(fmt.Sprintf("chain %d", n))
		r.NontrivialCase()
	case "times_all":
		// (column of 4096 consecutive field elements) x (row of boundary values): the 4096 x B product holds every a*b;
		// and (column of boundary values) x (row of the 4096 elements) for the other operand order
		bset := map[uint16]bool{0: true, 1: true, 0xffff: true, 0x100b & 0xffff: true, 0x00ff: true}
		for k := 1; k < 16; k++ {
			bset[uint16(1)<<k] = true
			bset[uint16(1)<<k-1] = true
			bset[uint16(1)<<k+1] = true
			bset[^(uint16(1) << k)] = true
		}
		var bs []uint16
		for v := 0; v < 1<<16; v++ {
			if bset[uint16(v)] {
				bs = append(bs, uint16(v))
			}
		}
		col := lin.New(4096, 1)
		row := lin.New(1, len(bs))
		for i := range col {
			col[i][0] = uint16(int(c.Lo)*4096 + i)
		}
		copy(row[0], bs)
		c11CheckTimes(r, col, row)
		c11CheckTimes(r, lin.Transpose(row), lin.Transpose(col))
		// and as inner products: 1 x B times B x 1 sums of boundary x element, compared term sets of size 1..B
		for i := 0; i < 4096; i += 257 {
			a := lin.New(1, len(bs))
			b := lin.New(len(bs), 1)
			copy(a[0], bs)
			for j := range b {
				b[j][0] = uint16(int(c.Lo)*4096 + i + j*31)
			}
			c11CheckTimes(r, a, b)
			c11CheckTimes(r, lin.Transpose(b), lin.Transpose(a))
		}
		r.AddStates(2 * 4096 * len(bs))
		r.Outcome("times_all")
		r.NontrivialCase()
	case "times":
		alpha := []uint16{0, 1, 2, 0xffff}
		cnt := 0
		for rr := 1; rr <= 3; rr++ {
			for kk := 1; kk <= 3; kk++ {
				for cc := 1; cc <= 3; cc++ {
					if rr*kk+kk*cc > 10 {
						// larger shapes: a fixed family instead of the full product
						a := lin.New(rr, kk)
						b := lin.New(kk, cc)
						for v := 0; v < 200; v++ {
							for i := range a {
								for j := range a[i] {
									a[i][j] = gf16.Exp2(v*13 + i*7 + j*3)
								}
							}
							for i := range b {
								for j := range b[i] {
									b[i][j] = gf16.Exp2(v*29 + i*11 + j*5 + 1)
								}
							}
							c11CheckTimes(r, a, b)
							cnt++
						}
						continue
					}
					na, nb := rr*kk, kk*cc
					tot := 1
					for i := 0; i < na+nb; i++ {
						tot *= len(alpha)
					}
					a := lin.New(rr, kk)
					b := lin.New(kk, cc)
					for idx := 0; idx < tot; idx++ {
						v := idx
						for i := 0; i < rr; i++ {
							for j := 0; j < kk; j++ {
								a[i][j] = alpha[v%4]
								v /= 4
							}
						}
						for i := 0; i < kk; i++ {
							for j := 0; j < cc; j++ {
								b[i][j] = alpha[v%4]
								v /= 4
							}
						}
						c11CheckTimes(r, a, b)
						cnt++
					}
				}
			}
		}
		// inner dimensions around the byte / power-of-two boundaries: dense operands (no zero entry), operands with
		// one zero per row, and an identity-like left operand; 2 x k times k x 3
		for _, kk := range []int{15, 16, 17, 31, 32, 33, 63, 64, 65, 127, 128, 129, 255, 256, 257, 300, 511, 512, 513} {
			for variant := 0; variant < 3; variant++ {
				a := lin.New(2, kk)
				b := lin.New(kk, 3)
				for i := range a {
					for j := range a[i] {
						a[i][j] = gf16.Exp2(i*977 + j*3 + variant)
						if variant == 1 && j == (i*5+kk/2)%kk {
							a[i][j] = 0
						}
						if variant == 2 && j != (i+kk-1)%kk {
							a[i][j] = 0
						}
					}
				}
				for i := range b {
					for j := range b[i] {
						b[i][j] = gf16.Exp2(i*11 + j*4099 + 1)
					}
				}
				c11CheckTimes(r, a, b)
				// and the transposed shapes: 3 x k result columns become rows (k x 2 left operand of a wide product)
				c11CheckTimes(r, lin.Transpose(b), lin.Transpose(a))
				cnt += 2
			}
		}
		r.AddStates(cnt)
		r.Outcome("times")
		r.NontrivialCase()
	}
}

func c11CheckTimes(r *core.Rec, a, b lin.M) {
	ga, gb := toG(a), toG(b)
	var gp gf2p16.Matrix
	if pi := core.Catch(func() { gp = ga.Times(gb) }); pi != nil {
		r.Violatef("times-panic:"+pi.Frame, "%s", pi.Value)
		return
	}
	r.AddTransitions(1)
	if !lin.Equal(fromG(gp, len(a), len(b[0])), lin.Mul(a, b)) {
		r.Violatef("times-wrong", "%v x %v", c11Show(a), c11Show(b))
	}
	if !lin.Equal(fromG(ga, len(a), len(a[0])), a) || !lin.Equal(fromG(gb, len(b), len(b[0])), b) {
		r.Violate("operand-modified", "Times modified an operand")
	}
}

func init() {
	core.Register(&core.Prop{
		ID:    "C11",
		Level: "model_checking",
		Rule: "bounded-exhaustive matrices: EVERY n x n matrix over an alphabet (n=1,2 over {0,1,2,3,0x100b,0xffff}; n=3 over {0,1,2,0xffff}; n=4 over {0,1}, thorough over {0,1,2} = 3^16); every permutation matrix and permutation x diagonal for n<=7; for n in 5..40,100(,300): Vandermonde, Cauchy, triangular, rank n-1 with the dependent row at every position, a needed row swap at every pivot position (adjacent and with the last row), a zero column at every position; RowReduceForInverse with N=I and a non-square N; Times on every pair of shapes <=3x3x3 over a 4-symbol alphabet and on 2 x k x 3 / 3 x k x 2 products for inner dimensions k around every power of two from 16 to 512 (dense rows, one zero per row, one non-zero per row); every field element times every boundary value (2^k, 2^k-1, 2^k+1, ^2^k, 0, 1, 0xffff) in both operand orders as 4096 x 1 x B outer products; every sequence of 4 operations {RowReduceForInverse with N = I / B / a column, Inverse, Times, as right operand} in which each result is the next call's operand (n = 1..5), every value made so far compared again after each call. " +
			"Every other operand is built by NewMatrixFromSlice over a window of a reused arena that is overwritten right after construction. Oracle: reference determinant (cofactor) and adjugate for n<=4, reference elimination rank + products for larger n; operands compared element-wise before/after each call, and the operands of the last 12 calls (successful or failed) again after every later call. non-trivial = chunk containing both singular and non-singular matrices / structured family",
		Assumptions: []string{"ref/lin uses a different elimination order (last candidate pivot) and cofactor expansion; it shares only ref/gf16 with nothing of gopar"},
		NewCase:     func() interface{} { return &c11Case{} },
		Gen:         c11Gen,
		Run:         c11Run,
	})
}
