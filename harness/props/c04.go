package props

import (
	"bytes"
	"fmt"
	"io/ioutil"
	"os"
	"path/filepath"
	"sort"
	"strings"

	"github.com/akalin/gopar/par1"

	"verifh/core"
	"verifh/envfs"
	"verifh/ref/rpar1"
	"verifh/scen"
)

// C04: PAR1 create / verify / repair round trip.

type p1Case struct {
	Cfg      scen.P1Config `json:"cfg"`
	FileDmg  []int         `json:"fdmg"`             // per file: 0 ok, 1 deleted, 2 last byte changed, 3 truncated by one, 4 emptied, 5 garbage of same length, 6 cut to exactly 16384 bytes, 7 a byte changed beyond the first 16 KiB, 8 three bytes appended
	VolDel   []int         `json:"voldel,omitempty"` // volumes (1-based) deleted
	VolDmg   []int         `json:"voldmg,omitempty"` // per volume: 0 ok, 1 deleted, 2 one byte corrupted, 3 replaced by a foreign set's volume, 4 truncated, 5 valid hashes but wrong parity data
	DC       bool          `json:"dc,omitempty"`
	Extra    []string      `json:"extra,omitempty"`
	DiskTwin bool          `json:"disktwin,omitempty"` // additionally run the same directory through the exported API on a real directory
	Fresh    int           `json:"fresh,omitempty"`    // C04: > 0: a FRESH process whose first PAR1 call handles a set of this many files (the per-set limit on probed volume numbers is 256 - files), followed by the round trip of a 3-file set with 60 volumes of which only the last three survive
	Dec      *decProtoCase `json:"dec,omitempty"`      // C04: operation sequences (with interrupted Repairs and failing loads) on ONE PAR1 Decoder object, see decproto.go
}

func applyP1(s *scen.P1Set, c *p1Case, seed int64) *envfs.FS {
	fs := s.FS0.Clone()
	for i, d := range c.FileDmg {
		if i >= len(s.Paths) {
			break
		}
		b, _ := fs.Get(s.Paths[i])
		switch d {
		case 1:
			fs.Del(s.Paths[i])
		case 2:
			if len(b) > 0 {
				nb := append([]byte{}, b...)
				nb[len(nb)-1] ^= 0x80
				fs.Put(s.Paths[i], nb)
			}
		case 3:
			if len(b) > 0 {
				fs.Put(s.Paths[i], b[:len(b)-1])
			}
		case 4:
			fs.Put(s.Paths[i], nil)
		case 5:
			fs.Put(s.Paths[i], scen.Garbage(seed, 50+i, len(b)))
		case 6:
			// cut down to exactly the first 16 KiB (the part the first-16-KiB hash covers)
			if len(b) > 16384 {
				fs.Put(s.Paths[i], b[:16384])
			}
		case 7:
			// a byte changed beyond the first 16 KiB
			if len(b) > 16384 {
				nb := append([]byte{}, b...)
				nb[16384+(len(nb)-16384)/2] ^= 0x04
				fs.Put(s.Paths[i], nb)
			}
		case 8:
			// bytes appended: the protected content is still there as a prefix (an empty file gains content)
			fs.Put(s.Paths[i], append(append([]byte{}, b...), scen.Garbage(seed, 70+i, 3)...))
		}
	}
	for _, v := range c.VolDel {
		fs.Del(scen.VolPath(s.Index, v))
	}
	for v, k := range c.VolDmg {
		p := scen.VolPath(s.Index, v+1)
		b, ok := fs.Get(p)
		if !ok {
			continue
		}
		switch k {
		case 1:
			fs.Del(p)
		case 2:
			nb := append([]byte{}, b...)
			nb[len(nb)-1] ^= 0x01
			fs.Put(p, nb)
		case 3:
			other, err := scen.GetP1(scen.P1Config{Sizes: []int{len(s.Data[0]) + 1, 3}, Volumes: len(c.VolDmg)}, seed+99)
			if err == nil {
				fs.Put(p, other.FS0.Files[scen.VolPath(other.Index, v+1)])
			}
		case 4:
			fs.Put(p, b[:len(b)-1])
		case 5:
			// a volume with valid hashes (re-written by the reference writer) whose parity data is wrong,
			// at the last byte and, for big shards, beyond the first 16 KiB only
			if vol, err := rpar1.Parse(b); err == nil && len(vol.Data) > 0 {
				nd := append([]byte{}, vol.Data...)
				nd[len(nd)-1] ^= 0x11
				if len(nd) > 17000 {
					nd[17000] ^= 0x22
				} else {
					nd[0] ^= 0x44
				}
				fs.Put(p, rpar1.Write(vol.Number, vol.Entries, nd))
			}
		}
	}
	for i, e := range c.Extra {
		fs.Put(e, scen.Garbage(seed, 600+i, 7))
	}
	return fs
}

type p1Clauses struct {
	RoundTrip   bool // C04
	WriteOracle bool // C02
}

func runP1(c *p1Case, r *core.Rec, cl p1Clauses) {
	s, err := scen.GetP1(c.Cfg, r.Seed)
	if err != nil {
		r.Violatef("create-failed:"+errClass(err), "Create failed for %+v: %v", c.Cfg, err)
		return
	}
	fs := applyP1(s, c, r.Seed)
	t := s.Truth(fs)
	var o, oa scen.P1Obs
	var twinStart *envfs.FS
	if c.DiskTwin {
		twinStart = fs.Clone()
	}
	s.ObserveVerify(fs.Clone(), false, &o)
	s.ObserveVerify(fs.Clone(), true, &oa)
	s.ObserveRepair(fs, c.DC, &o)
	if twinStart != nil && o.VerifyPanic == nil && oa.VerifyPanic == nil && o.RepairPanic == nil {
		diskTwinP1(s, twinStart, &o, &oa, c, r)
	}
	r.AddStates(1)
	r.AddTransitions(3)
	r.Outcome(fmt.Sprintf("v:%s/%+v va:%s/%v r:%s/%d", errClass(o.VerifyErr), o.Result.FileCounts, errClass(oa.VerifyErr), oa.Result.AllDataOk, errClass(o.RepairErr), len(o.RepairedPaths)))

	for _, pi := range []*core.PanicInfo{o.VerifyPanic, oa.VerifyPanic} {
		if pi != nil {
			r.Violate("verify-panic:"+pi.Frame, pi.Value+"\n"+pi.Stack)
		}
	}
	if o.RepairPanic != nil {
		r.Violate("repair-panic:"+o.RepairPanic.Frame, o.RepairPanic.Value+"\n"+o.RepairPanic.Stack)
	}

	if cl.RoundTrip {
		if o.VerifyPanic == nil {
			if o.VerifyErr != nil {
				r.Violatef("verify-error-on-valid-set:"+errClass(o.VerifyErr), "index and surviving volumes are as written by Create, but Verify returned: %v", o.VerifyErr)
			} else {
				fc := o.Result.FileCounts
				if fc.UsableDataFileCount != t.UsableData || fc.UnusableDataFileCount != t.UnusableData {
					r.Violatef("verify-data-counts-wrong", "Verify says usable/unusable data files %d/%d, truth %d/%d (intact=%v)", fc.UsableDataFileCount, fc.UnusableDataFileCount, t.UsableData, t.UnusableData, t.Intact)
				}
				if fc.UsableParityFileCount != t.UsableParity {
					r.Violatef("verify-parity-count-wrong", "Verify says %d usable parity volumes, %d are present and intact", fc.UsableParityFileCount, t.UsableParity)
				}
			}
		}
		if oa.VerifyPanic == nil {
			// asking for the full parity check must not change what Verify reports about the files
			if oa.VerifyErr != nil {
				r.Violatef("verify-alldata-error-on-valid-set:"+errClass(oa.VerifyErr), "Verify with VerifyAllData returned %v where plain Verify returned %v (truth: unusable data %d, usable parity %d)", oa.VerifyErr, o.VerifyErr, t.UnusableData, t.UsableParity)
			} else {
				fc := oa.Result.FileCounts
				if fc.UsableDataFileCount != t.UsableData || fc.UnusableDataFileCount != t.UnusableData || fc.UsableParityFileCount != t.UsableParity {
					r.Violatef("verify-alldata-counts-wrong", "Verify with VerifyAllData says data %d/%d parity %d, truth %d/%d parity %d", fc.UsableDataFileCount, fc.UnusableDataFileCount, fc.UsableParityFileCount, t.UsableData, t.UnusableData, t.UsableParity)
				}
				if oa.Result.AllDataOk && !t.AllIntact {
					r.Violate("alldataok-but-data-damaged", "Verify reported AllDataOk although a data file is not byte-identical")
				}
			}
		}
		if oa.VerifyPanic == nil && oa.VerifyErr == nil && t.AllIntact && t.UsableParity == c.Cfg.Volumes {
			if !oa.Result.AllDataOk {
				r.Violate("untouched-set-not-all-ok", "untouched set: Verify with the full parity check did not report AllDataOk")
			}
		}
		if o.RepairPanic == nil {
			allOrig := s.AllOriginal(o.After)
			if o.RepairErr == nil && !allOrig {
				r.Violatef("repair-nil-but-files-differ", "Repair returned nil but data files are not all byte-identical (unusable=%d parity=%d)", t.UnusableData, t.UsableParity)
			}
			if t.UnusableData <= t.UsableParity && !t.Singular && o.RepairErr != nil {
				r.Violatef("repair-failed-within-capacity:"+errClass(o.RepairErr), "unusable data files %d <= usable parity volumes %d, system non-singular, but Repair returned: %v", t.UnusableData, t.UsableParity, o.RepairErr)
			}
			if t.Singular {
				r.Count("singular_systems", 1)
			}
		}
		if t.UnusableData > 0 && len(o.RepairedPaths) > 0 {
			r.NontrivialCase()
		}
	}
	if cl.WriteOracle {
		for _, ob := range []*scen.P1Obs{&o, &oa} {
			if ob.VerifyWrites != 0 || len(ob.VerifyDiff) != 0 {
				r.Violatef("verify-modified-directory", "Verify performed %d writes, changed %v", ob.VerifyWrites, ob.VerifyDiff)
			}
		}
		for _, b := range scen.CheckWritesGeneric(s.Orig(), o.RepairLog, o.RepairedPaths, o.Before, o.After) {
			r.Violate(b[0], b[1])
		}
		if len(o.RepairLog) > 0 && (o.RepairErr != nil || len(o.RepairedPaths) > 0) {
			r.NontrivialCase()
		}
	}
}

// c04WideFirst is "vcheck aux c04-wide-first <files> <seed>": see p1Case.Fresh.
func c04WideFirst(args []string) int {
	nf, seed := 200, int64(1)
	if len(args) > 1 {
		fmt.Sscan(args[0], &nf)
		fmt.Sscan(args[1], &seed)
	}
	var sz []int
	for i := 0; i < nf; i++ {
		sz = append(sz, 1+i%5)
	}
	wide, err := scen.GetP1(scen.P1Config{Sizes: sz, Volumes: 1}, seed)
	if err != nil {
		fmt.Println("wide create failed:", err)
		return 0
	}
	var wo scen.P1Obs
	wide.ObserveVerify(wide.FS0.Clone(), true, &wo)
	if wo.VerifyErr != nil || !wo.Result.AllDataOk {
		fmt.Printf("wide set does not verify: %v %+v\n", wo.VerifyErr, wo.Result)
		return 0
	}
	s, err := scen.GetP1(scen.P1Config{Sizes: []int{5, 8, 2}, Volumes: 60}, seed)
	if err != nil {
		fmt.Println("create failed:", err)
		return 0
	}
	fs := s.FS0.Clone()
	for v := 1; v <= 57; v++ {
		fs.Del(scen.VolPath(s.Index, v))
	}
	fs.Del(s.Paths[1])
	var o scen.P1Obs
	s.ObserveVerify(fs.Clone(), false, &o)
	if o.VerifyErr != nil || o.Result.FileCounts.UsableParityFileCount != 3 {
		fmt.Printf("Verify: %v, usable volumes %d, want 3\n", o.VerifyErr, o.Result.FileCounts.UsableParityFileCount)
		return 0
	}
	s.ObserveRepair(fs, false, &o)
	if b, ok := fs.Get(s.Paths[1]); o.RepairErr != nil || !ok || !bytes.Equal(b, s.Data[1]) {
		fmt.Printf("Repair: %v, file restored: %v\n", o.RepairErr, ok)
		return 0
	}
	fmt.Println("ok")
	return 0
}

func c04Gen(g *core.Gen) {
	for _, nf := range []int{3, 157, 158, 200, 254} {
		g.Emit(&p1Case{Fresh: nf})
	}
	// the round trip through a Decoder object that lives on: interrupted Repairs, failing loads, retries, and damage /
	// restore events in between (an error path that leaves something behind shows on the next call)
	decDepth := 5
	if g.Thorough() {
		decDepth = 6
	}
	decProtoGen("p1", decDepth, false, func(d *decProtoCase) {
		if d.Fault {
			d.Depth = decDepth // decProtoGen gives the fault alphabet one step less
		}
		g.Emit(&p1Case{Dec: d})
		// the same with the volume events on the HIGHEST volume (a volume with a higher number than any loaded so far
		// arrives between two attempts)
		dl := *d
		dl.VolLast = true
		g.Emit(&p1Case{Dec: &dl})
		if d.Fault {
			// ... and from a directory in which both data files and that volume are already gone (the first attempt is
			// refused for want of volumes, then the volume arrives)
			for _, last := range []bool{false, true} {
				ds := *d
				ds.Start, ds.VolLast = 1, last
				g.Emit(&p1Case{Dec: &ds})
			}
		}
	})
	sizesSet := []int{0, 1, 2, 5, 9}
	maxFiles := 3
	if g.Thorough() {
		maxFiles = 4
	}
	for nf := 1; nf <= maxFiles; nf++ {
		ss := sizesSet
		if nf == 4 {
			ss = []int{0, 1, 5, 9}
		}
		var rec func(cur []int)
		rec = func(cur []int) {
			if g.Stopped() {
				return
			}
			if len(cur) == nf {
				nz := false
				for _, z := range cur {
					if z > 0 {
						nz = true
					}
				}
				if !nz {
					return
				}
				for vols := 1; vols <= 3; vols++ {
					cfg := scen.P1Config{Sizes: append([]int{}, cur...), Volumes: vols}
					// every assignment of damage kinds to files
					dm := make([]int, nf)
					var recD func(i int)
					recD = func(i int) {
						if i == nf {
							for mask := 0; mask < 1<<uint(vols); mask++ {
								var vd []int
								for v := 0; v < vols; v++ {
									if mask&(1<<uint(v)) != 0 {
										vd = append(vd, v+1)
									}
								}
								g.Emit(&p1Case{Cfg: cfg, FileDmg: append([]int{}, dm...), VolDel: vd, DC: (mask+dm[0])%2 == 1})
							}
							return
						}
						kinds := []int{0, 1, 8}
						if cur[i] > 0 {
							kinds = []int{0, 1, 2, 3, 4, 8}
						}
						for _, k := range kinds {
							dm[i] = k
							recD(i + 1)
						}
					}
					recD(0)
				}
				return
			}
			for _, z := range ss {
				rec(append(cur, z))
			}
		}
		rec(nil)
	}
	// default+2 over names, big sizes, many volumes, many files
	names := []string{"plain.txt", "café.bin", "文件.dat", "\U0001F600x.bin", "with space"}
	base := scen.P1Config{Sizes: []int{7, 3, 12, 1, 9}, Names: names, Volumes: 3}
	c04Deviate(g, base, 2)
	// look-alike names: pairs that differ only in letter case (ASCII, Latin-1, the Kelvin sign), in a trailing dot or
	// blank, or that are prefixes of each other - distinct files on a case-sensitive filesystem
	look := scen.P1Config{Sizes: []int{7, 3, 12, 1, 9, 4, 6, 2}, Names: []string{"Readme.txt", "README.TXT", "\u00e9t\u00e9", "\u00c9T\u00c9", "K", "\u212a", "data", "data.bin"}, Volumes: 3}
	c04Deviate(g, look, 2)
	// longest file an exact multiple of 64 KiB (and its neighbours): block-wise processing of the shards ends on a boundary
	for _, z := range []int{65535, 65536, 65537, 131072} {
		c04Deviate(g, scen.P1Config{Sizes: []int{z, 100}, Volumes: 2}, 1)
	}
	big := scen.P1Config{Sizes: []int{16383, 16384, 16385, 20000}, Volumes: 4}
	c04Deviate(g, big, 2)
	for _, k := range []int{6, 7} {
		for f := 2; f <= 3; f++ {
			fd := make([]int, 4)
			fd[f] = k
			g.Emit(&p1Case{Cfg: big, FileDmg: fd, DC: k == 6})
			fd2 := append([]int{}, fd...)
			fd2[0] = 1
			g.Emit(&p1Case{Cfg: big, FileDmg: fd2, VolDel: []int{1}})
		}
	}
	for _, v := range []int{10, 98, 99} {
		many := scen.P1Config{Sizes: []int{5, 8, 2}, Volumes: v}
		// delete a prefix of volumes so that later ones (non-contiguous rows) are used
		for _, del := range [][]int{nil, {1}, {1, 2}, {2}, {1, 3}, {v}, {1, v}} {
			for _, fd := range [][]int{{0, 0, 0}, {1, 0, 0}, {1, 1, 0}, {0, 1, 1}, {1, 1, 1}, {2, 0, 3}} {
				g.Emit(&p1Case{Cfg: many, FileDmg: fd, VolDel: del})
			}
		}
	}
	// long runs of lost volumes: with 20, 60 and 99 volumes, every run [a, a+n) of deleted volumes for run lengths
	// 9..12, 30 and all-but-three, at the start, in the middle and at the end - the survivors lie behind (or before) a gap
	for _, v := range []int{20, 60, 99} {
		many := scen.P1Config{Sizes: []int{5, 8, 2}, Volumes: v}
		for _, n := range []int{9, 10, 11, 12, 30, v - 3} {
			if n >= v {
				continue
			}
			for _, a := range []int{1, (v - n) / 2, v - n + 1} {
				var del []int
				for k := a; k < a+n; k++ {
					del = append(del, k)
				}
				for _, fd := range [][]int{{1, 0, 0}, {1, 1, 0}, {1, 1, 1}} {
					g.Emit(&p1Case{Cfg: many, FileDmg: fd, VolDel: del})
				}
			}
		}
	}
	nf := 20
	if g.Thorough() {
		nf = 40
	}
	var sz []int
	for i := 0; i < nf; i++ {
		sz = append(sz, 1+(i*7)%13)
	}
	wide := scen.P1Config{Sizes: sz, Volumes: 5}
	c04Deviate(g, wide, 2)
	// index files under other base names (ending in characters of the extension, dotted, named like a volume)
	for _, b := range []string{"data", "a", "extra", "foo.par", "s.p01", "par", "r.", "Backup p"} {
		c04Deviate(g, scen.P1Config{Sizes: []int{7, 4, 9}, Volumes: 2, Base: b}, 2)
	}
}

// c04Deviate emits all scenarios with at most D non-default choices among
// per-file damage (kinds 1..4) and per-volume deletion.
func c04Deviate(g *core.Gen, cfg scen.P1Config, D int) {
	type dev struct{ file, kind, vol int }
	var menu []dev
	for f := range cfg.Sizes {
		for _, k := range []int{1, 2, 3, 4, 8} {
			menu = append(menu, dev{file: f, kind: k})
		}
	}
	for v := 1; v <= cfg.Volumes; v++ {
		menu = append(menu, dev{file: -1, vol: v})
	}
	for d := 0; d <= D; d++ {
		forCombos(len(menu), d, func(ix []int) {
			c := &p1Case{Cfg: cfg, FileDmg: make([]int, len(cfg.Sizes))}
			for _, i := range ix {
				m := menu[i]
				if m.file >= 0 {
					if c.FileDmg[m.file] != 0 {
						return // two damages of one file: not a distinct scenario
					}
					c.FileDmg[m.file] = m.kind
				} else {
					c.VolDel = append(c.VolDel, m.vol)
				}
			}
			c.DC = d%2 == 1
			c.DiskTwin = d <= 1
			g.Emit(c)
		})
	}
}

func init() {
	core.Aux["c04-wide-first"] = c04WideFirst
	core.Register(&core.Prop{
		ID:    "C04",
		Level: "model_checking",
		Rule: "(later rounds added: the PAR1 decoder protocol search, both alphabets; a fresh-process probe whose first PAR1 call handles 158 / 200 / 254 files; runs of 9..12, 30 and all-but-three deleted volumes in sets of 20 / 60 / 99; files of 65535 / 65536 / 65537 / 131072 bytes; disk twins from another working directory with upper-case look-alike volumes of another set beside them, three spellings of the index path and a symlinked file) full product: 1-3 (thorough 4) files x sizes {0,1,2,5,9} (not all empty) x volumes {1,2,3} x every assignment of {intact, deleted, last byte changed, truncated, emptied, bytes appended} to the files x every subset of deleted volumes; " +
			"all <=2-deviation scenarios around sets with Unicode/astral names, sizes around 16 KiB, 20/40 files; 10/98/99 volumes with non-contiguous survivors. Each scenario runs real Create, Verify, Verify(all data), Repair. " +
			"Oracle: byte comparison for counts; reference GF(2^8) rank of the system on the first present volumes for must-succeed. non-trivial = damaged scenario where Repair wrote >=1 file",
		Assumptions: []string{"klauspost/reedsolomon picks the first present shards in order; the reference recomputes singularity of exactly that system with its own GF(2^8)"},
		NewCase:     func() interface{} { return &p1Case{} },
		Gen:         c04Gen,
		Run: func(ci interface{}, r *core.Rec) {
			if c := ci.(*p1Case); c.Fresh > 0 {
				out, err := core.FreshProcess("c04-wide-first", fmt.Sprint(c.Fresh), fmt.Sprint(r.Seed))
				r.AddStates(1)
				r.AddTransitions(4)
				if err != nil || strings.TrimSpace(out) != "ok" {
					r.Violatef("round-trip-depends-on-the-first-set-of-the-process", "fresh process, first a set of %d files, then a 3-file set with 60 volumes (p58..p60 left, one file lost): %v %s", c.Fresh, err, strings.TrimSpace(out))
				}
				r.Outcome(fmt.Sprintf("fresh %d", c.Fresh))
				r.NontrivialCase()
				return
			}
			if c := ci.(*p1Case); c.Dec != nil {
				decProtoRun(c.Dec, r, func(d *decProtoCase) interface{} { return &p1Case{Dec: d} })
				return
			}
			runP1(ci.(*p1Case), r, p1Clauses{RoundTrip: true})
		},
	})
}

// diskTwinP1: see diskTwinP2.
func diskTwinP1(s *scen.P1Set, start *envfs.FS, o, oa *scen.P1Obs, c *p1Case, r *core.Rec) {
	twinSeq++
	root := filepath.Join(workerScratch(), fmt.Sprintf("twin1-%d", twinSeq))
	os.RemoveAll(root)
	defer os.RemoveAll(root)
	defer os.RemoveAll(root + "-blob")
	materialize(root, start.Files)
	twinSymlink(root, s.Paths)
	index := filepath.Join(root, s.Index)
	// run from another directory that holds intact look-alikes of every file of the set under the same names: nothing
	// may be resolved against the working directory (the decoy directory lies outside root and must stay as it is)
	decoy := root + "-cwd"
	os.RemoveAll(decoy)
	os.MkdirAll(decoy, 0755)
	defer os.RemoveAll(decoy)
	for p, b := range s.FS0.Files {
		ioutil.WriteFile(filepath.Join(decoy, filepath.Base(p)), b, 0644)
	}
	decoyBefore := readTree(decoy)
	oldwd, _ := os.Getwd()
	os.Chdir(decoy)
	defer os.Chdir(oldwd)
	defer func() {
		if d := envfs.Diff(readTree(decoy), decoyBefore); len(d) > 0 {
			r.Violatef("disk-run-touched-the-working-directory", "the working directory (not the set's) changed: %v", d)
		}
	}()
	// beside the set lie leftovers of ANOTHER set whose names differ from this set's volume names only in case (S.P01
	// beside s.p01, sorting before it): on a case-sensitive filesystem they are other files and must be left alone
	upper := map[string][]byte{}
	if other, oerr := scen.GetP1(scen.P1Config{Sizes: []int{6, 3}, Volumes: len(s.VolPaths) + 1}, 4711); oerr == nil {
		for v, op := range other.VolPaths {
			name := strings.ToUpper(filepath.Base(scen.VolPath(s.Index, v+1)))
			upper[filepath.Join(filepath.Dir(index), name)] = other.FS0.Files[op]
		}
		for p, b := range upper {
			if _, err := os.Lstat(p); err == nil {
				delete(upper, p) // a case-insensitive filesystem, or a name that is upper case already
				continue
			}
			ioutil.WriteFile(p, b, 0644)
		}
	}
	defer func() {
		for p := range upper {
			os.Remove(p)
		}
	}()
	var vres par1.VerifyResult
	var verr, rerr error
	var rres par1.RepairResult
	absIndex := index
	index = twinSpell(decoy, index)
	if pi := core.Catch(func() { vres, verr = par1.Verify(index, par1.VerifyOptions{VerifyAllData: true}) }); pi != nil {
		r.Violate("disk-verify-panic:"+pi.Frame, pi.Value+"\n"+pi.Stack)
		return
	}
	if pi := core.Catch(func() { rres, rerr = par1.Repair(index, par1.RepairOptions{DoubleCheck: c.DC}) }); pi != nil {
		r.Violate("disk-repair-panic:"+pi.Frame, pi.Value+"\n"+pi.Stack)
		return
	}
	r.AddTransitions(2)
	r.Count("disk_twins", 1)
	if (verr == nil) != (oa.VerifyErr == nil) || (verr == nil && vres != oa.Result) {
		r.Violatef("disk-run-differs-from-in-memory-run:verify", "real directory: %v %+v; in-memory: %v %+v", verr, vres, oa.VerifyErr, oa.Result)
	}
	if (rerr == nil) != (o.RepairErr == nil) {
		r.Violatef("disk-run-differs-from-in-memory-run:repair-error", "real directory: %v; in-memory: %v", rerr, o.RepairErr)
	}
	var a, b []string
	_ = absIndex
	for _, p := range rres.RepairedPaths {
		if !filepath.IsAbs(p) {
			p = filepath.Join(decoy, p) // reported relative to the working directory, as the index path was given
		}
		a = append(a, strings.TrimPrefix(filepath.Clean(p), root))
	}
	for _, p := range o.RepairedPaths {
		b = append(b, filepath.Clean(p))
	}
	sort.Strings(a)
	sort.Strings(b)
	if strings.Join(a, "|") != strings.Join(b, "|") {
		r.Violatef("disk-run-differs-from-in-memory-run:repaired-paths", "real directory: %v; in-memory: %v", a, b)
	}
	for p, b := range upper {
		if got, err := ioutil.ReadFile(p); err != nil || !bytes.Equal(got, b) {
			r.Violatef("disk-run-touched-a-look-alike-file", "%s (another set's volume, named like one of this set's but in upper case) was changed or removed", p)
		}
		os.Remove(p)
	}
	if d := envfs.Diff(readTree(root), o.After); len(d) > 0 {
		r.Violatef("disk-run-differs-from-in-memory-run:final-directory", "after Repair the real directory differs from the in-memory one in %v", d)
	}
}
