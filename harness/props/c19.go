package props

import (
	"bytes"
	"crypto/md5"
	"encoding/binary"
	"fmt"
	"io/ioutil"
	"os"
	"path"
	"path/filepath"
	"runtime"
	"sort"
	"strings"

	"github.com/akalin/gopar/par1"
	"github.com/akalin/gopar/par2"

	"verifh/core"
	"verifh/envfs"
	"verifh/ref/rpar1"
	"verifh/ref/rpar2"
	"verifh/scen"
)

// C19: well-checksummed but inconsistent archives are rejected without
// crashing. Every mutation is applied through the reference writers and
// re-checksummed, so only semantic validation can reject it.

type c19Case struct {
	Fmt   string   `json:"fmt"`             // p2, p1
	Muts  []int    `json:"muts"`            // indices into the mutation table
	Names []string `json:"names,omitempty"` // mutation names (informational)
	Where int      `json:"where"`           // 0 index+volumes, 1 index only, 2 volumes only, 3 only the second volume file
	Data  int      `json:"data"`            // 0 data intact, 1 first file missing, 2 second file's first slice overwritten
	Env   []int    `json:"env,omitempty"`   // real-directory case: odd directory entries whose names fall into the set's name space (see c19EnvNames)
}

// ---------------------------------------------------------------- PAR2 spec

type a2desc struct {
	ID, MD5, MD516k [16]byte
	Len             uint64
	Name            []byte // raw, padded
	Drop            bool
	Dup             bool
}
type a2ifsc struct {
	ID   [16]byte
	Sums []rpar2.Checksum
	Tail []byte // extra bytes after the last checksum pair (a partial pair)
	Drop bool
	Dup  bool
	Bare bool // the packet has an empty body: not even the exponent (packet length 64, the minimum)
}
type a2recv struct {
	Exp  uint32
	Data []byte
	Dup  bool
	Bare bool // the packet has an empty body: not even the exponent (packet length 64, the minimum)
}
type a2spec struct {
	Slice       uint64
	Count       uint32
	IDs         [][16]byte
	Descs       []a2desc
	IFSCs       []a2ifsc
	Recvs       []a2recv
	Creator     bool
	Main        bool
	DupMain     bool
	DupCreator  bool
	MainTail    []byte            // extra bytes appended to the main packet body (e.g. a partial id)
	IndexRecv   bool              // put a recovery packet into the index file
	DupVolN     int               // > 0: a further recovery file - named to be listed first (DupVolLast false) or last - repeats exponent 0 with DupVolN-1 bytes of data
	DupVolLast  bool
	IndexRecvN  int               // > 0: that packet carries exponent 0 and IndexRecvN-1 bytes of data (and no volume file has exponent 0)
	Reseal      bool              // recompute the set id from the (mutated) main body; else keep the original id
	LenOverride map[string]uint64 // packet kind -> header length field value
	OrigSetID   [16]byte
	Order       int // packet order inside each file: 0 creator, main, descriptions, checksums; 1 main last; 2 checksums before descriptions; 3 everything reversed; 4 descriptions, checksums, main, creator
}

func (a *a2spec) mainBody() []byte {
	b := make([]byte, 12)
	binary.LittleEndian.PutUint64(b[0:8], a.Slice)
	binary.LittleEndian.PutUint32(b[8:12], a.Count)
	for _, id := range a.IDs {
		b = append(b, id[:]...)
	}
	b = append(b, a.MainTail...)
	return b
}

func (a *a2spec) setID() [16]byte {
	if a.Reseal {
		return md5.Sum(a.mainBody())
	}
	return a.OrigSetID
}

func (a *a2spec) frame(kind string, t [16]byte, body []byte) []byte {
	p := rpar2.Packet(a.setID(), t, body)
	if v, ok := a.LenOverride[kind]; ok {
		binary.LittleEndian.PutUint64(p[8:16], v)
	}
	return p
}

func (a *a2spec) core() [][]byte {
	groups := a.coreGroups()
	pick := func(ix ...int) [][]byte {
		var o [][]byte
		for _, i := range ix {
			o = append(o, groups[i]...)
		}
		return o
	}
	switch a.Order {
	case 1:
		return pick(0, 2, 3, 1)
	case 2:
		return pick(0, 1, 3, 2)
	case 3:
		o := pick(0, 1, 2, 3)
		for i, j := 0, len(o)-1; i < j; i, j = i+1, j-1 {
			o[i], o[j] = o[j], o[i]
		}
		return o
	case 4:
		return pick(2, 3, 1, 0)
	}
	return pick(0, 1, 2, 3)
}

// coreGroups returns the creator, main, description and checksum packets (in that order of groups).
func (a *a2spec) coreGroups() [4][][]byte {
	var groups [4][][]byte
	var out [][]byte
	if a.Creator {
		c := a.frame("creator", rpar2.TypeCreator, []byte("refwriter\x00\x00\x00"))
		out = append(out, c)
		if a.DupCreator {
			out = append(out, c)
		}
	}
	groups[0], out = out, nil
	if a.Main {
		m := a.frame("main", rpar2.TypeMain, a.mainBody())
		out = append(out, m)
		if a.DupMain {
			out = append(out, m)
		}
	}
	groups[1], out = out, nil
	for _, d := range a.Descs {
		if d.Drop {
			continue
		}
		body := append([]byte{}, d.ID[:]...)
		body = append(body, d.MD5[:]...)
		body = append(body, d.MD516k[:]...)
		var l [8]byte
		binary.LittleEndian.PutUint64(l[:], d.Len)
		body = append(body, l[:]...)
		body = append(body, d.Name...)
		p := a.frame("desc", rpar2.TypeFileDesc, body)
		out = append(out, p)
		if d.Dup {
			out = append(out, p)
		}
	}
	groups[2], out = out, nil
	for _, f := range a.IFSCs {
		if f.Drop {
			continue
		}
		body := append([]byte{}, f.ID[:]...)
		for _, c := range f.Sums {
			body = append(body, c.MD5[:]...)
			var x [4]byte
			binary.LittleEndian.PutUint32(x[:], c.CRC)
			body = append(body, x[:]...)
		}
		body = append(body, f.Tail...)
		p := a.frame("ifsc", rpar2.TypeIFSC, body)
		out = append(out, p)
		if f.Dup {
			out = append(out, p)
		}
	}
	groups[3] = out
	return groups
}

func (a *a2spec) volume() []byte { return a.volumeRange(0, len(a.Recvs)) }

func (a *a2spec) volumeRange(lo, hi int) []byte {
	pk := a.core()
	if hi > len(a.Recvs) {
		hi = len(a.Recvs)
	}
	if lo > hi {
		lo = hi
	}
	for _, rv := range a.Recvs[lo:hi] {
		body := make([]byte, 4, 4+len(rv.Data))
		binary.LittleEndian.PutUint32(body, rv.Exp)
		body = append(body, rv.Data...)
		if rv.Bare {
			body = nil
		}
		p := a.frame("recv", rpar2.TypeRecv, body)
		pk = append(pk, p)
		if rv.Dup {
			p2 := append([]byte{}, p...)
			p2[len(p2)-1] ^= 1
			pk = append(pk, rpar2.Rehash(p2))
		}
	}
	return rpar2.Join(pk...)
}

func pad4b(b []byte) []byte {
	for len(b)%4 != 0 {
		b = append(b, 0)
	}
	return b
}

func c19BaseP2(seed int64) (*a2spec, [][]byte, []string) {
	names := []string{"f0", "f1"}
	datas := [][]byte{scen.Content("uniq", seed, 0, 11, 4), scen.Content("uniq", seed, 1, 6, 4)}
	set := rpar2.NewSet(4, []rpar2.FileSpec{{Name: names[0], Data: datas[0]}, {Name: names[1], Data: datas[1]}})
	a := &a2spec{Slice: 4, Count: 2, Creator: true, Main: true, Reseal: true, LenOverride: map[string]uint64{}, OrigSetID: set.SetID}
	for _, f := range set.Files {
		a.IDs = append(a.IDs, f.ID)
		a.Descs = append(a.Descs, a2desc{ID: f.ID, MD5: f.MD5, MD516k: f.MD516k, Len: uint64(len(f.Data)), Name: pad4b([]byte(f.Name))})
		a.IFSCs = append(a.IFSCs, a2ifsc{ID: f.ID, Sums: append([]rpar2.Checksum{}, f.Sums...)})
	}
	for e := 0; e < 5; e++ {
		a.Recvs = append(a.Recvs, a2recv{Exp: uint32(e), Data: set.RecoveryBlock(e)})
	}
	return a, datas, names
}

type c19Mut struct {
	Name string
	P2   func(a *a2spec)
	P1   func(v *a1spec)
}

func u64vals(v uint64) []uint64 {
	return []uint64{0, 1, v - 1, v + 1, v + 4, 1 << 31, 1<<63 - 4, 1 << 63, 1<<64 - 4, 1<<64 - 2, 1<<64 - 1}
}

var c19P2Muts, c19P1Muts []c19Mut

func init() {
	add := func(name string, f func(a *a2spec)) { c19P2Muts = append(c19P2Muts, c19Mut{Name: name, P2: f}) }
	for _, o := range []int{1, 2, 3, 4} {
		o := o
		add(fmt.Sprintf("order=%d (%s)", o, []string{"", "main last", "checksums before descriptions", "reversed", "descriptions, checksums, main, creator"}[o]), func(a *a2spec) { a.Order = o })
	}
	// main packet
	for _, v := range []uint64{0, 1, 3, 5, 8, 12, 16, 1 << 16, 1 << 24, 1<<63 - 4, 1 << 63, 1<<64 - 4, 1<<64 - 1} {
		v := v
		add(fmt.Sprintf("main.slice=%d", v), func(a *a2spec) { a.Slice = v })
		add(fmt.Sprintf("main.slice=%d(stale set id)", v), func(a *a2spec) { a.Slice = v; a.Reseal = false })
	}
	for _, v := range []uint32{0, 1, 3, 1 << 31, 1<<32 - 1} {
		v := v
		add(fmt.Sprintf("main.count=%d", v), func(a *a2spec) { a.Count = v })
	}
	add("main.ids.duplicate", func(a *a2spec) {
		if len(a.IDs) > 1 {
			a.IDs[1] = a.IDs[0]
		}
	})
	add("main.ids.unsorted", func(a *a2spec) {
		if len(a.IDs) > 1 {
			a.IDs[0], a.IDs[1] = a.IDs[1], a.IDs[0]
		}
	})
	add("main.ids.drop-last", func(a *a2spec) {
		if len(a.IDs) > 1 {
			a.IDs = a.IDs[:1]
			a.Count = 1
		}
	})
	// a CONSISTENT set with an absurd slice size: every file then has exactly one (zero-padded) slice
	for _, v := range []uint64{1 << 20, 1<<63 - 4} {
		v := v
		add(fmt.Sprintf("main.slice=%d(consistent: one checksum per file)", v), func(a *a2spec) {
			a.Slice = v
			for k := range a.IFSCs {
				if len(a.IFSCs[k].Sums) > 1 {
					a.IFSCs[k].Sums = a.IFSCs[k].Sums[:1]
				}
			}
		})
	}
	add("main.ids.unknown-extra-recovery", func(a *a2spec) {
		a.IDs = append(a.IDs, [16]byte{0xff, 0xff, 0xff, 0xff, 0xff, 0xff, 0xff, 0xff, 0xff, 0xff, 0xff, 0xff, 0xff, 0xff, 0xff, 0xff})
		a.Count = 3
	})
	add("main.ids.unknown-non-recovery", func(a *a2spec) {
		a.IDs = append(a.IDs, [16]byte{0xff, 0xff, 0xff, 0xff, 0xff, 0xff, 0xff, 0xff, 0xff, 0xff, 0xff, 0xff, 0xff, 0xff, 0xff, 0xff})
	})
	add("main.ids.known-as-non-recovery", func(a *a2spec) { a.Count = 1 })
	// the same with the set id left as it was: the other files of the set then carry a main packet of the SAME set that
	// splits the same ids differently (a reader comparing the two packets element by element meets lists of other lengths)
	add("main.count=1(stale set id)", func(a *a2spec) { a.Count = 1; a.Reseal = false })
	add("main.count=0(stale set id)", func(a *a2spec) { a.Count = 0; a.Reseal = false })
	add("main.count=3(stale set id)", func(a *a2spec) { a.Count = 3; a.Reseal = false })
	add("main.ids.one-more(stale set id)", func(a *a2spec) {
		a.IDs = append(a.IDs, [16]byte{0xff, 0xff, 0xff, 0xff, 0xff, 0xff, 0xff, 0xff, 0xff, 0xff, 0xff, 0xff, 0xff, 0xff, 0xff, 0xff})
		a.Reseal = false
	})
	add("main.ids.one-less(stale set id)", func(a *a2spec) {
		if len(a.IDs) > 1 {
			a.IDs = a.IDs[:len(a.IDs)-1]
			a.Count = uint32(len(a.IDs))
		}
		a.Reseal = false
	})
	// the recovery set is the file with the LARGER id alone; the smaller id is listed as a non-recovery file behind it
	// (each of the two lists is sorted): a reader that re-sorts the whole id list changes which file is protected
	add("main.ids.smaller-id-as-non-recovery", func(a *a2spec) {
		if len(a.IDs) == 2 {
			a.IDs[0], a.IDs[1] = a.IDs[1], a.IDs[0]
			a.Count = 1
		}
	})
	add("main.ids.unknown-non-recovery-sorting-first", func(a *a2spec) { a.IDs = append(a.IDs, [16]byte{1}) })
	add("main.ids.none", func(a *a2spec) { a.IDs = nil })
	add("main.ids.partial-id-appended", func(a *a2spec) { a.MainTail = []byte{1, 2, 3, 4} })
	add("main.ids.partial-id-appended-12", func(a *a2spec) { a.MainTail = []byte{1, 2, 3, 4, 5, 6, 7, 8, 9, 10, 11, 12} })
	add("index.contains-recovery-packet", func(a *a2spec) { a.IndexRecv = true })
	// a second copy of block 0 in a recovery file of its own, of the wrong size, listed before / after the file with the
	// good copy (whatever is checked on a recovery packet is checked on every copy of it)
	for _, n := range []int{0, 12, 64} { // never the slice size of a set here (4 / 8): the oracle knows nothing of this copy
		for _, last := range []bool{false, true} {
			n, last := n, last
			add(fmt.Sprintf("dupvol.recv[0].size=%d.last=%v", n, last), func(a *a2spec) { a.DupVolN, a.DupVolLast = n+1, last })
		}
	}
	// ... whose block is shorter / longer than the slice size (every check made on recovery packets of volume files
	// has to be made on this one, too, if it is accepted at all)
	for _, n := range []int{0, 4, 12, 64} {
		n := n
		add(fmt.Sprintf("index.contains-recovery-packet.size=%d", n), func(a *a2spec) {
			// the only packet with exponent 0, so a Repair that needs blocks starts with this one
			a.IndexRecv, a.IndexRecvN = true, n+1
			if len(a.Recvs) > 1 && a.Recvs[0].Exp == 0 {
				a.Recvs[0].Exp = 77
			}
		})
	}
	add("main.missing", func(a *a2spec) { a.Main = false })
	add("main.duplicated", func(a *a2spec) { a.DupMain = true })
	add("creator.missing", func(a *a2spec) { a.Creator = false })
	add("creator.duplicated", func(a *a2spec) { a.DupCreator = true })
	// file descriptions
	for fi := 0; fi < 2; fi++ {
		fi := fi
		for _, v := range []uint64{0, 1, 2, 3, 4, 5, 7, 8, 9, 10, 11, 12, 13, 15, 16, 17, 1 << 31, 1 << 40, 1<<63 - 1, 1 << 63, 1<<64 - 1} {
			v := v
			add(fmt.Sprintf("desc[%d].len=%d", fi, v), func(a *a2spec) {
				a.Descs[fi].Len = v
				a.Descs[fi].ID = rpar2.FileID(a.Descs[fi].MD516k, v, strings.TrimRight(string(a.Descs[fi].Name), "\x00"))
				for k := range a.IDs {
					if a.IDs[k] == a.IFSCs[fi].ID {
						a.IDs[k] = a.Descs[fi].ID
					}
				}
				a.IFSCs[fi].ID = a.Descs[fi].ID
				sort.Slice(a.IDs, func(i, j int) bool { return rpar2.IDLess(a.IDs[i], a.IDs[j]) })
			})
		}
		add(fmt.Sprintf("desc[%d].md5-wrong", fi), func(a *a2spec) { a.Descs[fi].MD5[3] ^= 1 })
		add(fmt.Sprintf("desc[%d].md516k-wrong(id stale)", fi), func(a *a2spec) { a.Descs[fi].MD516k[3] ^= 1 })
		add(fmt.Sprintf("desc[%d].id-wrong", fi), func(a *a2spec) { a.Descs[fi].ID[0] ^= 1 })
		add(fmt.Sprintf("desc[%d].missing", fi), func(a *a2spec) { a.Descs[fi].Drop = true })
		add(fmt.Sprintf("desc[%d].duplicated", fi), func(a *a2spec) { a.Descs[fi].Dup = true })
		add(fmt.Sprintf("desc[%d].name-empty", fi), func(a *a2spec) { a.Descs[fi].Name = []byte{0, 0, 0, 0} })
		add(fmt.Sprintf("desc[%d].name-none", fi), func(a *a2spec) { a.Descs[fi].Name = nil })
		// the same, and other degenerate names, with the file id recomputed over the new name (fully consistent packets)
		for _, nm := range []string{"", "\x00\x00\x00\x00", "a", "b\x00\x00\x00", "ab", ".", "/", ":", "a:", "C:x", "a\x00b"} {
			nm := nm
			add(fmt.Sprintf("desc[%d].name=%q(id recomputed)", fi, nm), func(a *a2spec) {
				raw := []byte(nm)
				for len(raw)%4 != 0 {
					raw = append(raw, 0)
				}
				a.Descs[fi].Name = raw
				eff := nm
				if i := strings.IndexByte(eff, 0); i >= 0 {
					eff = eff[:i]
				}
				a.Descs[fi].ID = rpar2.FileID(a.Descs[fi].MD516k, a.Descs[fi].Len, eff)
				for k := range a.IDs {
					if a.IDs[k] == a.IFSCs[fi].ID {
						a.IDs[k] = a.Descs[fi].ID
					}
				}
				a.IFSCs[fi].ID = a.Descs[fi].ID
				sort.Slice(a.IDs, func(i, j int) bool { return rpar2.IDLess(a.IDs[i], a.IDs[j]) })
			})
		}
		some := func(a *a2spec) rpar2.Checksum {
			if len(a.IFSCs[fi].Sums) > 0 {
				return a.IFSCs[fi].Sums[0]
			}
			return rpar2.Checksum{}
		}
		add(fmt.Sprintf("ifsc[%d].one-more", fi), func(a *a2spec) { a.IFSCs[fi].Sums = append(a.IFSCs[fi].Sums, some(a)) })
		add(fmt.Sprintf("ifsc[%d].one-less", fi), func(a *a2spec) {
			if n := len(a.IFSCs[fi].Sums); n > 0 {
				a.IFSCs[fi].Sums = a.IFSCs[fi].Sums[:n-1]
			}
		})
		add(fmt.Sprintf("ifsc[%d].empty", fi), func(a *a2spec) { a.IFSCs[fi].Sums = nil })
		add(fmt.Sprintf("ifsc[%d].only-one", fi), func(a *a2spec) {
			if len(a.IFSCs[fi].Sums) > 1 {
				a.IFSCs[fi].Sums = a.IFSCs[fi].Sums[:1]
			}
		})
		add(fmt.Sprintf("ifsc[%d].many", fi), func(a *a2spec) {
			c0 := some(a)
			for k := 0; k < 1000; k++ {
				a.IFSCs[fi].Sums = append(a.IFSCs[fi].Sums, c0)
			}
		})
		add(fmt.Sprintf("ifsc[%d].partial-pair-appended", fi), func(a *a2spec) { a.IFSCs[fi].Tail = []byte{9, 9, 9, 9} })
		add(fmt.Sprintf("ifsc[%d].partial-pair-appended-16", fi), func(a *a2spec) { a.IFSCs[fi].Tail = make([]byte, 16) })
		add(fmt.Sprintf("ifsc[%d].missing", fi), func(a *a2spec) { a.IFSCs[fi].Drop = true })
		add(fmt.Sprintf("ifsc[%d].duplicated", fi), func(a *a2spec) { a.IFSCs[fi].Dup = true })
		add(fmt.Sprintf("ifsc[%d].id-wrong", fi), func(a *a2spec) { a.IFSCs[fi].ID[5] ^= 1 })
		add(fmt.Sprintf("ifsc[%d].crc-wrong", fi), func(a *a2spec) {
			if len(a.IFSCs[fi].Sums) > 0 {
				a.IFSCs[fi].Sums[0].CRC ^= 1
			}
		})
		add(fmt.Sprintf("ifsc[%d].all-same", fi), func(a *a2spec) {
			for k := range a.IFSCs[fi].Sums {
				a.IFSCs[fi].Sums[k] = a.IFSCs[fi].Sums[0]
			}
		})
	}
	// recovery packets
	for _, e := range []uint32{1, 4, 5, 100, 65534, 65535, 65536, 1 << 31, 1<<32 - 1} {
		e := e
		add(fmt.Sprintf("recv[0].exp=%d", e), func(a *a2spec) {
			if len(a.Recvs) > 0 {
				a.Recvs[0].Exp = e
			}
		})
		add(fmt.Sprintf("recv[4].exp=%d", e), func(a *a2spec) {
			if len(a.Recvs) > 4 {
				a.Recvs[4].Exp = e
			}
		})
	}
	for _, n := range []int{0, 4, 8, 12, 64} {
		n := n
		add(fmt.Sprintf("recv[1].size=%d", n), func(a *a2spec) {
			if len(a.Recvs) > 1 {
				a.Recvs[1].Data = make([]byte, n)
			}
		})
		add(fmt.Sprintf("recv[all].size=%d", n), func(a *a2spec) {
			for k := range a.Recvs {
				a.Recvs[k].Data = make([]byte, n)
			}
		})
	}
	for _, k := range []int{0, 1, 4, -1} {
		k := k
		add(fmt.Sprintf("recv[%d].empty-body", k), func(a *a2spec) {
			for i := range a.Recvs {
				if i == k || k < 0 {
					a.Recvs[i].Bare, a.Recvs[i].Data = true, nil
				}
			}
		})
	}
	add("recv[2].duplicate-different-data", func(a *a2spec) {
		if len(a.Recvs) > 2 && len(a.Recvs[2].Data) > 0 {
			a.Recvs[2].Dup = true
		}
	})
	add("recv.none", func(a *a2spec) { a.Recvs = nil })
	add("recv.wrong-data", func(a *a2spec) {
		for k := range a.Recvs {
			a.Recvs[k].Data = append([]byte{}, a.Recvs[k].Data...)
			if len(a.Recvs[k].Data) > 0 {
				a.Recvs[k].Data[0] ^= 0x21
			}
		}
	})
	// packet length field (not covered by the packet hash)
	for _, kind := range []string{"creator", "main", "desc", "ifsc", "recv"} {
		for _, v := range []uint64{0, 4, 60, 63, 64, 65, 68, 1 << 31, 1<<63 - 4, 1 << 63, 1<<64 - 4} {
			kind, v := kind, v
			add(fmt.Sprintf("%s.length=%d", kind, v), func(a *a2spec) { a.LenOverride[kind] = v })
		}
		kind := kind
		add(fmt.Sprintf("%s.length-4", kind), func(a *a2spec) { a.LenOverride[kind] = 1 }) // resolved at build time: see c19Resolve
		add(fmt.Sprintf("%s.length+4", kind), func(a *a2spec) { a.LenOverride[kind] = 2 })
	}
}

// ---------------------------------------------------------------- PAR1 spec

type a1entry struct {
	EntrySize uint64 // 0 = computed
	Status    uint64
	Size      uint64
	MD5       [16]byte
	MD516k    [16]byte
	Name      []byte
	Drop, Dup bool
}
type a1spec struct {
	Version    uint64
	Number     int64 // -1: the volume's own number
	FileCount  int64 // -1 computed
	FileCountU uint64
	ListOffset int64
	ListSize   int64
	ListSizeU  uint64
	DataOffset int64
	DataOffU   uint64
	DataSize   int64
	DataSizeU  uint64
	SetHashBad bool
	Entries    []a1entry
	TruncData  int // bytes to cut from the data section
}

func (v *a1spec) build(number uint64, data []byte) []byte {
	var list []byte
	n := 0
	for _, e := range v.Entries {
		if e.Drop {
			continue
		}
		for rep := 0; rep < 1+b2i(e.Dup); rep++ {
			var h [56]byte
			es := e.EntrySize
			if es == 0 {
				es = uint64(56 + len(e.Name))
			}
			binary.LittleEndian.PutUint64(h[0:], es)
			binary.LittleEndian.PutUint64(h[8:], e.Status)
			binary.LittleEndian.PutUint64(h[16:], e.Size)
			copy(h[24:40], e.MD5[:])
			copy(h[40:56], e.MD516k[:])
			list = append(list, h[:]...)
			list = append(list, e.Name...)
			n++
		}
	}
	if v.TruncData > 0 && v.TruncData <= len(data) {
		data = data[:len(data)-v.TruncData]
	} else if v.TruncData > len(data) {
		data = nil
	}
	out := make([]byte, 0x60)
	copy(out[0:8], []byte{'P', 'A', 'R', 0, 0, 0, 0, 0})
	ver := uint64(0x00010000)
	if v.Version != 0 {
		ver = v.Version
	}
	binary.LittleEndian.PutUint64(out[0x08:], ver)
	var in []byte
	for _, e := range v.Entries {
		if !e.Drop && e.Status&1 != 0 {
			in = append(in, e.MD5[:]...)
		}
	}
	sh := md5.Sum(in)
	if v.SetHashBad {
		sh[0] ^= 1
	}
	copy(out[0x20:0x30], sh[:])
	num := number
	if v.Number >= 0 {
		num = uint64(v.Number)
	}
	binary.LittleEndian.PutUint64(out[0x30:], num)
	pick := func(sel int64, u uint64, def uint64) uint64 {
		switch sel {
		case -1:
			return def
		case -2:
			return u
		}
		return uint64(sel)
	}
	binary.LittleEndian.PutUint64(out[0x38:], pick(v.FileCount, v.FileCountU, uint64(n)))
	binary.LittleEndian.PutUint64(out[0x40:], pick(v.ListOffset, 0, 0x60))
	binary.LittleEndian.PutUint64(out[0x48:], pick(v.ListSize, v.ListSizeU, uint64(len(list))))
	binary.LittleEndian.PutUint64(out[0x50:], pick(v.DataOffset, v.DataOffU, uint64(0x60+len(list))))
	binary.LittleEndian.PutUint64(out[0x58:], pick(v.DataSize, v.DataSizeU, uint64(len(data))))
	out = append(out, list...)
	out = append(out, data...)
	return rpar1.Rehash(out)
}

func b2i(b bool) int {
	if b {
		return 1
	}
	return 0
}

func c19BaseP1(seed int64) (*a1spec, [][]byte, []string) {
	names := []string{"f0", "f1", "f2"}
	datas := [][]byte{scen.Content("uniq", seed, 0, 7, 4), scen.Content("uniq", seed, 1, 5, 4), scen.Content("uniq", seed, 2, 3, 4)}
	v := &a1spec{Number: -1, FileCount: -1, ListOffset: -1, ListSize: -1, DataOffset: -1, DataSize: -1}
	for i := range names {
		e := rpar1.MakeEntry(names[i], datas[i], true)
		v.Entries = append(v.Entries, a1entry{Status: 1, Size: e.Size, MD5: e.MD5, MD516k: e.MD516k, Name: e.RawName})
	}
	return v, datas, names
}

func init() {
	add := func(name string, f func(v *a1spec)) { c19P1Muts = append(c19P1Muts, c19Mut{Name: name, P1: f}) }
	big := []uint64{1 << 31, 1 << 40, 1<<63 - 1, 1 << 63, 1<<64 - 1}
	for _, x := range []int64{0, 1, 2, 4, 5, 255, 256, 257, 1000} {
		x := x
		add(fmt.Sprintf("hdr.filecount=%d", x), func(v *a1spec) { v.FileCount = x })
	}
	for _, u := range big {
		u := u
		add(fmt.Sprintf("hdr.filecount=%d", u), func(v *a1spec) { v.FileCount = -2; v.FileCountU = u })
		add(fmt.Sprintf("hdr.listsize=%d", u), func(v *a1spec) { v.ListSize = -2; v.ListSizeU = u })
		add(fmt.Sprintf("hdr.dataoffset=%d", u), func(v *a1spec) { v.DataOffset = -2; v.DataOffU = u })
		add(fmt.Sprintf("hdr.datasize=%d", u), func(v *a1spec) { v.DataSize = -2; v.DataSizeU = u })
	}
	for _, x := range []int64{0, 1, 0x5f, 0x61, 0x100} {
		x := x
		add(fmt.Sprintf("hdr.listoffset=%d", x), func(v *a1spec) { v.ListOffset = x })
		add(fmt.Sprintf("hdr.listsize=%d", x), func(v *a1spec) { v.ListSize = x })
		add(fmt.Sprintf("hdr.dataoffset=%d", x), func(v *a1spec) { v.DataOffset = x })
		add(fmt.Sprintf("hdr.datasize=%d", x), func(v *a1spec) { v.DataSize = x })
	}
	for _, x := range []int64{0, 1, 2, 3, 99, 100, 255, 1 << 40} {
		x := x
		add(fmt.Sprintf("hdr.volume=%d", x), func(v *a1spec) { v.Number = x })
	}
	// entry counts around the format's 256-shard limit (files saved in the set + volumes <= 256): extra entries whose
	// files are absent, all saved / all not saved
	for _, n := range []int{253, 254, 255, 256, 257, 300} {
		n := n
		for _, st := range []uint64{1, 0} {
			st := st
			add(fmt.Sprintf("entries.total=%d(extra status %d)", n, st), func(v *a1spec) {
				for k := len(v.Entries); k < n; k++ {
					e := rpar1.MakeEntry(fmt.Sprintf("g%03d", k), []byte{byte(k), byte(k >> 8)}, st == 1)
					v.Entries = append(v.Entries, a1entry{Status: st, Size: e.Size, MD5: e.MD5, MD516k: e.MD516k, Name: e.RawName})
				}
			})
		}
	}
	add("hdr.version-high", func(v *a1spec) { v.Version = 0xdeadbeef00010000 })
	add("hdr.version-low", func(v *a1spec) { v.Version = 0x00020000 })
	add("hdr.sethash-wrong", func(v *a1spec) { v.SetHashBad = true })
	for _, n := range []int{1, 2, 6, 7, 8} {
		n := n
		add(fmt.Sprintf("data.truncated-by-%d", n), func(v *a1spec) { v.TruncData = n })
	}
	add("data.empty", func(v *a1spec) { v.TruncData = 1 << 20 })
	for ei := 0; ei < 3; ei++ {
		ei := ei
		for _, x := range []uint64{1, 55, 56, 57, 58, 59, 61, 62, 200, 1 << 31, 1<<63 - 1, 1 << 63, 1<<64 - 2, 1<<64 - 1} {
			x := x
			add(fmt.Sprintf("entry[%d].entrysize=%d", ei, x), func(v *a1spec) { v.Entries[ei].EntrySize = x })
		}
		for _, x := range []uint64{0, 2, 3, 1 << 63, 1<<64 - 1} {
			x := x
			add(fmt.Sprintf("entry[%d].status=%d", ei, x), func(v *a1spec) { v.Entries[ei].Status = x })
		}
		for _, x := range []uint64{0, 1, 2, 4, 6, 7, 8, 9, 100, 1 << 31, 1 << 40, 1<<63 - 1, 1 << 63, 1<<64 - 1} {
			x := x
			add(fmt.Sprintf("entry[%d].filesize=%d", ei, x), func(v *a1spec) { v.Entries[ei].Size = x })
		}
		add(fmt.Sprintf("entry[%d].md5-wrong", ei), func(v *a1spec) { v.Entries[ei].MD5[1] ^= 1 })
		add(fmt.Sprintf("entry[%d].md516k-wrong", ei), func(v *a1spec) { v.Entries[ei].MD516k[1] ^= 1 })
		add(fmt.Sprintf("entry[%d].missing", ei), func(v *a1spec) { v.Entries[ei].Drop = true })
		add(fmt.Sprintf("entry[%d].duplicated", ei), func(v *a1spec) { v.Entries[ei].Dup = true })
		add(fmt.Sprintf("entry[%d].name-odd-bytes", ei), func(v *a1spec) { v.Entries[ei].Name = append(append([]byte{}, v.Entries[ei].Name...), 'x') })
		add(fmt.Sprintf("entry[%d].name-lone-surrogate", ei), func(v *a1spec) { v.Entries[ei].Name = []byte{0x00, 0xd8, 'a', 0} })
	}
}

// ---------------------------------------------------------------- generation

func c19Gen(g *core.Gen) {
	// odd directory entries (real directories): every single kind and every ordered pair
	for _, f := range []string{"p2", "p1"} {
		for a := range c19EnvKinds {
			g.Emit(&c19Case{Fmt: f, Env: []int{a}, Names: []string{c19EnvKinds[a]}})
			for b := range c19EnvKinds {
				if a != b {
					g.Emit(&c19Case{Fmt: f, Env: []int{a, b}, Names: []string{c19EnvKinds[a], c19EnvKinds[b]}})
				}
			}
		}
	}
	for _, f := range []string{"p2", "p1"} {
		n := len(c19P2Muts)
		if f == "p1" {
			n = len(c19P1Muts)
		}
		name := func(i int) string {
			if f == "p2" {
				return c19P2Muts[i].Name
			}
			return c19P1Muts[i].Name
		}
		for i := 0; i < n; i++ {
			for where := 0; where < 4; where++ {
				for data := 0; data < 3; data++ {
					g.Emit(&c19Case{Fmt: f, Muts: []int{i}, Names: []string{name(i)}, Where: where, Data: data})
				}
			}
		}
		// pairs of mutations: ALL pairs; quick places each pair in {index+volumes, volumes only} with the data state
		// rotating, thorough in all four placements x all three data states
		for i := 0; i < n; i++ {
			if g.Stopped() {
				return
			}
			for j := i + 1; j < n; j++ {
				if g.Thorough() {
					for where := 0; where < 4; where++ {
						for data := 0; data < 3; data++ {
							g.Emit(&c19Case{Fmt: f, Muts: []int{i, j}, Names: []string{name(i), name(j)}, Where: where, Data: data})
						}
					}
				} else {
					for _, where := range []int{0, 2} {
						g.Emit(&c19Case{Fmt: f, Muts: []int{i, j}, Names: []string{name(i), name(j)}, Where: where, Data: (i + 2*j + where) % 3})
					}
				}
			}
		}
	}
}

// ---------------------------------------------------------------- execution

var c19MemLimitSet bool

func c19AllocBound(present int, slice uint64, slicesPresent int) uint64 {
	if slice > 1<<26 {
		slice = 1 << 26
	}
	return 64*(uint64(present)+slice*uint64(1+slicesPresent)) + 256<<20
}

// c19EnvKinds: directory entries that are not regular files, placed under names the decoders look for.
var c19EnvKinds = []string{"dangling symlink as a recovery file", "directory as a recovery file", "symlink loop as a recovery file",
	"dangling symlink as a data file", "directory as a data file", "symlink to the index as a recovery file", "empty recovery file", "dangling symlink as a look-alike recovery file"}

// c19RunEnv: a valid set on a real directory plus such entries; exported Verify / Repair must return an error or a
// truthful result and never panic.
func c19RunEnv(c *c19Case, r *core.Rec) {
	c19EnvSeq++
	root := filepath.Join(workerScratch(), fmt.Sprintf("c19env-%d", c19EnvSeq))
	os.RemoveAll(root)
	defer os.RemoveAll(root)
	os.MkdirAll(root, 0755)
	datas := [][]byte{scen.Content("uniq", r.Seed, 0, 11, 4), scen.Content("uniq", r.Seed, 1, 6, 4), scen.Content("uniq", r.Seed, 2, 9, 4)}
	var paths []string
	for i, d := range datas {
		p := filepath.Join(root, fmt.Sprintf("f%d", i))
		ioutil.WriteFile(p, d, 0644)
		paths = append(paths, p)
	}
	index := filepath.Join(root, "s.par2")
	var err error
	if c.Fmt == "p2" {
		err = par2.Create(index, paths, par2.CreateOptions{SliceByteCount: 4, NumParityShards: 4, NumGoroutines: 1})
	} else {
		index = filepath.Join(root, "s.par")
		err = par1.Create(index, paths, par1.CreateOptions{NumParityFiles: 2})
	}
	if err != nil {
		r.Violatef("env-setup-create-failed", "%v", err)
		return
	}
	recName := func(k int) string { // a name the decoder will look for that is not taken yet
		if c.Fmt == "p2" {
			return filepath.Join(root, fmt.Sprintf("s.vol9%d+01.par2", k))
		}
		return filepath.Join(root, fmt.Sprintf("s.p%02d", 3+k))
	}
	os.Remove(paths[2]) // one file is missing: Repair has work to do
	for k, e := range c.Env {
		switch e {
		case 0:
			os.Symlink(filepath.Join(root, "nowhere"), recName(k))
		case 1:
			os.MkdirAll(filepath.Join(recName(k), "inner"), 0755)
		case 2:
			os.Symlink(recName(k), recName(k))
		case 3:
			os.Remove(paths[1])
			os.Symlink(filepath.Join(root, "nowhere2"), paths[1])
		case 4:
			os.Remove(paths[1])
			os.MkdirAll(paths[1], 0755)
		case 5:
			os.Symlink(index, recName(k))
		case 6:
			ioutil.WriteFile(recName(k), nil, 0644)
		case 7:
			if c.Fmt == "p2" {
				os.Symlink(filepath.Join(root, "nowhere3"), filepath.Join(root, "s.backup.par2"))
			} else {
				os.Symlink(filepath.Join(root, "nowhere3"), filepath.Join(root, "s.p01x"))
			}
		}
	}
	for _, op := range []string{"verify", "repair"} {
		var verr error
		usable := -1
		pi := core.Catch(func() {
			switch {
			case c.Fmt == "p2" && op == "verify":
				res, e := par2.Verify(index, par2.VerifyOptions{NumGoroutines: 1})
				verr, usable = e, res.ShardCounts.UsableDataShardCount
			case c.Fmt == "p2":
				_, verr = par2.Repair(index, par2.RepairOptions{NumGoroutines: 1})
			case op == "verify":
				res, e := par1.Verify(index, par1.VerifyOptions{VerifyAllData: true})
				verr, usable = e, res.FileCounts.UsableDataFileCount
			default:
				_, verr = par1.Repair(index, par1.RepairOptions{})
			}
		})
		r.AddTransitions(1)
		what := fmt.Sprintf("%s with %v: %s", c.Fmt, c.Names, op)
		if pi != nil {
			sigOp := op
			if strings.HasPrefix(op, "staged") {
				sigOp = "repair" // the staged calls are what Repair is made of: the same failing input at the same call site is the same failure
			}
			r.Violatef(sigOp+"-panic:"+pi.Frame+":"+panicClass(pi.Value), "%s: %s\n%s", what, pi.Value, pi.Stack)
			continue
		}
		r.Outcome(fmt.Sprintf("env %s %s %s", c.Fmt, op, errClass(verr)))
		if op == "verify" && verr == nil {
			// truthful: never more usable data than really present intact
			present := 0
			for i, p := range paths {
				if b, e := ioutil.ReadFile(p); e == nil && bytes.Equal(b, datas[i]) {
					if c.Fmt == "p2" {
						present += (len(datas[i]) + 3) / 4
					} else {
						present++
					}
				}
			}
			if usable > present {
				r.Violatef("usable-data-not-truthful", "%s: %d usable reported, %d present", what, usable, present)
			}
		}
		if op == "repair" && verr == nil {
			for i, p := range paths {
				if b, e := ioutil.ReadFile(p); e != nil || !bytes.Equal(b, datas[i]) {
					r.Violatef("repair-nil-but-files-differ", "%s returned nil but %s is not original", what, p)
				}
			}
		}
	}
	r.AddStates(1)
	r.NontrivialCase()
}

var c19EnvSeq int

func c19Run(ci interface{}, r *core.Rec) {
	c := ci.(*c19Case)
	if c.Env != nil {
		c19RunEnv(c, r)
		return
	}
	if c.Fmt == "p2" {
		c19RunP2(c, r)
	} else {
		c19RunP1(c, r)
	}
}

func c19RunP2(c *c19Case, r *core.Rec) {
	base, datas, names := c19BaseP2(r.Seed)
	pristine, _, _ := c19BaseP2(r.Seed)
	for _, mi := range c.Muts {
		c19P2Muts[mi].P2(base)
	}
	// resolve relative length overrides (1 => real-4, 2 => real+4)
	resolve := func(a *a2spec) {
		for k, v := range a.LenOverride {
			if v == 1 || v == 2 {
				// compute the real length of the first packet of that kind
				tmp := *a
				tmp.LenOverride = map[string]uint64{}
				real := uint64(0)
				all := append(tmp.core(), nil)
				_ = all
				pk, _ := rpar2.Parse(tmp.volume())
				for _, p := range pk {
					kind := map[[16]byte]string{rpar2.TypeCreator: "creator", rpar2.TypeMain: "main", rpar2.TypeFileDesc: "desc", rpar2.TypeIFSC: "ifsc", rpar2.TypeRecv: "recv"}[p.Type]
					if kind == k {
						real = uint64(64 + len(p.Body))
						break
					}
				}
				if v == 1 {
					a.LenOverride[k] = real - 4
				} else {
					a.LenOverride[k] = real + 4
				}
			}
		}
	}
	resolve(base)
	idxSpec, volSpec := base, base
	switch c.Where {
	case 1:
		volSpec = pristine
	case 2, 3:
		idxSpec = pristine
	}
	fs := envfs.New()
	idxPk := idxSpec.core()
	if idxSpec.IndexRecv && len(idxSpec.Recvs) > 0 {
		rv := idxSpec.Recvs[0]
		body := make([]byte, 4, 4+len(rv.Data))
		binary.LittleEndian.PutUint32(body, rv.Exp)
		body = append(body, rv.Data...)
		if rv.Bare {
			body = nil
		}
		if idxSpec.IndexRecvN > 0 {
			body = make([]byte, 4+idxSpec.IndexRecvN-1)
		}
		idxPk = append(idxPk, idxSpec.frame("recv", rpar2.TypeRecv, body))
	}
	fs.Put("/d/s.par2", rpar2.Join(idxPk...))
	// two volume files (blocks 0-1 and 2-4); where=3 mutates only the second one
	vol1Spec := volSpec
	if c.Where == 3 {
		vol1Spec = pristine
	}
	fs.Put("/d/s.vol0+2.par2", vol1Spec.volumeRange(0, 2))
	fs.Put("/d/s.vol2+3.par2", volSpec.volumeRange(2, 5))
	if volSpec.DupVolN > 0 {
		body := make([]byte, 4+volSpec.DupVolN-1) // exponent 0, then the (wrong-size) block
		name := "/d/s.a-dup.par2"
		if volSpec.DupVolLast {
			name = "/d/s.z-dup.par2"
		}
		fs.Put(name, rpar2.Join(append(volSpec.core(), volSpec.frame("recv", rpar2.TypeRecv, body))...))
	}
	for i, n := range names {
		fs.Put("/d/"+n, datas[i])
	}
	switch c.Data {
	case 1:
		fs.Del("/d/" + names[0])
	case 2:
		b := append([]byte{}, datas[1]...)
		for k := 0; k < 4; k++ {
			b[k] ^= 0xff
		}
		fs.Put("/d/"+names[1], b)
	}
	presentBytes := 0
	for _, p := range fs.Paths() {
		presentBytes += len(fs.Files[p])
	}
	// declared facts, as the index (the authority gopar reads) declares them
	declSlice := idxSpec.Slice
	type declT struct {
		md5 [16]byte
		n   uint64
	}
	decl := map[string][]declT{} // several descriptions may declare the same name
	for _, d := range idxSpec.Descs {
		if !d.Drop {
			nm := string(d.Name)
			if i := strings.IndexByte(nm, 0); i >= 0 {
				nm = nm[:i] // the name ends at the first NUL
			}
			k := path.Clean("/d/" + nm)
			decl[k] = append(decl[k], declT{d.MD5, d.Len})
		}
	}
	// usable-data bound: declared checksum entries whose MD5 matches a window of a present file
	matchable := -1
	if declSlice >= 1 && declSlice <= 1<<16 {
		matchable = 0
		windows := map[[16]byte]bool{}
		for _, n := range names {
			if b, ok := fs.Get("/d/" + n); ok {
				for j := 0; j < len(b); j++ {
					w := make([]byte, declSlice)
					copy(w, b[j:])
					windows[md5.Sum(w)] = true
				}
			}
		}
		for _, f := range idxSpec.IFSCs {
			if f.Drop {
				continue
			}
			for _, cs := range f.Sums {
				if windows[cs.MD5] {
					matchable++
				}
			}
		}
	}
	okBlocks := 0
	seenExp := map[uint32]bool{}
	countBlocks := func(sp *a2spec, lo, hi int) {
		for i, rv := range sp.Recvs {
			if i >= lo && i < hi && uint64(len(rv.Data)) == declSlice && !seenExp[rv.Exp] {
				seenExp[rv.Exp] = true
				okBlocks++
			}
		}
	}
	countBlocks(vol1Spec, 0, 2)
	countBlocks(volSpec, 2, 5)
	bound := c19AllocBound(presentBytes, declSlice, 5)

	var memObs scen.P2Obs
	memPanic := false
	var ms0, ms1 runtime.MemStats
	for _, op := range []string{"verify", "repair", "staged-fp", "staged-pf"} {
		f2 := fs.Clone()
		runtime.ReadMemStats(&ms0)
		var verr error
		var counts par2.ShardCounts
		var rres par2.RepairResult
		pi := core.Catch(func() {
			switch op {
			case "verify":
				res, e := par2.VerifVerify(f2, "/d/s.par2", par2.VerifyOptions{NumGoroutines: 1})
				verr, counts = e, res.ShardCounts
			case "repair":
				res, e := par2.VerifRepair(f2, "/d/s.par2", par2.RepairOptions{NumGoroutines: 1, DoubleCheck: len(c.Muts) == 2})
				verr, rres = e, res
			default:
				// the staged Decoder API in both load orders, stopping at the first error
				var d *par2.Decoder
				if d, verr = par2.VerifNewDecoder(f2, par2.DoNothingDecoderDelegate{}, "/d/s.par2", 1); verr != nil {
					return
				}
				stages := []func() error{d.LoadFileData, d.LoadParityData}
				if op == "staged-pf" {
					stages = []func() error{d.LoadParityData, d.LoadFileData}
				}
				for _, st := range stages {
					if verr = st(); verr != nil {
						return
					}
				}
				if _, verr = d.Repair(len(c.Muts) == 2); verr != nil {
					_, verr = d.Repair(len(c.Muts) == 2) // a refused Repair, asked again
				}
			}
		})
		runtime.ReadMemStats(&ms1)
		r.AddTransitions(1)
		alloc := ms1.TotalAlloc - ms0.TotalAlloc
		what := fmt.Sprintf("PAR2 %v (where=%d data=%d) %s", c.Names, c.Where, c.Data, op)
		if op == "verify" {
			memObs.VerifyErr, memObs.Counts = verr, counts
		} else if op == "repair" {
			memObs.RepairErr, memObs.RepairedPaths, memObs.After = verr, rres.RepairedPaths, f2.Snapshot()
		}
		if pi != nil {
			memPanic = true
		}
		if pi != nil {
			sigOp := op
			if strings.HasPrefix(op, "staged") {
				sigOp = "repair" // the staged calls are what Repair is made of: the same failing input at the same call site is the same failure
			}
			r.Violatef(sigOp+"-panic:"+pi.Frame+":"+panicClass(pi.Value), "%s: %s\n%s", what, pi.Value, pi.Stack)
			continue
		}
		if alloc > bound {
			r.Violatef("allocation-out-of-proportion:"+op, "%s allocated %d bytes; files present %d bytes, declared slice size %d (bound %d)", what, alloc, presentBytes, declSlice, bound)
		}
		r.Outcome(fmt.Sprintf("p2 %s %s", op, errClass(verr)))
		if op == "verify" && verr == nil {
			if counts.UsableParityShardCount > okBlocks {
				r.Violatef("usable-recovery-blocks-not-truthful", "%s: %d usable recovery blocks reported, but only %d distinct recovery packets carry a payload of the declared slice size %d", what, counts.UsableParityShardCount, okBlocks, declSlice)
			}
			if matchable >= 0 && counts.UsableDataShardCount > matchable {
				r.Violatef("usable-data-not-truthful", "%s: %d usable slices reported, but only %d declared checksum entries match bytes actually present", what, counts.UsableDataShardCount, matchable)
			}
			// a verdict "nothing to repair" is a statement about the declared recovery set: judged when the index declares
			// it unambiguously (main packet present, distinct ids, exactly one description per recovery-set id, distinct names)
			if !counts.RepairNeeded() && idxSpec.Main && int(idxSpec.Count) <= len(idxSpec.IDs) && len(idxSpec.MainTail) == 0 {
				clear, bad := true, ""
				seenID := map[[16]byte]bool{}
				for _, id := range idxSpec.IDs {
					if seenID[id] {
						clear = false
					}
					seenID[id] = true
				}
				for _, id := range idxSpec.IDs[:idxSpec.Count] {
					var ds []a2desc
					for _, d := range idxSpec.Descs {
						if !d.Drop && d.ID == id {
							ds = append(ds, d)
						}
					}
					if len(ds) != 1 {
						clear = false
						break
					}
					nm := string(ds[0].Name)
					if i := strings.IndexByte(nm, 0); i >= 0 {
						nm = nm[:i]
					}
					k := path.Clean("/d/" + nm)
					if len(decl[k]) != 1 {
						clear = false
						break
					}
					if b, ok := fs.Get(k); !ok || uint64(len(b)) != ds[0].Len || md5.Sum(b) != ds[0].MD5 {
						bad = k
					}
				}
				if clear && bad != "" {
					r.Violatef("verify-clean-but-recovery-set-file-not-as-declared", "%s: Verify says nothing needs repair, but %s - a file of the recovery set the index declares - is missing or differs from its declared length / MD5", what, bad)
				}
				if clear {
					r.Count("clean_verdicts_judged", 1)
				}
			}
			r.Count("verify_results", 1)
		}
		if op != "verify" {
			for _, w := range f2.Writes() {
				cp := path.Clean(w.Path)
				wants, ok := decl[cp]
				if !ok {
					r.Violatef("repair-wrote-undeclared-path", "%s wrote %q", what, w.Path)
					continue
				}
				match := false
				for _, wnt := range wants {
					if md5.Sum(w.Data) == wnt.md5 && uint64(len(w.Data)) == wnt.n {
						match = true
					}
				}
				if !match {
					r.Violatef("repair-wrote-data-failing-archive-hash", "%s wrote %d bytes to %q that do not match the archive's own MD5/length for that file", what, len(w.Data), w.Path)
				}
			}
			if len(f2.Writes()) > 0 {
				r.Count("repairs_with_writes", 1)
			}
			_ = rres
		}
		if verr != nil {
			r.Count("rejected_"+op, 1)
		}
	}
	// single mutations also run through the exported API on a real directory (same observations required)
	if len(c.Muts) == 1 && !memPanic && declSlice <= 1<<20 {
		twin := &scen.P2Set{Index: "/d/s.par2"}
		diskTwinP2(twin, fs, &memObs, &p2Case{G: 1, DoubleCheck: false}, r)
	}
	r.AddStates(1)
	r.NontrivialCase()
}

func c19RunP1(c *c19Case, r *core.Rec) {
	base, datas, names := c19BaseP1(r.Seed)
	pristine, _, _ := c19BaseP1(r.Seed)
	for _, mi := range c.Muts {
		c19P1Muts[mi].P1(base)
	}
	idxSpec, volSpec := base, base
	switch c.Where {
	case 1:
		volSpec = pristine
	case 2, 3:
		idxSpec = pristine
	}
	fs := envfs.New()
	fs.Put("/d/s.par", idxSpec.build(0, nil))
	for v := 1; v <= 2; v++ {
		vs := volSpec
		if c.Where == 3 && v == 1 {
			vs = pristine // where=3: only the second volume is mutated (volumes then disagree with each other)
		}
		fs.Put(fmt.Sprintf("/d/s.p%02d", v), vs.build(uint64(v), rpar1.Parity(datas, v)))
	}
	for i, n := range names {
		fs.Put("/d/"+n, datas[i])
	}
	switch c.Data {
	case 1:
		fs.Del("/d/" + names[0])
	case 2:
		b := append([]byte{}, datas[1]...)
		b[0] ^= 0xff
		fs.Put("/d/"+names[1], b)
	}
	presentBytes := 0
	for _, p := range fs.Paths() {
		presentBytes += len(fs.Files[p])
	}
	// what the (mutated) index declares, read back leniently from its bytes: entry framing follows
	// the declared entry sizes, so a mutated entry size changes the names an implementation sees
	declMD5 := map[string][][16]byte{}
	anyMD5 := map[[16]byte]bool{}
	matching := 0
	idxBytes, _ := fs.Get("/d/s.par")
	parsedAll := false
	if len(idxBytes) >= 0x60 {
		cnt := binary.LittleEndian.Uint64(idxBytes[0x38:])
		off := uint64(0x60)
		parsedAll = true
		for i := uint64(0); i < cnt && i < 1000; i++ {
			if off+56 > uint64(len(idxBytes)) {
				parsedAll = false
				break
			}
			es := binary.LittleEndian.Uint64(idxBytes[off:])
			if es < 58 || es%2 != 0 || es > uint64(len(idxBytes))-off {
				parsedAll = false
				break
			}
			status := binary.LittleEndian.Uint64(idxBytes[off+8:])
			var h [16]byte
			copy(h[:], idxBytes[off+24:off+40])
			nm := "/d/" + string(decodeUTF16(idxBytes[off+56:off+es]))
			declMD5[nm] = append(declMD5[nm], h)
			anyMD5[h] = true
			if status&1 != 0 {
				if b, ok := fs.Get(nm); ok && md5.Sum(b) == h {
					matching++
				}
			}
			off += es
		}
	}
	for _, e := range idxSpec.Entries {
		anyMD5[e.MD5] = true
	}
	if !parsedAll {
		matching = len(idxSpec.Entries) * 2 // framing broken: no bound claimed
	}
	bound := c19AllocBound(presentBytes, 0, 0)
	var ms0, ms1 runtime.MemStats
	// besides the one-shot wrappers: the staged Decoder API in both load orders (data files first, as the wrappers do,
	// and recovery data first), stopping at the first error - a validation that relies on what an earlier stage loaded
	// must not depend on the order of the stages
	for _, op := range []string{"verify", "repair", "staged-fp", "staged-pf"} {
		f2 := fs.Clone()
		runtime.ReadMemStats(&ms0)
		var verr error
		var res par1.VerifyResult
		stagedImproved := false
		pi := core.Catch(func() {
			switch op {
			case "verify":
				res, verr = par1.VerifVerify(f2, "/d/s.par", par1.VerifyOptions{VerifyAllData: true})
			case "repair":
				_, verr = par1.VerifRepair(f2, "/d/s.par", par1.RepairOptions{DoubleCheck: len(c.Muts) == 2})
			default:
				var d *par1.Decoder
				if d, verr = par1.VerifNewDecoder(f2, par1.DoNothingDecoderDelegate{}, "/d/s.par"); verr != nil {
					return
				}
				stages := []func() error{d.LoadFileData, d.LoadParityData}
				if op == "staged-pf" {
					stages = []func() error{d.LoadParityData, d.LoadFileData}
				}
				for _, st := range stages {
					if verr = st(); verr != nil {
						return
					}
				}
				// a refused call is made a second time on the same object (a refusal must not be forgotten by the time of
				// the next call)
				var ok1 bool
				if ok1, verr = d.VerifyAllData(); verr != nil {
					_, verr = d.VerifyAllData()
					if _, rerr := d.Repair(len(c.Muts) == 2); rerr != nil {
						d.Repair(len(c.Muts) == 2)
					}
				} else if _, verr = d.Repair(len(c.Muts) == 2); verr != nil {
					_, verr = d.Repair(len(c.Muts) == 2)
				}
				// nothing was written: the full check cannot have got better by Repair having been refused
				if len(f2.Writes()) == 0 {
					if ok3, err3 := d.VerifyAllData(); ok3 && err3 == nil && !ok1 {
						stagedImproved = true
					}
				}
			}
		})
		runtime.ReadMemStats(&ms1)
		r.AddTransitions(1)
		alloc := ms1.TotalAlloc - ms0.TotalAlloc
		what := fmt.Sprintf("PAR1 %v (where=%d data=%d) %s", c.Names, c.Where, c.Data, op)
		if pi != nil {
			sigOp := op
			if strings.HasPrefix(op, "staged") {
				sigOp = "repair" // the staged calls are what Repair is made of: the same failing input at the same call site is the same failure
			}
			r.Violatef(sigOp+"-panic:"+pi.Frame+":"+panicClass(pi.Value), "%s: %s\n%s", what, pi.Value, pi.Stack)
			continue
		}
		if alloc > bound {
			r.Violatef("allocation-out-of-proportion:"+op, "%s allocated %d bytes with %d bytes of files present (bound %d)", what, alloc, presentBytes, bound)
		}
		if stagedImproved {
			r.Violatef("verify-alldata-true-after-refused-repair", "%s: VerifyAllData did not report all data ok, Repair wrote nothing, and VerifyAllData on the same object then reported all data ok", what)
		}
		r.Outcome(fmt.Sprintf("p1 %s %s", op, errClass(verr)))
		if op == "verify" && verr == nil {
			if res.FileCounts.UsableDataFileCount > matching {
				r.Violatef("usable-data-not-truthful", "%s: %d usable data files reported, %d declared saved entries match a present file's MD5", what, res.FileCounts.UsableDataFileCount, matching)
			}
			if res.FileCounts.UsableParityFileCount > 2 {
				r.Violatef("usable-parity-not-truthful", "%s: %d usable parity volumes reported, 2 present", what, res.FileCounts.UsableParityFileCount)
			}
			r.Count("verify_results", 1)
		}
		if op != "verify" {
			for _, w := range f2.Writes() {
				cp := path.Clean(w.Path)
				sum := md5.Sum(w.Data)
				ok := false
				if hs, known := declMD5[cp]; known {
					for _, h := range hs {
						if sum == h {
							ok = true
						}
					}
				} else {
					ok = anyMD5[sum] // name not derivable by the reference framing: at least some declared hash must match
				}
				if !ok {
					r.Violatef("repair-wrote-data-failing-archive-hash", "%s wrote %d bytes to %q that do not match the archive's own MD5 for that name", what, len(w.Data), w.Path)
				}
			}
			if len(f2.Writes()) > 0 {
				r.Count("repairs_with_writes", 1)
			}
		}
		if verr != nil {
			r.Count("rejected_"+op, 1)
		}
	}
	r.AddStates(1)
	r.NontrivialCase()
}

// panicClass normalises a panic value (numbers removed) for signatures.
func panicClass(v string) string {
	v = digitsRe.ReplaceAllString(v, "N")
	if len(v) > 50 {
		v = v[:50]
	}
	return v
}

func decodeUTF16(b []byte) []rune {
	var out []rune
	for i := 0; i+1 < len(b); i += 2 {
		out = append(out, rune(uint16(b[i])|uint16(b[i+1])<<8))
	}
	return out
}

func init() {
	core.Register(&core.Prop{
		ID:    "C19",
		Level: "model_checking",
		Rule: "(later rounds added: recovery packets with an empty body; main packets whose non-recovery id sorts first and main packets that keep the set id while splitting / extending / shortening the id lists; the staged Decoder API in both load orders with refused calls repeated; clauses: a clean verdict is about the declared recovery set, and VerifyAllData cannot get better when nothing was written) bounded-exhaustive semantic mutations through the reference writers (every mutated packet / volume is re-checksummed): PAR2: main packet slice size and count at boundary values (with re-sealed and with stale set id), duplicate / unsorted / missing / unknown ids, removal and duplication of each packet type, four non-canonical packet orders, every file description length at boundary values (id recomputed), wrong hashes and ids, checksum lists longer / shorter / empty / huge, recovery exponents {1,4,5,100,65534,65535,65536,2^31,2^32-1}, recovery payloads of size {0,4,8,12,64}, duplicate exponent with different data, and every packet type's length field at {0,4,60,63,64,65,68,real-4,real+4,2^31,2^63-4,2^63,2^64-4}; PAR1: every header field and every entry field at boundary values, entry counts {253..257, 300} (extra entries saved / not saved) around the 256-shard limit, missing / duplicated entries, truncated data, odd name bytes; plus, on real directories, a valid set with directory entries that are not regular files under names the decoders look for (dangling symlink / directory / symlink loop / symlink to the index / empty file as a recovery file or look-alike, dangling symlink / directory as a data file), singly and in all ordered pairs. " +
			"Each mutation applied to index+volumes / index only / volumes only / the second volume file only x data {intact, first file missing, a slice overwritten}; all single mutations in every placement and data state, and ALL pairs (quick: 2 placements, rotating data state; thorough: 4 placements x 3 data states); real Verify and Repair. " +
			"Oracle: no panic / crash / hang; TotalAlloc delta <= 64 x (bytes present + declared slice size x 6) + 256 MiB; usable recovery blocks <= recovery packets whose payload has the declared slice size; usable data <= declared checksum entries matching bytes actually present; every write matches the archive's own MD5 and length for that path. non-trivial = every case",
		Assumptions: []string{"slice sizes >= 2^26 are capped in the allocation bound; 2^31-class slice sizes (seconds of legitimate proportional allocation) are not executed", "TotalAlloc is attributed per execution because workers are single-threaded"},
		NewCase:     func() interface{} { return &c19Case{} },
		Gen:         c19Gen,
		Run:         c19Run,
	})
}
