package props

import (
	"bytes"
	"fmt"
	"io/ioutil"
	"os"
	"path/filepath"
	"sort"

	"github.com/akalin/gopar/par2"

	"verifh/core"
	"verifh/ref/gf16"
	"verifh/ref/lin"
	"verifh/ref/rpar2"
	"verifh/ref/scan"
	"verifh/scen"
)

// C06: gopar reads any conformant PAR2 layout (real directories,
// exported API, because directory search is part of the subject).

type c06Case struct {
	Base     string        `json:"base"`
	Perm     []int         `json:"perm,omitempty"`     // order of the index file's packet groups (creator, main, desc0, ifsc0, desc1, ifsc1)
	Dup      int           `json:"dup"`                // index of the index-file packet to duplicate (-1 none)
	Exps     []int         `json:"exps"`               // recovery block numbers
	NVol     int           `json:"nvol"`               // number of volume files
	VolNames []string      `json:"volnames,omitempty"` // middle parts of the volume names
	Foreign  int           `json:"foreign"`            // position of a foreign-set packet in index and volumes (-1 none)
	Unknown  int           `json:"unknown"`            // position of an unknown-type packet (-1 none)
	UnkType  int           `json:"unktype,omitempty"`  // type of the unknown packet: 0 "PAR 2.0\0Xyzzy"; 1.. types that are NOT the standard ones but resemble them: another prefix before a standard suffix (NewsPostRecvSlic, NewsPostMain, NewsPostFileDesc, NewsPostIFSC), lower case, truncated, another version digit, and the optional UniFileN / CommASCI
	UnkBody  int           `json:"unkbody,omitempty"`  // body of the unknown-type packet: 0 = 8 bytes, 1 = empty (packet length exactly 64), 2 = 1 KiB; 3 = empty body AND foreign set id; 4 = shaped like a recovery packet body (exponent 7 + one slice of bytes)
	VolCore  int           `json:"volcore"`            // 0 full core packets, 1 creator only, 2 creator+main, 3 core packets after the recovery packets
	Subdir   bool          `json:"subdir,omitempty"`   // protected files live in sub-directories
	NamePair int           `json:"namepair,omitempty"` // 1..: the two protected files carry names that are string prefixes of one another / differ in one separator character
	LongName int           `json:"longname,omitempty"` // protected file 1 lives N directories deep (40-byte components): the stored relative name exceeds 255 bytes for N>=7
	RecvRev  bool          `json:"recvrev,omitempty"`  // recovery packets in descending order, duplicated
	Big      int           `json:"big,omitempty"`      // 0: tiny files; 1, 2: files above 16 KiB (17000 and 16500 bytes, slice 500), generation Big-1 of the content beyond the first 16 KiB
	PriorGen bool          `json:"priorgen,omitempty"` // history in the process: the OTHER generation of the same set (same names, lengths, first 16 KiB => same file ids and set id; other content) was verified first, in a directory of its own
	Dec      *decProtoCase `json:"dec,omitempty"`      // operation sequences (incl. loads that fail half-way) on one Decoder object over a foreign layout
	Stray    int           `json:"stray,omitempty"`    // a file matching <base>.*.par2 that holds only another set's packets: 1 = listed first, 2 = between the volumes, 3 = last, 4 = first and last
	Creator  string        `json:"creator,omitempty"`  // client id in the creator packets (default "refwriter"); lengths that are and are not multiples of 4 (no padding / padding)
	CrossDup int           `json:"crossdup,omitempty"` // recovery blocks stored in more than one volume file: 1 = the first block of the first volume also at the end of the last volume, 2 = every block also in the next volume
	DC       int           `json:"dc,omitempty"`       // Repair's double check: 0 = on when an odd number of slices is lost, 1 = on, 2 = off
	Damage   string        `json:"damage"`             // none, del0, del1, ovw0, ovw1
	G        int           `json:"g,omitempty"`
}

func c06Creator(c *c06Case) string {
	if c.Creator != "" {
		return c.Creator
	}
	return "refwriter"
}

func c06Default() c06Case {
	return c06Case{Base: "s", Dup: -1, Exps: []int{0, 1, 2}, NVol: 1, Foreign: -1, Unknown: -1, Damage: "del0", G: 1}
}

func permutations(n int) [][]int {
	var out [][]int
	p := make([]int, n)
	for i := range p {
		p[i] = i
	}
	var rec func(k int)
	rec = func(k int) {
		if k == n {
			out = append(out, append([]int{}, p...))
			return
		}
		for i := k; i < n; i++ {
			p[k], p[i] = p[i], p[k]
			rec(k + 1)
			p[k], p[i] = p[i], p[k]
		}
	}
	rec(0)
	return out
}

// c06Alternatives returns, per dimension, the list of single deviations
// from the default.
func c06Alternatives(allPerms bool) []func(*c06Case) {
	var alts []func(*c06Case)
	perms := permutations(6)
	if !allPerms {
		perms = [][]int{{5, 4, 3, 2, 1, 0}, {1, 0, 2, 3, 4, 5}, {2, 3, 4, 5, 0, 1}, {3, 2, 5, 4, 1, 0}, {1, 2, 3, 4, 5, 0}, {0, 1, 3, 2, 5, 4}, {4, 5, 0, 1, 2, 3}, {0, 2, 4, 1, 3, 5}}
	}
	for _, p := range perms {
		p := p
		id := true
		for i, v := range p {
			if i != v {
				id = false
			}
		}
		if id {
			continue
		}
		alts = append(alts, func(c *c06Case) { c.Perm = p })
	}
	for d := 0; d < 6; d++ {
		d := d
		alts = append(alts, func(c *c06Case) { c.Dup = d })
	}
	pool := []int{0, 1, 2, 5, 9, 100, 2000}
	for k := 1; k <= 4; k++ {
		forCombos(len(pool), k, func(ix []int) {
			var e []int
			for _, i := range ix {
				e = append(e, pool[i])
			}
			if len(e) == 3 && e[0] == 0 && e[1] == 1 && e[2] == 2 {
				return
			}
			alts = append(alts, func(c *c06Case) { c.Exps = e })
		})
	}
	// 65534 = the highest exponent par2cmdline writes (65535 would repeat row 0; gopar rejects it with an error, judged in C19)
	for _, e := range [][]int{{65534}, {5, 65534}, {0, 65533, 65534}} {
		e := e
		alts = append(alts, func(c *c06Case) { c.Exps = e })
	}
	for _, n := range []int{2, 3} {
		n := n
		alts = append(alts, func(c *c06Case) { c.NVol = n })
	}
	for st := 1; st <= 4; st++ {
		st := st
		alts = append(alts, func(c *c06Case) { c.Stray = st })
	}
	for _, cd := range [][2]int{{1, 2}, {2, 2}, {1, 3}, {2, 3}} {
		cd := cd
		alts = append(alts, func(c *c06Case) { c.CrossDup, c.NVol = cd[0], cd[1] })
	}
	for dc := 1; dc <= 2; dc++ {
		dc := dc
		alts = append(alts, func(c *c06Case) { c.DC = dc })
	}
	for _, id := range []string{"x", "par2", "12345", "abcdefgh", "QuickPar 0.9", "par2cmdline v0.8", "a client with a rather long name, version 1.2.3 (build 45678)"} {
		id := id
		alts = append(alts, func(c *c06Case) { c.Creator = id })
	}
	for _, vn := range [][]string{{"x", "y", "z"}, {"a b", "c d", "e"}, {"v[1]", "v[2]", "v[3]"}, {"v*", "w?", "u\\"}, {"vol000+01", "vol001+02", "vol003+99"}, {"par2", "vol.par2", ".."}, {"", "a", "b"}, {"x", "", "y"}} { // "" gives <base>..par2: the '*' of <base>.*.par2 matches nothing
		vn := vn
		alts = append(alts, func(c *c06Case) { c.VolNames = vn })
	}
	for _, b := range []string{"my set", "my[1]", "q?", "a*b", "x\\y", "-dash", "s.tar", "[", "ü"} {
		b := b
		alts = append(alts, func(c *c06Case) { c.Base = b })
	}
	for pos := 1; pos <= 6; pos++ {
		pos := pos
		alts = append(alts, func(c *c06Case) { c.Foreign = pos })
	}
	for pos := 0; pos <= 6; pos++ {
		pos := pos
		alts = append(alts, func(c *c06Case) { c.Unknown = pos })
	}
	for _, ub := range []int{1, 2, 3} {
		for _, pos := range []int{1, 3, 6} {
			ub, pos := ub, pos
			alts = append(alts, func(c *c06Case) { c.Unknown = pos; c.UnkBody = ub })
		}
	}
	for ut := 1; ut <= 9; ut++ {
		for _, ub := range []int{0, 4} {
			for _, pos := range []int{1, 6} {
				ut, ub, pos := ut, ub, pos
				alts = append(alts, func(c *c06Case) { c.Unknown, c.UnkType, c.UnkBody = pos, ut, ub })
			}
		}
	}
	for _, vc := range []int{1, 2, 3} {
		vc := vc
		alts = append(alts, func(c *c06Case) { c.VolCore = vc })
	}
	alts = append(alts, func(c *c06Case) { c.Subdir = true })
	for k := 1; k <= len(c06NamePairs); k++ {
		k := k
		alts = append(alts, func(c *c06Case) { c.NamePair = k })
	}
	for _, ln := range []int{3, 6, 7, 12, 24} {
		ln := ln
		alts = append(alts, func(c *c06Case) { c.LongName = ln })
	}
	alts = append(alts, func(c *c06Case) { c.RecvRev = true })
	for _, dm := range []string{"none", "del1", "ovw0", "ovw1", "del01"} {
		dm := dm
		alts = append(alts, func(c *c06Case) { c.Damage = dm })
	}
	alts = append(alts, func(c *c06Case) { c.G = 3 })
	return alts
}

func c06Gen(g *core.Gen) {
	d0 := c06Default()
	g.Emit(&d0)
	// one Decoder object over a foreign layout (names not in block order, non-contiguous exponents): every operation
	// sequence incl. reloads that fail half-way (error-path alphabet of the decoder protocol search, see C14)
	decDepth := 5
	if g.Thorough() {
		decDepth = 6
	}
	for _, a := range dpFaultAlphabet {
		for _, b := range dpFaultAlphabet {
			g.Emit(&c06Case{Dec: &decProtoCase{Fmt: "p2", Prefix: []int{a, b}, Depth: decDepth, Fault: true, Ref: true}})
		}
	}
	// files above 16 KiB, two generations sharing every id; each read alone and right after the other generation
	for big := 1; big <= 2; big++ {
		for _, prior := range []bool{false, true} {
			for _, dmg := range []string{"none", "del0", "ovw1", "del1"} {
				for volcore := 0; volcore <= 3; volcore++ {
					c := c06Default()
					c.Big, c.PriorGen, c.Damage, c.VolCore = big, prior, dmg, volcore
					c.Exps = []int{0, 1, 2, 5}
					g.Emit(&c)
				}
			}
		}
	}
	all := c06Alternatives(true)
	for _, a := range all {
		c := c06Default()
		a(&c)
		g.Emit(&c)
	}
	red := c06Alternatives(g.Thorough())
	for i := 0; i < len(red); i++ {
		if g.Stopped() {
			return
		}
		for j := i + 1; j < len(red); j++ {
			c := c06Default()
			red[i](&c)
			red[j](&c)
			g.Emit(&c)
		}
	}
	if g.Thorough() {
		small := c06Alternatives(false)
		for i := 0; i < len(small); i++ {
			if g.Stopped() {
				return
			}
			for j := i + 1; j < len(small); j++ {
				for k := j + 1; k < len(small); k++ {
					c := c06Default()
					small[i](&c)
					small[j](&c)
					small[k](&c)
					g.Emit(&c)
				}
			}
		}
	}
}

func workerScratch() string {
	d := os.Getenv("VERIF_WORKER_SCRATCH")
	if d == "" {
		d = filepath.Join(core.ScratchBase(), fmt.Sprintf("verif-scratch-%d", os.Getpid()))
	}
	// every disk run happens below a directory whose name contains look-alikes of the set extensions: a path built by
	// replacing the first ".par" / ".par2" / ".vol" of the whole path instead of the file's own extension goes astray here
	d = filepath.Join(d, "w.par.par2.p01.vol00+01.PAR2.d")
	// ... and below a directory whose name is made of pattern metacharacters: whatever part of a path is handed to a
	// pattern matcher, the directories on the way to the set are names, not patterns
	d = filepath.Join(d, "[set] a*b?c\\d {x,y}")
	os.MkdirAll(d, 0755)
	return d
}

var c06Seq int

func c06Run(ci interface{}, r *core.Rec) {
	c := ci.(*c06Case)
	if c.Dec != nil {
		decProtoRun(c.Dec, r, func(d *decProtoCase) interface{} { return &c06Case{Dec: d} })
		return
	}
	c06Seq++
	root := filepath.Join(workerScratch(), fmt.Sprintf("c06-%d", c06Seq))
	os.RemoveAll(root)
	defer os.RemoveAll(root)
	dirL := filepath.Join(root, "layout")
	dirC := filepath.Join(root, "canon")
	os.MkdirAll(dirL, 0755)
	os.MkdirAll(dirC, 0755)

	names := []string{"f0", "f1"}
	if c.Subdir {
		names = []string{"sub/f0", "sub/deeper/f 1"}
	}
	if c.NamePair > 0 {
		names = c06NamePairs[c.NamePair-1]
	}
	if c.LongName > 0 {
		n := ""
		for k := 0; k < c.LongName; k++ {
			n += fmt.Sprintf("dir%02d-", k) + "0123456789abcdefghijklmnopqrstuvwxyz"[:33] + "/"
		}
		names = []string{names[0], n + "f1"}
	}
	sizes := []int{11, 6}
	slice := 4
	if c.Big > 0 {
		sizes = []int{17000, 16500}
		slice = 500
	}
	content := func(i, generation int) []byte {
		d := scen.Content("uniq", r.Seed, i, sizes[i], slice)
		if generation > 0 && len(d) > 16384 {
			alt := scen.Content("uniq", r.Seed+int64(generation)*100003, i, sizes[i], slice)
			copy(d[16384:], alt[16384:])
		}
		return d
	}
	var specs []rpar2.FileSpec
	var datas [][]byte
	for i, n := range names {
		d := content(i, c.Big-1)
		datas = append(datas, d)
		specs = append(specs, rpar2.FileSpec{Name: n, Data: d})
	}
	set := rpar2.NewSet(slice, specs)
	if c.PriorGen && c.Big > 0 {
		// the other generation, written by the reference writer into its own directory and verified first
		dirP := filepath.Join(root, "prior")
		var pspecs []rpar2.FileSpec
		for i, n := range names {
			d := content(i, 2-c.Big)
			pspecs = append(pspecs, rpar2.FileSpec{Name: n, Data: d})
			pp := filepath.Join(dirP, n)
			os.MkdirAll(filepath.Dir(pp), 0755)
			ioutil.WriteFile(pp, d, 0644)
		}
		pset := rpar2.NewSet(slice, pspecs)
		if pset.SetID != set.SetID {
			r.Violate("harness:generations-do-not-share-the-set-id", "the two generations were meant to have the same recovery-set id")
			return
		}
		pk := pset.CorePackets("refwriter")
		for _, e := range c.Exps {
			pk = append(pk, pset.RecvPacket(uint32(e), pset.RecoveryBlock(e)))
		}
		ioutil.WriteFile(filepath.Join(dirP, c.Base+".par2"), rpar2.Join(pset.CorePackets("refwriter")...), 0644)
		ioutil.WriteFile(filepath.Join(dirP, c.Base+".vol0+9.par2"), rpar2.Join(pk...), 0644)
		core.Catch(func() { par2.Verify(filepath.Join(dirP, c.Base+".par2"), par2.VerifyOptions{NumGoroutines: 1}) })
		r.AddTransitions(1)
	}
	other := rpar2.NewSet(slice, []rpar2.FileSpec{{Name: "zz", Data: scen.Garbage(r.Seed, 4242, 9)}})
	foreignPkt := other.MainPacket()
	if c.Foreign >= 0 || c.Stray != 0 || c.UnkBody == 3 {
		// after everything else in this case: the OTHER set, whose packets this layout carries as foreign ones, is opened
		// by itself in this process - having been passed over as a foreigner must not stick to it
		defer func() {
			dirO := filepath.Join(filepath.Dir(dirL), "other-set")
			os.MkdirAll(dirO, 0755)
			defer os.RemoveAll(dirO)
			ioutil.WriteFile(filepath.Join(dirO, "zz"), scen.Garbage(r.Seed, 4242, 9), 0644)
			ioutil.WriteFile(filepath.Join(dirO, "o.par2"), rpar2.Join(other.CorePackets("refwriter")...), 0644)
			pk := other.CorePackets("refwriter")
			for e := 0; e < 2; e++ {
				pk = append(pk, other.RecvPacket(uint32(e), other.RecoveryBlock(e)))
			}
			ioutil.WriteFile(filepath.Join(dirO, "o.vol0+2.par2"), rpar2.Join(pk...), 0644)
			var res par2.VerifyResult
			var err error
			if pi := core.Catch(func() { res, err = par2.Verify(filepath.Join(dirO, "o.par2"), par2.VerifyOptions{NumGoroutines: 1}) }); pi != nil {
				r.Violate("verify-panic:"+pi.Frame, pi.Value)
				return
			}
			r.AddTransitions(1)
			if err != nil || res.ShardCounts.RepairNeeded() || res.ShardCounts.UsableParityShardCount != 2 {
				r.Violatef("other-set-not-readable-after-being-skipped", "the set whose packets were foreign to the layout just read: Verify of its own intact directory returned %v %+v (want clean, 2 recovery blocks)", err, res.ShardCounts)
			}
		}()
	}
	unkBody := []byte("opaque!!")
	unkSet := set.SetID
	switch c.UnkBody {
	case 1:
		unkBody = nil
	case 2:
		unkBody = bytes.Repeat([]byte("opaque!!"), 128)
	case 3:
		unkBody = nil
		unkSet = other.SetID
	}
	if c.UnkBody == 4 {
		unkBody = append([]byte{7, 0, 0, 0}, bytes.Repeat([]byte{0x5a}, slice)...)
	}
	unkTypes := []string{"PAR 2.0\x00Xyzzy", "NewsPostRecvSlic", "NewsPostMain\x00\x00\x00\x00", "NewsPostFileDesc", "NewsPostIFSC\x00\x00\x00\x00", "PAR 2.0\x00recvslic", "PAR 2.0\x00RecvSli\x00", "PAR 2.1\x00RecvSlic", "PAR 2.0\x00UniFileN", "PAR 2.0\x00CommASCI"}
	var unkT [16]byte
	copy(unkT[:], unkTypes[c.UnkType%len(unkTypes)])
	unknownPkt := rpar2.Packet(unkSet, unkT, unkBody)

	groups := [][]byte{set.CreatorPacket(c06Creator(c)), set.MainPacket()}
	for _, f := range set.Files {
		groups = append(groups, set.DescPacket(f), set.IFSCPacket(f))
	}
	perm := c.Perm
	if perm == nil {
		perm = []int{0, 1, 2, 3, 4, 5}
	}
	var idx [][]byte
	for _, gi := range perm {
		idx = append(idx, groups[gi])
		if c.Dup == gi {
			idx = append(idx, groups[gi])
		}
	}
	insert := func(list [][]byte, pos int, pkt []byte) [][]byte {
		if pos < 0 {
			return list
		}
		if pos > len(list) {
			pos = len(list)
		}
		out := append([][]byte{}, list[:pos]...)
		out = append(out, pkt)
		return append(out, list[pos:]...)
	}
	idx = insert(idx, c.Unknown, unknownPkt)
	if c.Foreign >= 1 {
		idx = insert(idx, c.Foreign, foreignPkt)
	}

	write := func(dir, rel string, b []byte) {
		p := filepath.Join(dir, rel)
		os.MkdirAll(filepath.Dir(p), 0755)
		if err := ioutil.WriteFile(p, b, 0644); err != nil {
			panic(err)
		}
	}
	for i, n := range names {
		write(dirL, n, datas[i])
		write(dirC, n, datas[i])
	}
	indexL := filepath.Join(dirL, c.Base+".par2")
	write(dirL, c.Base+".par2", rpar2.Join(idx...))
	// volumes
	nvol := c.NVol
	vn := c.VolNames
	if vn == nil {
		vn = []string{"vol0+1", "vol1+1", "vol2+2"}
	}
	vols := make([][][]byte, nvol)
	for i, e := range c.Exps {
		v := i % nvol
		vols[v] = append(vols[v], set.RecvPacket(uint32(e), set.RecoveryBlock(e)))
	}
	if c.CrossDup != 0 && nvol >= 2 {
		orig := make([][][]byte, nvol)
		for v := range vols {
			orig[v] = append([][]byte{}, vols[v]...)
		}
		if c.CrossDup == 1 && len(orig[0]) > 0 {
			vols[nvol-1] = append(vols[nvol-1], orig[0][0])
		}
		if c.CrossDup == 2 {
			for v := range orig {
				vols[(v+1)%nvol] = append(vols[(v+1)%nvol], orig[v]...)
			}
		}
	}
	for v := 0; v < nvol; v++ {
		recv := vols[v]
		if c.RecvRev {
			var rr [][]byte
			for i := len(recv) - 1; i >= 0; i-- {
				rr = append(rr, recv[i], recv[i])
			}
			recv = rr
		}
		var pk [][]byte
		switch c.VolCore {
		case 0:
			pk = append(append([][]byte{}, groups...), recv...)
		case 1:
			pk = append([][]byte{groups[0]}, recv...)
		case 2:
			pk = append([][]byte{groups[1], groups[0]}, recv...)
		case 3:
			pk = append(append([][]byte{}, recv...), groups...)
		}
		pk = insert(pk, c.Unknown, unknownPkt)
		if c.Foreign >= 0 {
			pk = insert(pk, c.Foreign-1, foreignPkt)
		}
		write(dirL, c.Base+"."+vn[v%len(vn)]+".par2", rpar2.Join(pk...))
	}
	if c.Stray != 0 {
		strayBytes := rpar2.Join(other.CorePackets("refwriter")...)
		first, mid, last := c.Base+".!first.par2", c.Base+"."+vn[0]+"~.par2", c.Base+".~last.par2"
		switch c.Stray {
		case 1:
			write(dirL, first, strayBytes)
		case 2:
			write(dirL, mid, strayBytes)
		case 3:
			write(dirL, last, strayBytes)
		case 4:
			write(dirL, first, strayBytes)
			write(dirL, last, strayBytes)
		}
	}
	// canonical set by gopar itself with as many blocks as the layout has
	indexC := filepath.Join(dirC, "s.par2")
	var inC []string
	for _, n := range names {
		inC = append(inC, filepath.Join(dirC, n))
	}
	if err := par2.Create(indexC, inC, par2.CreateOptions{SliceByteCount: slice, NumParityShards: len(c.Exps), NumGoroutines: 1}); err != nil {
		r.Violatef("canonical-create-failed:"+errClass(err), "%v", err)
		return
	}
	// damage, identically in both directories
	damage := func(dir string) {
		apply := func(i int, op string) {
			p := filepath.Join(dir, names[i])
			switch op {
			case "del":
				os.Remove(p)
			case "ovw":
				b := append([]byte{}, datas[i]...)
				for k := 0; k < slice && k < len(b); k++ {
					b[k] ^= 0xff
				}
				ioutil.WriteFile(p, b, 0644)
			}
		}
		switch c.Damage {
		case "del0":
			apply(0, "del")
		case "del1":
			apply(1, "del")
		case "del01":
			apply(0, "del")
			apply(1, "del")
		case "ovw0":
			apply(0, "ovw")
		case "ovw1":
			apply(1, "ovw")
		}
	}
	damage(dirL)
	damage(dirC)

	// reference expectation
	var surviving [][]byte
	for _, n := range names {
		if b, err := ioutil.ReadFile(filepath.Join(dirL, n)); err == nil {
			surviving = append(surviving, b)
		}
	}
	sc := scan.Scan(set.AllSlices(), slice, surviving)
	K := sc.CountMissing()
	total := set.SliceCount()
	exps := append([]int{}, c.Exps...)
	sort.Ints(exps)
	N := len(exps)
	var missing []int
	for i, f := range sc.Found {
		if !f {
			missing = append(missing, i)
		}
	}
	consts := gf16.Par2Constants(total)
	singularAny := false
	if K > 0 && K <= N {
		forSubsetsIdx(N, K, func(ix []int) {
			m := lin.New(K, K)
			for a, i := range ix {
				for b, col := range missing {
					m[a][b] = gf16.Pow(consts[col], uint64(exps[i]))
				}
			}
			if lin.Singular(m) {
				singularAny = true
			}
		})
	}

	g := c.G
	var vL, vC par2.VerifyResult
	var eVL, eVC, eRL, eRC error
	if pi := core.Catch(func() { vL, eVL = par2.Verify(indexL, par2.VerifyOptions{NumGoroutines: g}) }); pi != nil {
		r.Violate("verify-panic:"+pi.Frame, pi.Value+"\n"+pi.Stack)
		return
	}
	vC, eVC = par2.Verify(indexC, par2.VerifyOptions{NumGoroutines: g})
	r.AddStates(1)
	r.AddTransitions(4)
	if eVC != nil {
		r.Violatef("canonical-verify-failed:"+errClass(eVC), "%v", eVC)
		return
	}
	if eVL != nil {
		r.Violatef("verify-rejected-conformant-layout:"+errClass(eVL), "Verify on the reference writer's layout returned %v (gopar's own set verifies)", eVL)
	} else {
		a, b := vL.ShardCounts, vC.ShardCounts
		if a.UsableDataShardCount != b.UsableDataShardCount || a.UnusableDataShardCount != b.UnusableDataShardCount {
			r.Violatef("verify-data-counts-differ-from-canonical", "layout: %+v, gopar's own set: %+v", a, b)
		}
		if a.UsableDataShardCount != total-K || a.UnusableDataShardCount != K {
			r.Violatef("verify-data-counts-differ-from-reference", "layout: %+v, reference usable/unusable %d/%d", a, total-K, K)
		}
		if a.UsableParityShardCount != N {
			r.Violatef("verify-did-not-find-all-recovery-blocks", "usable recovery blocks %d, the layout stores %d distinct intact blocks %v beside the index", a.UsableParityShardCount, N, exps)
		}
	}
	dcOn := K%2 == 1
	if c.DC != 0 {
		dcOn = c.DC == 1
	}
	var rL, rC par2.RepairResult
	if pi := core.Catch(func() { rL, eRL = par2.Repair(indexL, par2.RepairOptions{NumGoroutines: g, DoubleCheck: dcOn}) }); pi != nil {
		r.Violate("repair-panic:"+pi.Frame, pi.Value+"\n"+pi.Stack)
		return
	}
	rC, eRC = par2.Repair(indexC, par2.RepairOptions{NumGoroutines: g, DoubleCheck: dcOn})
	_ = rC
	restored := true
	for i, n := range names {
		b, err := ioutil.ReadFile(filepath.Join(dirL, n))
		if err != nil || !bytes.Equal(b, datas[i]) {
			restored = false
		}
	}
	if eRL == nil && !restored {
		r.Violate("repair-nil-but-files-differ", "Repair on the layout returned nil but files are not restored")
	}
	if K <= N && !singularAny {
		if eRL != nil {
			r.Violatef("repair-failed-on-conformant-layout:"+errClass(eRL), "K=%d, blocks %v, non-singular, Repair: %v (gopar's own set: %v)", K, exps, eRL, eRC)
		}
		if eRC != nil {
			r.Violatef("canonical-repair-failed:"+errClass(eRC), "%v", eRC)
		}
	}
	if K > N && eRL == nil {
		r.Violate("repair-succeeded-beyond-capacity", "more slices missing than blocks, yet Repair returned nil")
	}
	if singularAny {
		r.Count("singular_exponent_sets", 1)
	}
	r.Outcome(fmt.Sprintf("v:%s/%+v r:%s/%d K=%d N=%d", errClass(eVL), vL.ShardCounts, errClass(eRL), len(rL.RepairedPaths), K, N))
	if K > 0 && eRL == nil {
		r.NontrivialCase()
	}
}

func forSubsetsIdx(n, k int, f func([]int)) { forCombos(n, k, f) }

// c06NamePairs: protected file names that are string prefixes of one another (in both list orders), or equal up to
// the separator character.
var c06NamePairs = [][]string{{"x.tar", "x.tar.gz"}, {"sub/report.txt", "sub/report"}, {"notes", "notes.bak"}, {"a", "a b"}, {"sub/f", "sub.f"}}

func init() {
	core.Register(&core.Prop{
		ID:    "C06",
		Level: "model_checking",
		Rule: "(later rounds added: recovery blocks stored in several volume files; the double check as a dimension of its own; unknown packet types that resemble the standard ones; creator client ids of 1..61 bytes; the decoder protocol search with faults over a foreign layout; the foreign set verified by itself afterwards) bounded-exhaustive layouts from the reference writer, on real directories through the exported API: the default layout, EVERY single deviation (all 719 packet-group permutations of the index, duplication of each packet, every exponent subset of {0,1,2,5,9,100,2000} of size<=4, 1-3 volume files, 6 volume-name families incl. spaces and glob metacharacters, 9 base names incl. [ ] * ? \\ and non-ASCII, a foreign-set packet at each position, an unknown-type packet at each position (8-byte, empty and 1 KiB bodies; empty-bodied foreign-set packet), volumes with full / creator-only / creator+main / trailing core packets, sub-directory file names, 5 pairs of names that are prefixes of one another, names nested 3-24 directories deep (relative names of 120-980 bytes with 40-byte components), reversed+duplicated recovery packets, 6 damage patterns, goroutines), and all PAIRS of deviations (quick: reduced permutation list; thorough: all permutations, plus all triples over the reduced list). " +
			"Oracle: counts equal gopar's own canonical set for the same data and damage and equal the reference (all intact blocks found); Repair succeeds whenever every K-subset of the stored exponents is non-singular by the reference. non-trivial = damaged scenario repaired",
		Assumptions: []string{"layouts stay inside the statement's envelope: index without recovery packets and starting with an own-set packet, creator packet in every file, ASCII file names, no non-recovery-set files"},
		NewCase:     func() interface{} { c := c06Default(); return &c },
		Gen:         c06Gen,
		Run:         c06Run,
	})
}
