package props

import (
	"fmt"
	"runtime/debug"
	"sort"
	"strings"

	"github.com/akalin/gopar/par1"
	"github.com/akalin/gopar/par2"

	"verifh/core"
	"verifh/envfs"
	"verifh/scen"
)

// Non-interference between top-level calls in one process (part of C14: "over
// any sequence of ... Verify runs and Repair runs").
//
// The directory-state graph executes every Verify / Repair on a directory of
// its own, so anything gopar carried from one call to the next *inside the
// process* (a pooled buffer, a memoised table, a package-level scratch slice)
// would be invisible to it. Here every ordered pair and triple of calls from
// a menu of 54 operations - each on its own private directory - runs back
// to back in one goroutine with garbage collection off, and the observation
// of the LAST call (error text, result, every write, final directory) must
// equal the observation of the same call made alone in a fresh PROCESS ("vcheck aux interfere-base"). No
// hand-written expected value: the oracle is the call itself, alone.

type interfereCase struct {
	Seq []int `json:"seq"` // operation indices; the last one is judged
}

type ifOp struct {
	name string
	run  func(seed int64) string // executes on a private directory, returns the canonical observation
}

func ifObs(fs *envfs.FS, res interface{}, err error, pi *core.PanicInfo) string {
	var sb strings.Builder
	if pi != nil {
		fmt.Fprintf(&sb, "PANIC %s %s|", pi.Frame, pi.Value)
	}
	fmt.Fprintf(&sb, "err=%v|res=%+v|", err, res)
	for _, op := range fs.Log {
		if op.Kind == "write" {
			fmt.Fprintf(&sb, "W %s %x|", op.Path, op.Sum)
		}
	}
	snap := fs.Snapshot()
	var ps []string
	for p := range snap {
		ps = append(ps, p)
	}
	sort.Strings(ps)
	for _, p := range ps {
		fmt.Fprintf(&sb, "F %s %d %x|", p, len(snap[p]), core.Sum16(snap[p]))
	}
	return sb.String()
}

func ifOps() []ifOp {
	var ops []ifOp
	p2cfg := scen.P2Config{Sizes: []int{11, 6}, Slice: 4, Blocks: 3, Class: "uniq"}
	p2cfgB := scen.P2Config{Sizes: []int{70, 33, 64}, Slice: 16, Blocks: 5, Class: "uniq"}
	p1cfg := scen.P1Config{Sizes: []int{7, 4, 9}, Volumes: 2}
	p1cfgB := scen.P1Config{Sizes: []int{40, 64}, Volumes: 3}
	p2state := func(cfg scen.P2Config, seed int64, st string) (*scen.P2Set, *envfs.FS) {
		s, err := scen.GetP2(cfg, seed)
		if err != nil {
			panic(err)
		}
		fs := s.FS0.Clone()
		switch st {
		case "damaged":
			fs.Del(s.Paths[0])
		case "shifted":
			fs.Put(s.Paths[0], append([]byte{0xEE}, s.Data[0]...))
		case "unrepairable":
			for _, p := range s.Paths {
				fs.Del(p)
			}
			fs.Del(s.RecFiles[0])
		case "badindex":
			b := append([]byte{}, fs.Files[s.Index]...)
			b[len(b)/2] ^= 0x20
			fs.Put(s.Index, b)
		case "badrec":
			b := append([]byte{}, fs.Files[s.RecFiles[0]]...)
			b[len(b)-2] ^= 0x20
			fs.Put(s.RecFiles[0], b)
			fs.Del(s.Paths[1])
		}
		return s, fs
	}
	p1state := func(cfg scen.P1Config, seed int64, st string) (*scen.P1Set, *envfs.FS) {
		s, err := scen.GetP1(cfg, seed)
		if err != nil {
			panic(err)
		}
		fs := s.FS0.Clone()
		switch st {
		case "damaged":
			fs.Del(s.Paths[0])
		case "shifted":
			b := append([]byte{}, s.Data[1]...)
			b[0] ^= 0x40
			fs.Put(s.Paths[1], b)
		case "unrepairable":
			for _, p := range s.Paths {
				fs.Del(p)
			}
		case "badindex":
			b := append([]byte{}, fs.Files[s.Index]...)
			b[len(b)/2] ^= 0x20
			fs.Put(s.Index, b)
		case "badrec":
			b := append([]byte{}, fs.Files[s.VolPaths[0]]...)
			b[len(b)-2] ^= 0x20
			fs.Put(s.VolPaths[0], b)
			fs.Del(s.Paths[1])
		}
		return s, fs
	}
	failNthWrite := func(fs *envfs.FS, n int) {
		k := 0
		fs.Hook = func(index int, kind, path string, data []byte) *envfs.Fault {
			if kind == "write" {
				k++
				if k == n {
					return &envfs.Fault{Err: envfs.ErrInjected, Partial: len(data) / 2, Kind: "torn-write"}
				}
			}
			return nil
		}
	}
	for _, st := range []string{"intact", "damaged", "shifted", "unrepairable", "badindex", "badrec"} {
		st := st
		ops = append(ops, ifOp{"p2 verify " + st, func(seed int64) string {
			s, fs := p2state(p2cfg, seed, st)
			fs.ResetLog()
			var res par2.VerifyResult
			var err error
			pi := core.Catch(func() { res, err = par2.VerifVerify(fs, s.Index, par2.VerifyOptions{NumGoroutines: 2}) })
			return ifObs(fs, res, err, pi)
		}})
		ops = append(ops, ifOp{"p1 verify " + st, func(seed int64) string {
			s, fs := p1state(p1cfg, seed, st)
			fs.ResetLog()
			var res par1.VerifyResult
			var err error
			pi := core.Catch(func() { res, err = par1.VerifVerify(fs, s.Index, par1.VerifyOptions{VerifyAllData: true}) })
			return ifObs(fs, res, err, pi)
		}})
	}
	// a twin set: same geometry (sizes, slice size, block count, names, paths), different contents - anything cached
	// by geometry or by path rather than by content / set id would leak from one to the other
	for _, st := range []string{"intact", "damaged", "shifted"} {
		st := st
		ops = append(ops, ifOp{"p2 verify twin " + st, func(seed int64) string {
			s, fs := p2state(p2cfg, seed+7777, st)
			fs.ResetLog()
			var res par2.VerifyResult
			var err error
			pi := core.Catch(func() { res, err = par2.VerifVerify(fs, s.Index, par2.VerifyOptions{NumGoroutines: 2}) })
			return ifObs(fs, res, err, pi)
		}})
		ops = append(ops, ifOp{"p1 verify twin " + st, func(seed int64) string {
			s, fs := p1state(p1cfg, seed+7777, st)
			fs.ResetLog()
			var res par1.VerifyResult
			var err error
			pi := core.Catch(func() { res, err = par1.VerifVerify(fs, s.Index, par1.VerifyOptions{VerifyAllData: true}) })
			return ifObs(fs, res, err, pi)
		}})
		if st == "intact" {
			continue
		}
		ops = append(ops, ifOp{"p2 repair twin " + st, func(seed int64) string {
			s, fs := p2state(p2cfg, seed+7777, st)
			fs.ResetLog()
			var res par2.RepairResult
			var err error
			pi := core.Catch(func() { res, err = par2.VerifRepair(fs, s.Index, par2.RepairOptions{NumGoroutines: 2}) })
			return ifObs(fs, res, err, pi)
		}})
		ops = append(ops, ifOp{"p1 repair twin " + st, func(seed int64) string {
			s, fs := p1state(p1cfg, seed+7777, st)
			fs.ResetLog()
			var res par1.RepairResult
			var err error
			pi := core.Catch(func() { res, err = par1.VerifRepair(fs, s.Index, par1.RepairOptions{}) })
			return ifObs(fs, res, err, pi)
		}})
	}
	for _, st := range []string{"damaged", "shifted", "unrepairable", "badrec"} {
		st := st
		for _, big := range []bool{false, true} {
			big := big
			tag := ""
			if big {
				tag = " (larger set)"
			}
			ops = append(ops, ifOp{"p2 repair " + st + tag, func(seed int64) string {
				cfg := p2cfg
				if big {
					cfg = p2cfgB
				}
				s, fs := p2state(cfg, seed, st)
				fs.ResetLog()
				var res par2.RepairResult
				var err error
				pi := core.Catch(func() {
					res, err = par2.VerifRepair(fs, s.Index, par2.RepairOptions{NumGoroutines: 2, DoubleCheck: big})
				})
				return ifObs(fs, res, err, pi)
			}})
			ops = append(ops, ifOp{"p1 repair " + st + tag, func(seed int64) string {
				cfg := p1cfg
				if big {
					cfg = p1cfgB
				}
				s, fs := p1state(cfg, seed, st)
				fs.ResetLog()
				var res par1.RepairResult
				var err error
				pi := core.Catch(func() { res, err = par1.VerifRepair(fs, s.Index, par1.RepairOptions{DoubleCheck: big}) })
				return ifObs(fs, res, err, pi)
			}})
		}
	}
	// a repair interrupted by a torn write
	ops = append(ops, ifOp{"p2 repair damaged, 1st write torn", func(seed int64) string {
		s, fs := p2state(p2cfg, seed, "unrepairable")
		fs.Put(s.RecFiles[0], s.FS0.Files[s.RecFiles[0]]) // all recovery files back: both files get rewritten
		fs.Put(s.Paths[1], s.Data[1])
		fs.Del(s.Paths[1])
		fs.ResetLog()
		failNthWrite(fs, 1)
		var res par2.RepairResult
		var err error
		pi := core.Catch(func() { res, err = par2.VerifRepair(fs, s.Index, par2.RepairOptions{NumGoroutines: 1}) })
		return ifObs(fs, res, err, pi)
	}})
	ops = append(ops, ifOp{"p1 repair damaged, 1st write torn", func(seed int64) string {
		s, fs := p1state(p1cfg, seed, "damaged")
		fs.ResetLog()
		failNthWrite(fs, 1)
		var res par1.RepairResult
		var err error
		pi := core.Catch(func() { res, err = par1.VerifRepair(fs, s.Index, par1.RepairOptions{}) })
		return ifObs(fs, res, err, pi)
	}})
	// creates: successful, failing late, interrupted
	mkCreate := func(format string, variant int) ifOp {
		return ifOp{fmt.Sprintf("%s create variant %d", format, variant), func(seed int64) string {
			fs := envfs.New()
			var paths []string
			sizes := []int{13, 8, 21}
			if variant == 1 {
				sizes = []int{100, 1}
			}
			for i, n := range sizes {
				p := fmt.Sprintf("/c/in%d", i)
				fs.Put(p, scen.Content("uniq", seed, 50+i, n, 4))
				paths = append(paths, p)
			}
			switch variant {
			case 2:
				fs.Put("/c/empty", []byte{})
				paths = append(paths, "/c/empty")
			case 3:
				paths = append(paths, "/c/absent")
			case 4:
				failNthWrite(fs, 2)
			}
			fs.ResetLog()
			var err error
			pi := core.Catch(func() {
				blocks := 3
				switch variant {
				case 5:
					blocks = 5 // a last recovery file that is not full
				case 6:
					blocks = 7
				}
				if format == "p2" {
					err = par2.VerifCreate(fs, "/c/t.par2", paths, par2.CreateOptions{SliceByteCount: 8, NumParityShards: blocks, NumGoroutines: 2})
				} else {
					err = par1.VerifCreate(fs, "/c/t.par", paths, par1.CreateOptions{NumParityFiles: blocks - 1})
				}
			})
			return ifObs(fs, nil, err, pi)
		}}
	}
	for _, f := range []string{"p2", "p1"} {
		for v := 0; v <= 6; v++ {
			ops = append(ops, mkCreate(f, v))
		}
	}
	return ops
}

var ifOpsCache []ifOp
var ifBase = map[string]string{}

func interfereGen(emit func(*interfereCase), thorough bool) {
	n := len(ifOps())
	for a := 0; a < n; a++ {
		for b := 0; b < n; b++ {
			emit(&interfereCase{Seq: []int{a, b}})
		}
	}
	// triples: quick - the middle call is one of the failing / interrupted ones; thorough - all
	ops := ifOps()
	for a := 0; a < n; a++ {
		for m := 0; m < n; m++ {
			if !thorough && !strings.Contains(ops[m].name, "torn") && !strings.Contains(ops[m].name, "variant 2") && !strings.Contains(ops[m].name, "unrepairable") && !strings.Contains(ops[m].name, "bad") {
				continue
			}
			for b := 0; b < n; b++ {
				emit(&interfereCase{Seq: []int{a, m, b}})
			}
		}
	}
}

func interfereRun(c *interfereCase, r *core.Rec) {
	if ifOpsCache == nil {
		ifOpsCache = ifOps()
	}
	ops := ifOpsCache
	last := c.Seq[len(c.Seq)-1]
	bkey := fmt.Sprintf("%d/%d", last, r.Seed)
	base, ok := ifBase[bkey]
	if !ok {
		// the call alone, in a FRESH process (this worker has a past of its own: a reference made here would share
		// whatever the process has accumulated with the runs it is compared to); twice, to make sure the observation
		// itself is deterministic
		var err error
		base, err = core.FreshProcess("interfere-base", fmt.Sprint(last), fmt.Sprint(r.Seed))
		if err != nil {
			r.Violatef("harness:fresh-process-failed", "%v", err)
			return
		}
		if again, _ := core.FreshProcess("interfere-base", fmt.Sprint(last), fmt.Sprint(r.Seed)); again != base {
			r.Violatef("interference:call-not-deterministic", "%s: two fresh processes differ\n%s\n%s", ops[last].name, base, again)
			return
		}
		ifBase[bkey] = base
	}
	old := debug.SetGCPercent(-1)
	var got string
	for i, o := range c.Seq {
		r.Heartbeat()
		x := ops[o].run(r.Seed)
		if i == len(c.Seq)-1 {
			got = x
		}
	}
	debug.SetGCPercent(old)
	r.AddStates(1)
	r.AddTransitions(len(c.Seq))
	var names []string
	for _, o := range c.Seq {
		names = append(names, ops[o].name)
	}
	if got != base {
		r.Violatef("interference:"+ops[last].name, "after [%s] the call %q observes\n  %s\nbut alone it observes\n  %s", strings.Join(names[:len(names)-1], "; "), ops[last].name, firstDiff(got, base), firstDiff(base, got))
	}
	r.Outcome(fmt.Sprintf("%d %x", last, core.Sum16([]byte(got))))
	r.NontrivialCase()
}

// firstDiff returns the part of a around the first position where it differs from b.
func firstDiff(a, b string) string {
	i := 0
	for i < len(a) && i < len(b) && a[i] == b[i] {
		i++
	}
	lo := i - 80
	if lo < 0 {
		lo = 0
	}
	hi := i + 160
	if hi > len(a) {
		hi = len(a)
	}
	return "..." + a[lo:hi] + "..."
}

func init() {
	core.Aux["interfere-base"] = func(args []string) int {
		if len(args) != 2 {
			return 2
		}
		var op int
		var seed int64
		fmt.Sscan(args[0], &op)
		fmt.Sscan(args[1], &seed)
		ops := ifOps()
		if op < 0 || op >= len(ops) {
			return 2
		}
		fmt.Print(ops[op].run(seed))
		return 0
	}
}
