package props

import (
	"bytes"
	"fmt"
	"path"
	"runtime/debug"
	"sort"
	"strings"

	"github.com/akalin/gopar/gf2p16"
	"github.com/akalin/gopar/par2"

	"verifh/core"
	"verifh/envfs"
	"verifh/ref/rpar2"
	"verifh/scen"
)

// C05: created PAR2 sets are valid PAR2 and carry the specified
// Reed-Solomon data, judged by the independent reader.

type c05Case struct {
	Sizes      []int         `json:"sizes"`
	Names      []string      `json:"names"`
	Slice      int           `json:"slice"`
	Blocks     int           `json:"blocks"`
	G          int           `json:"g"`
	Class      string        `json:"class,omitempty"`
	MayRefuse  bool          `json:"may_refuse,omitempty"`
	NoSSSE3    bool          `json:"nossse3,omitempty"`    // Create with the SSSE3 dispatch flag forced off
	Prior      int           `json:"prior,omitempty"`      // history inside one process: before this Create, 1..4 = a Create that fails (empty input file, non-ASCII name, missing input, too many slices), 5 = a different successful Create, 6 = a failing one then a successful one
	Enc        *encProtoCase `json:"enc,omitempty"`        // operation sequences on one exported Encoder object (see encproto.go)
	Unreadable int           `json:"unreadable,omitempty"` // 1-based index of an input that does not exist (0 = all inputs readable); -k: input k is a directory
}

func c05Names(n, variant int) []string {
	pool := [][]string{
		{"a", "b.bin", "c.dat", "e"},
		{"d/c", "a", "d/e/f g", "z.z"},
		{"x/y/z", "x/y/w", "q", "r.tar.gz"},
	}
	return pool[variant%len(pool)][:n]
}

func c05Range(lo, hi int) []int {
	var out []int
	for i := lo; i <= hi; i++ {
		out = append(out, i)
	}
	return out
}

func c05Gen(g *core.Gen) {
	// the staged exported API behind Create: every operation sequence on one Encoder object while the inputs change
	depth, diskDepth := 8, 5
	if g.Thorough() {
		depth, diskDepth = 9, 7
	}
	encProtoGen(g, "p2", depth, false, func(e *encProtoCase) { g.Emit(&c05Case{Enc: e}) })
	encProtoGen(g, "p2", diskDepth, true, func(e *encProtoCase) { g.Emit(&c05Case{Enc: e}) })
	// core grid
	for _, s := range []int{4, 8} {
		for nf := 1; nf <= 3; nf++ {
			var rec func(cur []int)
			rec = func(cur []int) {
				if len(cur) == nf {
					i := 0
					for _, p := range []int{1, 2, 3, 4, 5, 6, 7, 8, 9, 17} {
						i++
						g.Emit(&c05Case{Sizes: append([]int{}, cur...), Names: c05Names(nf, i+len(cur)+cur[0]), Slice: s, Blocks: p, G: 1 + (i+cur[0])%5})
					}
					return
				}
				for _, z := range sizesGrid(s) {
					if false {
						continue
					}
					rec(append(cur, z))
				}
			}
			rec(nil)
		}
	}
	{
		// four files, every goroutine count 1..8, block counts 1..20
		for _, s := range []int{4, 8} {
			for _, a := range []int{1, s, s + 1, 2*s + 3} {
				for _, b := range []int{1, s - 1, 2 * s} {
					for p := 1; p <= 20; p++ {
						for gg := 1; gg <= 8; gg++ {
							g.Emit(&c05Case{Sizes: []int{a, b, s, 3*s - 1}, Names: []string{"w/a", "w/b", "c", "d.e"}, Slice: s, Blocks: p, G: gg})
						}
					}
				}
			}
		}
	}
	// slice sizes, block counts with several volume files (doubling, short last volume, >=100), goroutines
	for _, s := range []int{4, 8, 12, 64, 2000} {
		for _, p := range []int{1, 2, 3, 7, 8, 15, 16, 17, 100, 101, 127, 128, 300} {
			for _, gg := range []int{1, 2, 3, 5, 16} {
				if false {
					continue
				}
				g.Emit(&c05Case{Sizes: []int{2*s + 3, s, 5*s - 1}, Names: c05Names(3, p), Slice: s, Blocks: p, G: gg})
			}
		}
	}
	if g.Thorough() {
		// five files over more slice sizes; every goroutine count 1..16 on multi-slice shards
		for _, s := range []int{4, 12, 16, 64, 128} {
			for _, a := range []int{1, s - 1, s, 3*s + 1} {
				for _, b := range []int{s + 1, 2 * s} {
					for _, p := range []int{1, 2, 5, 16, 33} {
						for gg := 1; gg <= 16; gg++ {
							g.Emit(&c05Case{Sizes: []int{a, b, s, 3*s - 1, 7 * s}, Names: []string{"w/a", "w/b", "c", "d.e", "x/y/z"}, Slice: s, Blocks: p, G: gg})
						}
					}
				}
			}
		}
	}
	// sizes around the 16 KiB hash boundary
	for _, z := range []int{16383, 16384, 16385, 20000, 32768, 40001} {
		for _, s := range []int{4, 64, 2000, 16384} {
			g.Emit(&c05Case{Sizes: []int{z, 100}, Names: c05Names(2, z), Slice: s, Blocks: 3, G: 3})
		}
	}
	// the non-SSSE3 dispatch path through Create (slices long enough for the bulk kernels, several goroutines)
	for _, s := range []int{64, 96, 2000, 65536, 65540} {
		for _, gg := range []int{1, 2, 5} {
			g.Emit(&c05Case{Sizes: []int{2*s + 3, s, 5*s - 1}, Names: c05Names(3, s), Slice: s, Blocks: 3, G: gg, NoSSSE3: true})
		}
	}
	// many slices x large slice sizes, one and two goroutines (working sets beyond cache sizes; any blocking of the
	// single-goroutine path must not split 16-bit words): every slice count 60..130 at 4 KiB, 1..16 at 64 KiB
	for n := 60; n <= 130; n++ {
		for _, gg := range []int{1, 2} {
			g.Emit(&c05Case{Sizes: []int{4096*n - 1}, Names: []string{"big"}, Slice: 4096, Blocks: 1, G: gg})
		}
	}
	for n := 1; n <= 16; n++ {
		for _, gg := range []int{1, 2} {
			g.Emit(&c05Case{Sizes: []int{65536*n - 3}, Names: []string{"big"}, Slice: 65536, Blocks: 2, G: gg})
		}
	}
	// every name length 1..40 (flat, and with the same length spent on nested directories): padding and packet
	// framing depend on the length modulo 4
	for _, l := range append(c05Range(1, 72), 127, 128, 129, 255, 256, 257, 300) {
		flat := strings.Repeat("n", l)
		g.Emit(&c05Case{Sizes: []int{9, 5}, Names: []string{flat, "z"}, Slice: 4, Blocks: 2, G: 1})
		if l >= 3 {
			nested := "d/" + strings.Repeat("e", l-2)
			if l >= 7 {
				nested = "d/ee/" + strings.Repeat("f", l-5)
			}
			g.Emit(&c05Case{Sizes: []int{9, 5}, Names: []string{"a", nested}, Slice: 4, Blocks: 2, G: 2})
		}
	}
	// slice size x recovery-block count: the whole grid up to 9 MiB of recovery data (any grouping of the recovery blocks by
	// size - cache blocking, batching of writes - sits on a product of the two, not on either alone)
	for _, s := range []int{1024, 4096, 16384, 65536, 262144} {
		for _, p := range []int{9, 16, 17, 33, 64, 65, 129, 257, 300, 1025} {
			if s*p > 9<<20 {
				continue
			}
			for _, gg := range []int{1, 3} {
				g.Emit(&c05Case{Sizes: []int{s + 5, s - 1}, Names: []string{"u", "v/w"}, Slice: s, Blocks: p, G: gg})
			}
		}
	}
	// look-alike inputs: equal length, identical first 16 KiB, different tails (2 and 3 files, listed in both orders by the reversal in Run)
	for _, nf := range []int{2, 3} {
		for _, gg := range []int{1, 3} {
			g.Emit(&c05Case{Sizes: []int{17000, 17000, 17000}[:nf], Names: c05Names(nf, 1), Slice: 1000, Blocks: 3, G: gg, Class: "lookalike"})
			g.Emit(&c05Case{Sizes: []int{16385, 16385, 16385}[:nf], Names: c05Names(nf, 2), Slice: 4, Blocks: 2, G: gg, Class: "lookalike"})
		}
	}
	// content classes
	for _, cl := range []string{"zero", "periodic", "dupslice", "trailzero"} {
		g.Emit(&c05Case{Sizes: []int{13, 8, 21}, Names: c05Names(3, 1), Slice: 4, Blocks: 4, G: 2, Class: cl})
	}
	// an input that cannot be read (missing, or a directory) at each position: a set that silently omits it would not be
	// consistent with the input files Create was given
	for nf := 1; nf <= 4; nf++ {
		for k := 1; k <= nf; k++ {
			for _, sign := range []int{1, -1} {
				g.Emit(&c05Case{Sizes: []int{9, 4, 13, 6}[:nf], Names: c05Names(nf, 0), Slice: 4, Blocks: 3, G: 2, Unreadable: sign * k})
			}
		}
	}
	// histories within one process: an earlier Create (failing at different stages, or succeeding on other inputs) must
	// leave nothing behind that reaches the files of this Create
	for prior := 1; prior <= 6; prior++ {
		for _, s := range []int{4, 64} {
			for _, p := range []int{1, 3, 8} {
				for _, gg := range []int{1, 3} {
					g.Emit(&c05Case{Sizes: []int{2*s + 3, s, 5*s - 1}, Names: c05Names(3, p+prior), Slice: s, Blocks: p, G: gg, Prior: prior})
				}
			}
		}
	}
	// right after a Create of another generation of the same set (files above 16 KiB)
	for _, gg := range []int{1, 3} {
		for _, p := range []int{1, 3} {
			g.Emit(&c05Case{Sizes: []int{17000, 16500, 20}, Names: c05Names(3, 1), Slice: 1000, Blocks: p, G: gg, Prior: 9})
			g.Emit(&c05Case{Sizes: []int{16385, 40000}, Names: c05Names(2, 2), Slice: 64, Blocks: p, G: gg, Prior: 9})
		}
	}
	// low-entropy inputs (all-zero slices, zero tails) created right after a Create with another slice size over zero content
	for _, prior := range []int{7, 8} {
		for _, cl := range []string{"zero", "trailzero", "periodic", "dupslice"} {
			for _, s := range []int{4, 16, 64, 2000} {
				g.Emit(&c05Case{Sizes: []int{3*s + 1, 2 * s, 5*s - 1}, Names: c05Names(3, prior), Slice: s, Blocks: 2, G: 2, Class: cl, Prior: prior})
			}
		}
	}
	// many slices: 257, 300, 4097 (different constants), the 32768 limit, and beyond (may be refused)
	big := []int{257, 300, 4097, 32767, 32768}
	if g.Thorough() {
		big = append(big, 258, 1000, 8191, 8192, 16384, 20000)
	}
	for _, n := range big {
		g.Emit(&c05Case{Sizes: []int{4 * (n - 2), 4, 3}, Names: c05Names(3, 0), Slice: 4, Blocks: 2, G: 4})
	}
	g.Emit(&c05Case{Sizes: []int{4 * 32768, 1}, Names: c05Names(2, 0), Slice: 4, Blocks: 1, G: 2, MayRefuse: true})
}

func c05Run(ci interface{}, r *core.Rec) {
	c := ci.(*c05Case)
	if c.Enc != nil {
		encProtoRun(c.Enc, r, func(e *encProtoCase) interface{} { return &c05Case{Enc: e} })
		return
	}
	if c.NoSSSE3 {
		old := gf2p16.VerifSetUseSSSE3(false)
		defer gf2p16.VerifSetUseSSSE3(old)
	}
	fs := envfs.New()
	var paths []string
	var specs []rpar2.FileSpec
	class := c.Class
	for i, n := range c.Sizes {
		p := path.Join("/d", c.Names[i])
		paths = append(paths, p)
		data := scen.Content(class, r.Seed, i, n, c.Slice)
		switch {
		case c.Unreadable == i+1:
			// not created at all
		case c.Unreadable == -(i + 1):
			fs.Put(p+"/inner", data) // p is then a directory
		default:
			fs.Put(p, data)
		}
		specs = append(specs, rpar2.FileSpec{Name: c.Names[i], Data: data})
	}
	// list the inputs in reverse to make sure ordering comes from the ids
	in := append([]string{}, paths...)
	for i, j := 0, len(in)-1; i < j; i, j = i+1, j-1 {
		in[i], in[j] = in[j], in[i]
	}
	if c.Prior != 0 {
		// no garbage collection between the earlier and this Create: anything parked in a pool or cache survives
		oldGC := debug.SetGCPercent(-1)
		defer debug.SetGCPercent(oldGC)
		prior := func(kind int) {
			pfs := envfs.New()
			pfs.Put("/e/p0", scen.Content("uniq", r.Seed, 40, 3*c.Slice+1, c.Slice))
			ins := []string{"/e/p0"}
			blocks := 2
			switch kind {
			case 1:
				pfs.Put("/e/empty", []byte{})
				ins = append(ins, "/e/empty")
			case 2:
				pfs.Put("/e/n\u00e9", scen.Content("uniq", r.Seed, 41, 5, c.Slice))
				ins = append(ins, "/e/n\u00e9")
			case 3:
				ins = append(ins, "/e/absent")
			case 4:
				blocks = 70000
			case 7, 8:
				// inputs with all-zero slices, created with ANOTHER slice size than the judged Create uses
				pfs.Put("/e/z", make([]byte, 50))
				ins = append(ins, "/e/z")
			case 5:
				pfs.Put("/e/p1", scen.Content("uniq", r.Seed, 42, c.Slice, c.Slice))
				ins = append(ins, "/e/p1")
			case 9:
				// ANOTHER GENERATION of the judged set: same paths, names, lengths, slice size and first 16 KiB (hence the
				// same file ids and the same recovery-set id), other content beyond 16 KiB
				ins = nil
				pfs = envfs.New()
				for i, n := range c.Sizes {
					d := scen.Content(class, r.Seed, i, n, c.Slice)
					if n > 16384 {
						alt := scen.Content("uniq", r.Seed+31337, i, n, c.Slice)
						copy(d[16384:], alt[16384:])
					}
					pfs.Put(paths[i], d)
					ins = append(ins, paths[i])
				}
				blocks = c.Blocks
			}
			var perr error
			if ppi := core.Catch(func() {
				ps := c.Slice
				if kind == 7 {
					ps = 8
				} else if kind == 8 {
					ps = 4 * c.Slice
				}
				pidx := "/e/t.par2"
				if kind == 9 {
					pidx = "/d/s.par2"
				}
				perr = par2.VerifCreate(pfs, pidx, ins, par2.CreateOptions{SliceByteCount: ps, NumParityShards: blocks, NumGoroutines: c.G})
			}); ppi != nil {
				r.Violate("create-panic:"+ppi.Frame, ppi.Value+"\n"+ppi.Stack)
			}
			r.AddTransitions(1)
			r.Outcome(fmt.Sprintf("prior %d %s", kind, errClass(perr)))
			if kind != 5 && kind != 7 && kind != 8 && kind != 9 && perr == nil {
				r.Count("prior_create_unexpectedly_succeeded", 1)
			}
		}
		if c.Prior == 6 {
			prior(1)
			prior(5)
		} else {
			prior(c.Prior)
		}
	}
	var err error
	pi := core.Catch(func() {
		err = par2.VerifCreate(fs, "/d/s.par2", in, par2.CreateOptions{SliceByteCount: c.Slice, NumParityShards: c.Blocks, NumGoroutines: c.G})
	})
	r.AddStates(1)
	r.AddTransitions(1)
	if pi != nil {
		r.Violate("create-panic:"+pi.Frame, pi.Value+"\n"+pi.Stack)
		return
	}
	if c.Unreadable != 0 {
		if err == nil {
			r.Violatef("create-succeeded-without-an-input", "input %d of %v cannot be read, but Create returned nil and wrote %d files: the set cannot be consistent with the inputs it was given", c.Unreadable, c.Names, len(fs.Writes()))
		}
		// "every file Create writes": that includes whatever a refused Create wrote before it gave up (no write fault is
		// injected here, so nothing excuses a malformed file)
		for _, w := range fs.Writes() {
			if b, ok := fs.Get(w.Path); ok {
				if pk, perr := rpar2.Parse(b); perr != nil || len(pk) == 0 {
					r.Violatef("refused-create-left-a-malformed-file", "Create returned %v, and left %s (%d bytes), which is not a well-formed packet stream: %v", err, w.Path, len(b), perr)
					break
				}
			}
		}
		r.Outcome("unreadable " + errClass(err))
		r.NontrivialCase()
		return
	}
	if err != nil {
		if c.MayRefuse {
			r.Count("refused", 1)
			r.Outcome("refused")
			return
		}
		r.Violatef("create-failed:"+errClass(err), "Create failed: %v", err)
		return
	}
	ref := rpar2.NewSet(c.Slice, specs)
	bad := func(sig, f string, a ...interface{}) { r.Violatef(sig, f, a...) }
	files := map[string][]byte{}
	for _, op := range fs.Writes() {
		files[op.Path] = fs.Files[op.Path]
	}
	written := c05Validate(files, "/d/s", ref, c.Blocks, bad, r)
	r.Outcome(fmt.Sprintf("files=%d slices=%d blocks=%d", len(written), ref.SliceCount(), c.Blocks))
	if len(written) >= 2 {
		r.NontrivialCase()
	}
}

// c05Validate judges the files of one written PAR2 set (path -> bytes; base = index path without ".par2") against the
// reference set: strict packet-stream reading, field-by-field comparison, every recovery block recomputed, blocks
// 0..blocks-1 exactly once. It returns the sorted file names.
func c05Validate(files map[string][]byte, base string, ref *rpar2.Set, blocks int, bad func(sig, f string, a ...interface{}), r *core.Rec) []string {
	seenExp := map[uint32]int{}
	var written []string
	for w := range files {
		written = append(written, w)
	}
	sort.Strings(written)
	hasIndex := false
	for _, w := range written {
		b := files[w]
		if !strings.HasPrefix(w, base+".") || !strings.HasSuffix(w, ".par2") {
			bad("unexpected-output-name", "Create wrote %q", w)
			continue
		}
		pk, err := rpar2.Parse(b)
		if err != nil {
			bad("output-not-wellformed", "%s: %v", w, err)
			continue
		}
		pf, err := rpar2.Interpret(pk)
		if err != nil {
			bad("output-invalid-packet", "%s: %v", w, err)
			continue
		}
		if pf.SetID != ref.SetID {
			bad("set-id-wrong", "%s: set id %x, reference %x", w, pf.SetID, ref.SetID)
		}
		if !pf.HasCreator {
			bad("creator-missing", "%s has no creator packet", w)
		}
		if w == base+".par2" {
			hasIndex = true
			if len(pf.Recv) != 0 {
				r.Count("index_contains_recovery_packets", 1) // not required by the statement; blocks are still counted exactly once overall
			}
		}
		if !pf.HasMain {
			bad("main-missing", "%s has no main packet", w)
		} else {
			for _, p := range pk {
				if p.Type == rpar2.TypeMain && !bytes.Equal(p.Body, ref.MainBody) {
					bad("main-packet-wrong", "%s: main packet body differs from the reference (slice size / count / sorted ids)", w)
				}
			}
		}
		for _, rf := range ref.Files {
			d, ok := pf.Desc[rf.ID]
			if !ok {
				bad("file-description-missing", "%s: no description for %q (id %x)", w, rf.Name, rf.ID)
				continue
			}
			if d.MD5 != rf.MD5 || d.MD516k != rf.MD516k || d.Length != uint64(len(rf.Data)) || d.Name != rf.Name {
				bad("file-description-wrong", "%s: description of %q: md5/md5-16k/length/name differ from the reference", w, rf.Name)
			}
			cs, ok := pf.IFSC[rf.ID]
			if !ok {
				bad("ifsc-missing", "%s: no slice checksums for %q", w, rf.Name)
				continue
			}
			if len(cs) != len(rf.Sums) {
				bad("ifsc-count-wrong", "%s: %d checksum pairs for %q, want %d", w, len(cs), rf.Name, len(rf.Sums))
				continue
			}
			for k := range cs {
				if cs[k] != rf.Sums[k] {
					bad("ifsc-wrong", "%s: checksum pair %d of %q differs (MD5/CRC32 of the zero-padded slice)", w, k, rf.Name)
					break
				}
			}
		}
		if len(pf.Desc) != len(ref.Files) || len(pf.IFSC) != len(ref.Files) {
			bad("extra-file-packets", "%s: %d descriptions / %d checksum packets for %d files", w, len(pf.Desc), len(pf.IFSC), len(ref.Files))
		}
		for e, data := range pf.Recv {
			seenExp[e] += pf.RecvCounts[e]
			if int(e) >= blocks {
				bad("exponent-out-of-range", "%s: block %d with %d blocks requested", w, e, blocks)
				continue
			}
			want := ref.RecoveryBlock(int(e))
			if !bytes.Equal(data, want) {
				bad("recovery-block-wrong", "%s: recovery block %d differs from sum slice_i*c_i^%d", w, e, e)
			}
		}
	}
	if !hasIndex {
		bad("index-missing", "no %s.par2 written (%v)", base, written)
	}
	for e := 0; e < blocks; e++ {
		if seenExp[uint32(e)] != 1 {
			bad("blocks-not-exactly-once", "block %d appears %d times over %v", e, seenExp[uint32(e)], written)
			break
		}
	}
	return written
}

func init() {
	core.Register(&core.Prop{
		ID:    "C05",
		Level: "model_checking",
		Rule: "(plus the staged exported API behind Create: EVERY sequence of <=8 (thorough 9) operations from {LoadFileData, ComputeParityData, Write, replace input a by a shorter / longer / its original content, delete / restore input b} on ONE Encoder object (on the owned in-memory filesystem through a constructor hook; <=5 (thorough 7) operations also through the exported constructor on a real directory); a Write is judged iff the latest load attempt succeeded and a compute followed it - then it must succeed and the files must be a conformant set for the contents loaded last; LoadFileData must fail iff an input is missing; a second search over the error-path alphabet {load, compute, write, write with its 1st / 2nd file write torn half-way, change a} (one operation shorter) requires that an interrupted Write reports the failure and that later Writes on the same object are still right; sequences are not merged by model state, since the point is state hidden in the object) (in addition, histories within one process: this Create preceded by a Create that fails at one of four stages - empty input, non-ASCII name, missing input, too many blocks - or by a successful Create of other inputs, or both, or by a Create over all-zero content with another slice size (judged inputs then low-entropy), with garbage collection off in between so that pooled / cached state survives) bounded-exhaustive configurations: full product 1-3 files x 6 sizes x slice{4,8} x blocks{1..9,17} with names in sub-directories; slice{4,8,12,64,2000} x blocks{1,2,3,7,8,15,16,17,100,101,127,128,300} x goroutines{1,2,3,5,16}; sizes around 16384; low-entropy classes; 257/300/4097/32768 slices; 32769 slices (refusal allowed); the grid slice {1 KiB..256 KiB} x blocks {9,16,17,33,64,65,129,257,300,1025} up to 9 MiB of recovery data. " +
			"Every file Create writes is parsed by the strict reference reader and compared field by field with the reference set; every recovery block is recomputed. non-trivial = >=1 recovery file written",
		Assumptions: []string{"file id hashes the name without padding; CRC32 stored little-endian; ids ordered as little-endian 128-bit integers (as par2cmdline reads the spec)"},
		NewCase:     func() interface{} { return &c05Case{} },
		Gen:         c05Gen,
		Run:         c05Run,
	})
}
