package props

import (
	"bytes"
	"fmt"
	"sort"
	"strings"

	"github.com/akalin/gopar/par1"
	"github.com/akalin/gopar/par2"

	"verifh/core"
	"verifh/envfs"
	"verifh/ref/rpar1"
	"verifh/ref/rpar2"
	"verifh/ref/scan"
	"verifh/scen"
)

// C13: corruption, truncation and interrupted writes never crash or
// mislead.

type fileOp struct {
	Path string `json:"path"`
	Op   string `json:"op"` // trunc, flip, garbage, empty, del
	At   int    `json:"at,omitempty"`
	Bit  int    `json:"bit,omitempty"`
	N    int    `json:"n,omitempty"`
	From string `json:"from,omitempty"` // op "copy": this file is overwritten with the ORIGINAL bytes of that file of the same set
}

type c13Case struct {
	Dec *decProtoCase `json:"dec,omitempty"` // operation sequences on one Decoder object over a set with a single recovery file (decproto.go): what the object reports after its recovery data has gone must be truthful
	Fmt   string   `json:"fmt"` // p2, p1
	Set   int      `json:"set"` // index into the config table
	Ops   []fileOp `json:"ops,omitempty"`
	Crash bool     `json:"crash,omitempty"`
	// crash: Create interrupted after Writes complete writes; the next write left Torn bytes (-1: not started)
	Writes int  `json:"writes,omitempty"`
	Torn   int  `json:"torn,omitempty"`
	DC     bool `json:"dc,omitempty"`
}

var c13P2 = []scen.P2Config{
	{Sizes: []int{11, 6}, Slice: 4, Blocks: 3, Class: "uniq"},
	{Sizes: []int{16500, 4000}, Slice: 64, Blocks: 5, Class: "uniq", G: 2},
	{Sizes: []int{11, 6}, Slice: 4, Blocks: 3, Class: "trailzero"}, // data files ending in zero bytes: truncation inside the zero padding of the last slice
	// data files whose content also exists elsewhere in the set (a deleted or emptied file all of whose slices are still
	// findable: nothing to reconstruct, but everything to rewrite); sets 2.. are damaged in their data files only
	{Sizes: []int{9, 9}, Slice: 4, Blocks: 3, Class: "uniq", DupFile: true},
	{Sizes: []int{13, 8, 6}, Slice: 4, Blocks: 2, Class: "dupslice"},
	{Sizes: []int{8, 8}, Slice: 4, Blocks: 0, Class: "uniq", DupFile: true},
}
var c13P1 = []scen.P1Config{
	{Sizes: []int{7, 5}, Volumes: 2},
	{Sizes: []int{16500, 3000, 1}, Volumes: 3},
}

func applyFileOp(fs *envfs.FS, seed int64, op fileOp) {
	b, ok := fs.Get(op.Path)
	switch op.Op {
	case "del":
		fs.Del(op.Path)
	case "empty":
		if ok {
			fs.Put(op.Path, nil)
		}
	case "trunc":
		if ok && op.At <= len(b) {
			fs.Put(op.Path, b[:op.At])
		}
	case "flip":
		if ok && op.At < len(b) {
			nb := append([]byte{}, b...)
			nb[op.At] ^= 1 << uint(op.Bit)
			fs.Put(op.Path, nb)
		}
	case "garbage":
		fs.Put(op.Path, scen.Garbage(seed, 77+op.N, op.N))
	case "copy":
		if src, sok := c13Orig[op.From]; sok {
			fs.Put(op.Path, src)
		}
	case "appz":
		if ok {
			fs.Put(op.Path, append(append([]byte{}, b...), make([]byte, op.N)...))
		}
	default:
		panic("bad file op " + op.Op)
	}
}

// c13Orig: the original bytes of the files of the set a case runs on (set by the runners before the file ops are
// applied), for the "copy" op.
var c13Orig map[string][]byte

func c13GenFormat(g *core.Gen, fmtName string, set int, files []string, content map[string][]byte, dataFiles []string, dense bool, bounds func(b []byte) []int) {
	emit := func(ops ...fileOp) {
		g.Emit(&c13Case{Fmt: fmtName, Set: set, Ops: ops, DC: len(ops)%2 == 0})
	}
	// a file overwritten with a well-formed file of the same set that belongs elsewhere: the index over a recovery
	// file and back, one recovery file over another, a data file over a set file and back - every ordered pair
	if len(files) <= 8 {
		for _, f := range files {
			for _, from := range files {
				if f != from {
					emit(fileOp{Path: f, Op: "copy", From: from})
				}
			}
		}
	}
	for _, f := range files {
		b := content[f]
		emit(fileOp{Path: f, Op: "del"})
		emit(fileOp{Path: f, Op: "empty"})
		for _, n := range []int{1, len(b) - 1, len(b), len(b) + 5} {
			if n > 0 {
				emit(fileOp{Path: f, Op: "garbage", N: n})
			}
		}
		if dense {
			for at := 0; at < len(b); at++ {
				emit(fileOp{Path: f, Op: "trunc", At: at})
				for bit := 0; bit < 8; bit++ {
					emit(fileOp{Path: f, Op: "flip", At: at, Bit: bit})
				}
			}
		} else {
			// the 16 KiB boundary of the first-16-KiB hashes, and the middle
			for _, at := range []int{16383, 16384, 16385, len(b) / 2, len(b) - 1} {
				if at > 0 && at < len(b) {
					emit(fileOp{Path: f, Op: "trunc", At: at})
					emit(fileOp{Path: f, Op: "flip", At: at - 1, Bit: 5})
				}
			}
			if g.Thorough() {
				// thorough: truncation at EVERY byte offset and every 13th bit of the larger sets too
				for at := 0; at < len(b); at++ {
					emit(fileOp{Path: f, Op: "trunc", At: at})
				}
				for bitno := 0; bitno < 8*len(b); bitno += 13 {
					emit(fileOp{Path: f, Op: "flip", At: bitno / 8, Bit: bitno % 8})
				}
			}
			// every packet / field boundary +-1, every header bit, every 97th payload bit
			bs := bounds(b)
			isHdr := map[int]bool{}
			seen := map[int]bool{}
			for _, o := range bs {
				for d := -1; d <= 1; d++ {
					if o+d >= 0 && o+d < len(b) && !seen[o+d] {
						seen[o+d] = true
						emit(fileOp{Path: f, Op: "trunc", At: o + d})
					}
				}
				for k := 0; k < 96 && o+k < len(b); k++ {
					isHdr[o+k] = true
					if k%8 == 0 && !seen[o+k] {
						seen[o+k] = true
						emit(fileOp{Path: f, Op: "trunc", At: o + k})
					}
				}
			}
			for at := 0; at < len(b); at++ {
				if isHdr[at] {
					for bit := 0; bit < 8; bit++ {
						emit(fileOp{Path: f, Op: "flip", At: at, Bit: bit})
					}
				}
			}
			for bitno := 0; bitno < 8*len(b); bitno += 97 {
				emit(fileOp{Path: f, Op: "flip", At: bitno / 8, Bit: bitno % 8})
			}
		}
	}
	// every subset of deleted files
	if len(files) <= 8 {
		for mask := 1; mask < 1<<uint(len(files)); mask++ {
			var ops []fileOp
			for i, f := range files {
				if mask&(1<<uint(i)) != 0 {
					ops = append(ops, fileOp{Path: f, Op: "del"})
				}
			}
			if len(ops) > 1 {
				emit(ops...)
			}
		}
	}
	// pairs: one deletion + one flip / truncation elsewhere (sparser positions)
	for _, del := range files {
		for _, f := range files {
			if f == del {
				continue
			}
			b := content[f]
			step := 1
			if !dense {
				step = len(b)/40 + 1
			} else if !g.Thorough() {
				step = 3
			}
			for at := 0; at < len(b); at += step {
				emit(fileOp{Path: del, Op: "del"}, fileOp{Path: f, Op: "trunc", At: at})
				emit(fileOp{Path: del, Op: "del"}, fileOp{Path: f, Op: "flip", At: at, Bit: at % 8})
			}
		}
	}
}

func c13Gen(g *core.Gen) {
	// one Decoder object, a set with ONE recovery file: every sequence of 5 (thorough 6) operations, and of 4 (5) over the
	// error-path alphabet - the recovery file deleted, cut short or restored between the loads
	dd := 5
	if g.Thorough() {
		dd = 6
	}
	for _, f := range []string{"p2", "p1"} {
		decProtoGen(f, dd, false, func(d *decProtoCase) { d.One = true; g.Emit(&c13Case{Fmt: f, Dec: d}) })
	}
	for si, cfg := range c13P2 {
		if si == 1 && false {
			continue
		}
		s, err := scen.GetP2(cfg, g.Seed)
		if err != nil {
			panic(err)
		}
		files := append([]string{s.Index}, s.RecFiles...)
		files = append(files, s.Paths...)
		if si >= 2 {
			files = s.Paths // the index / recovery files of this shape are covered by set 0
			for _, f := range files {
				for n := 1; n <= 2*cfg.Slice+1; n++ {
					g.Emit(&c13Case{Fmt: "p2", Set: si, Ops: []fileOp{{Path: f, Op: "appz", N: n}}})
				}
			}
		}
		c13GenFormat(g, "p2", si, files, s.FS0.Files, s.Paths, si != 1, rpar2.PacketBoundaries)
		if si >= 2 {
			continue
		}
		// crash prefixes of Create
		ws := c13CreateWrites2(cfg, g.Seed)
		for k := 0; k <= len(ws); k++ {
			g.Emit(&c13Case{Fmt: "p2", Set: si, Crash: true, Writes: k, Torn: -1})
			if k < len(ws) {
				cuts := map[int]bool{}
				if si == 0 {
					for t := 0; t < len(ws[k].Data); t++ {
						cuts[t] = true
					}
				} else {
					for _, o := range rpar2.PacketBoundaries(ws[k].Data) {
						for _, d := range []int{-1, 0, 1, 8, 16, 32, 48, 64, 68} {
							if o+d >= 0 && o+d < len(ws[k].Data) {
								cuts[o+d] = true
							}
						}
					}
				}
				var cl []int
				for t := range cuts {
					cl = append(cl, t)
				}
				sort.Ints(cl)
				for _, t := range cl {
					g.Emit(&c13Case{Fmt: "p2", Set: si, Crash: true, Writes: k, Torn: t})
				}
			}
		}
	}
	for si, cfg := range c13P1 {
		s, err := scen.GetP1(cfg, g.Seed)
		if err != nil {
			panic(err)
		}
		files := append([]string{s.Index}, s.VolPaths...)
		files = append(files, s.Paths...)
		p1bounds := func(b []byte) []int {
			out := []int{0, 0x60}
			if v, err := rpar1.Parse(b); err == nil {
				off := 0x60
				for _, e := range v.Entries {
					off += 56 + len(e.RawName)
					out = append(out, off)
				}
			}
			out = append(out, len(b))
			return out
		}
		c13GenFormat(g, "p1", si, files, s.FS0.Files, s.Paths, si == 0, p1bounds)
		ws := c13CreateWrites1(cfg, g.Seed)
		for k := 0; k <= len(ws); k++ {
			g.Emit(&c13Case{Fmt: "p1", Set: si, Crash: true, Writes: k, Torn: -1})
			if k < len(ws) {
				step := 1
				if si != 0 {
					step = len(ws[k].Data)/60 + 1
				}
				for t := 0; t < len(ws[k].Data); t += step {
					g.Emit(&c13Case{Fmt: "p1", Set: si, Crash: true, Writes: k, Torn: t})
				}
				if si != 0 {
					for _, t := range p1bounds(ws[k].Data) {
						for _, d := range []int{-1, 0, 1} {
							if t+d >= 0 && t+d < len(ws[k].Data) {
								g.Emit(&c13Case{Fmt: "p1", Set: si, Crash: true, Writes: k, Torn: t + d})
							}
						}
					}
				}
			}
		}
	}
}

func c13CreateWrites2(cfg scen.P2Config, seed int64) []envfs.Op {
	s, _ := scen.GetP2(cfg, seed)
	fs := envfs.New()
	for i, p := range s.Paths {
		fs.Put(p, s.Data[i])
	}
	g := cfg.G
	if g <= 0 {
		g = 1
	}
	if err := par2.VerifCreate(fs, s.Index, s.Paths, par2.CreateOptions{SliceByteCount: cfg.Slice, NumParityShards: cfg.Blocks, NumGoroutines: g}); err != nil {
		panic(err)
	}
	return fs.Writes()
}

func c13CreateWrites1(cfg scen.P1Config, seed int64) []envfs.Op {
	s, _ := scen.GetP1(cfg, seed)
	fs := envfs.New()
	for i, p := range s.Paths {
		fs.Put(p, s.Data[i])
	}
	if err := par1.VerifCreate(fs, s.Index, s.Paths, par1.CreateOptions{NumParityFiles: cfg.Volumes}); err != nil {
		panic(err)
	}
	return fs.Writes()
}

// crashDir builds the directory a crashed Create leaves behind.
func crashDir(data map[string][]byte, ws []envfs.Op, writes, torn int) *envfs.FS {
	fs := envfs.New()
	for p, b := range data {
		fs.Put(p, b)
	}
	for k := 0; k < writes && k < len(ws); k++ {
		fs.Put(ws[k].Path, ws[k].Data)
	}
	if torn >= 0 && writes < len(ws) {
		t := torn
		if t > len(ws[writes].Data) {
			t = len(ws[writes].Data)
		}
		fs.Put(ws[writes].Path, ws[writes].Data[:t])
	}
	return fs
}

// c13Twin selects the cases that are also run through the exported API on a real directory: every crash prefix
// with a whole-or-absent last write, and every single-file damage at a coarse grid of positions.
func c13Twin(c *c13Case) bool {
	if c.Crash {
		return c.Torn < 0 || c.Torn%64 == 0
	}
	if len(c.Ops) != 1 {
		return len(c.Ops) == 2 && c.Ops[1].At%128 == 0
	}
	op := c.Ops[0]
	switch op.Op {
	case "flip":
		return op.At%32 == 0 && op.Bit == 0
	case "trunc":
		return op.At%16 == 0
	}
	return true
}

func c13Run(ci interface{}, r *core.Rec) {
	c := ci.(*c13Case)
	if c.Dec != nil {
		decProtoRun(c.Dec, r, func(d *decProtoCase) interface{} { return &c13Case{Fmt: d.Fmt, Dec: d} })
		return
	}
	if c.Fmt == "p2" {
		c13RunP2(c, r)
	} else {
		c13RunP1(c, r)
	}
}

func c13RunP2(c *c13Case, r *core.Rec) {
	cfg := c13P2[c.Set]
	s, err := scen.GetP2(cfg, r.Seed)
	if err != nil {
		r.Violatef("create-failed:"+errClass(err), "%v", err)
		return
	}
	datas := map[string][]byte{}
	for i, p := range s.Paths {
		datas[p] = s.Data[i]
	}
	variants := []string{""}
	var fs0 *envfs.FS
	if c.Crash {
		fs0 = crashDir(datas, c13CreateWrites2(cfg, r.Seed), c.Writes, c.Torn)
		variants = []string{"", "del0", "flip1"}
	} else {
		fs0 = s.FS0.Clone()
		c13Orig = s.FS0.Files
		for _, op := range c.Ops {
			applyFileOp(fs0, r.Seed, op)
		}
	}
	for _, variant := range variants {
		fs := fs0.Clone()
		switch variant {
		case "del0":
			fs.Del(s.Paths[0])
		case "flip1":
			applyFileOp(fs, r.Seed, fileOp{Path: s.Paths[len(s.Paths)-1], Op: "flip", At: 1, Bit: 2})
		}
		// truth
		var surviving [][]byte
		for _, p := range s.Paths {
			if b, ok := fs.Get(p); ok {
				surviving = append(surviving, b)
			}
		}
		sc := scan.Scan(s.Ref.AllSlices(), cfg.Slice, surviving)
		present := len(sc.Found) - sc.CountMissing()
		loose := map[uint32]bool{}
		prefix := strings.TrimSuffix(s.Index, ".par2") + "."
		for _, p := range fs.Paths() {
			if p != s.Index && strings.HasPrefix(p, prefix) && strings.HasSuffix(p, ".par2") {
				for e := range rpar2.LooseRecovery(fs.Files[p], s.Ref.SetID, cfg.Slice) {
					loose[e] = true
				}
			}
		}
		var o scen.P2Obs
		var twinStart *envfs.FS
		if c13Twin(c) {
			twinStart = fs.Clone()
		}
		s.ObserveVerify(fs.Clone(), cfg.G, &o)
		s.ObserveRepair(fs, cfg.G, c.DC, &o)
		if twinStart != nil && o.VerifyPanic == nil && o.RepairPanic == nil {
			diskTwinP2(s, twinStart, &o, &p2Case{G: cfg.G, DoubleCheck: c.DC}, r)
		}
		r.AddStates(1)
		r.AddTransitions(2)
		r.Outcome(fmt.Sprintf("p2 v:%s/%v r:%s/%d", errClass(o.VerifyErr), o.Counts, errClass(o.RepairErr), len(o.RepairedPaths)))
		if o.VerifyPanic != nil {
			r.Violate("verify-panic:"+o.VerifyPanic.Frame, o.VerifyPanic.Value+"\n"+o.VerifyPanic.Stack)
		} else if o.VerifyErr == nil {
			if o.Counts.UsableDataShardCount > present {
				r.Violatef("verify-usable-unsound", "usable data slices %d, but only %d slices have their content present", o.Counts.UsableDataShardCount, present)
			}
			if o.Counts.UsableParityShardCount > len(loose) {
				r.Violatef("verify-parity-unsound", "usable recovery blocks %d, but only %d distinct intact recovery packets exist beside the index", o.Counts.UsableParityShardCount, len(loose))
			}
			// a clean verdict is a statement that every protected file is usable as it is
			if !o.Counts.RepairNeeded() {
				intact := true
				for i, p := range s.Paths {
					if b, ok := fs.Get(p); !ok || !bytes.Equal(b, s.Data[i]) {
						intact = false
					}
				}
				if !intact {
					r.Violatef("verify-clean-but-files-differ", "Verify returned a result saying no repair is needed (%+v) although a protected file is damaged", o.Counts)
				}
			}
			r.Count("verify_results", 1)
		} else {
			r.Count("verify_errors", 1)
		}
		if o.VerifyWrites != 0 || len(o.VerifyDiff) != 0 {
			r.Violatef("verify-modified-directory", "Verify changed %v", o.VerifyDiff)
		}
		if o.RepairPanic != nil {
			r.Violate("repair-panic:"+o.RepairPanic.Frame, o.RepairPanic.Value+"\n"+o.RepairPanic.Stack)
		} else {
			for _, b := range s.CheckWrites(&o) {
				r.Violate(b[0], b[1])
			}
			if o.RepairErr == nil && !s.AllOriginal(o.After) {
				r.Count("repair_nil_files_differ", 1)
				// with the index and every recovery file exactly as Create wrote them there is no doubt about what the set
				// is: a Repair that reports success has to leave every protected file original
				setIntact := true
				for _, p := range append([]string{s.Index}, s.RecFiles...) {
					if b, ok := fs0.Get(p); !ok || !bytes.Equal(b, s.FS0.Files[p]) {
						setIntact = false
					}
				}
				if setIntact {
					r.Violatef("repair-nil-but-files-differ", "Repair reported success on a set whose index and recovery files are untouched, but a protected file is not original afterwards (case %+v)", *c)
				}
			}
		}
		if o.VerifyErr != nil || o.RepairErr != nil || len(o.RepairedPaths) > 0 {
			r.Nontrivial(fmt.Sprintf("%v|%s", c, variant))
		}
	}
}

func p1VolIntact(b []byte, orig []byte) bool {
	if bytes.Equal(b, orig) {
		return true
	}
	v, err := rpar1.Parse(b)
	if err != nil {
		return false
	}
	ov, err := rpar1.Parse(orig)
	if err != nil {
		return false
	}
	return v.Number == ov.Number && v.SetHash == ov.SetHash && bytes.Equal(v.Data, ov.Data)
}

func c13RunP1(c *c13Case, r *core.Rec) {
	cfg := c13P1[c.Set]
	s, err := scen.GetP1(cfg, r.Seed)
	if err != nil {
		r.Violatef("create-failed:"+errClass(err), "%v", err)
		return
	}
	datas := map[string][]byte{}
	for i, p := range s.Paths {
		datas[p] = s.Data[i]
	}
	variants := []string{""}
	var fs0 *envfs.FS
	if c.Crash {
		fs0 = crashDir(datas, c13CreateWrites1(cfg, r.Seed), c.Writes, c.Torn)
		variants = []string{"", "del0", "flip1"}
	} else {
		fs0 = s.FS0.Clone()
		c13Orig = s.FS0.Files
		for _, op := range c.Ops {
			applyFileOp(fs0, r.Seed, op)
		}
	}
	for _, variant := range variants {
		fs := fs0.Clone()
		switch variant {
		case "del0":
			fs.Del(s.Paths[0])
		case "flip1":
			applyFileOp(fs, r.Seed, fileOp{Path: s.Paths[len(s.Paths)-1], Op: "flip", At: 0, Bit: 2})
		}
		intactData := 0
		for i, p := range s.Paths {
			if b, ok := fs.Get(p); ok && bytes.Equal(b, s.Data[i]) {
				intactData++
			}
		}
		intactVol, presentVol := 0, 0
		for _, p := range s.VolPaths {
			if b, ok := fs.Get(p); ok {
				presentVol++
				if p1VolIntact(b, s.FS0.Files[p]) {
					intactVol++
				}
			}
		}
		var o scen.P1Obs
		var twinStart *envfs.FS
		if c13Twin(c) && c.DC {
			twinStart = fs.Clone()
		}
		s.ObserveVerify(fs.Clone(), c.DC, &o)
		s.ObserveRepair(fs, c.DC, &o)
		if twinStart != nil && o.VerifyPanic == nil && o.RepairPanic == nil {
			diskTwinP1(s, twinStart, &o, &o, &p1Case{DC: c.DC}, r)
		}
		r.AddStates(1)
		r.AddTransitions(2)
		r.Outcome(fmt.Sprintf("p1 v:%s/%+v r:%s/%d", errClass(o.VerifyErr), o.Result, errClass(o.RepairErr), len(o.RepairedPaths)))
		if o.VerifyPanic != nil {
			r.Violate("verify-panic:"+o.VerifyPanic.Frame, o.VerifyPanic.Value+"\n"+o.VerifyPanic.Stack)
		} else if o.VerifyErr == nil {
			fc := o.Result.FileCounts
			if fc.UsableDataFileCount > intactData {
				r.Violatef("verify-usable-unsound", "usable data files %d, intact %d", fc.UsableDataFileCount, intactData)
			}
			if fc.UsableParityFileCount > intactVol {
				r.Violatef("verify-parity-unsound", "usable parity volumes %d, intact %d", fc.UsableParityFileCount, intactVol)
			}
			if o.Result.AllDataOk && (intactData != len(s.Paths) || presentVol != intactVol) {
				r.Violatef("verify-alldataok-unsound", "AllDataOk reported with %d/%d data files intact and %d of %d present volumes intact", intactData, len(s.Paths), intactVol, presentVol)
			}
			r.Count("verify_results", 1)
		} else {
			r.Count("verify_errors", 1)
		}
		if o.VerifyWrites != 0 || len(o.VerifyDiff) != 0 {
			r.Violatef("verify-modified-directory", "Verify changed %v", o.VerifyDiff)
		}
		if o.RepairPanic != nil {
			r.Violate("repair-panic:"+o.RepairPanic.Frame, o.RepairPanic.Value+"\n"+o.RepairPanic.Stack)
		} else {
			for _, b := range scen.CheckWritesGeneric(s.Orig(), o.RepairLog, o.RepairedPaths, o.Before, o.After) {
				r.Violate(b[0], b[1])
			}
		}
		if o.VerifyErr != nil || o.RepairErr != nil || len(o.RepairedPaths) > 0 {
			r.Nontrivial(fmt.Sprintf("%v|%s", c, variant))
		}
	}
}

func init() {
	core.Register(&core.Prop{
		ID:    "C13",
		Level: "fault_enumeration",
		Rule: "(plus the decoder protocol search - see C14 - over sets with ONE recovery file / volume, main and error-path alphabet: whatever a Decoder object reports after its recovery data was deleted, cut short or restored between loads must be truthful) for a small PAR2 set (2 files, slice 4, 3 blocks) and a small PAR1 set (2 files, 2 volumes): for EVERY file of the set (index, recovery/parity files, data files): truncation at every byte offset, every single-bit flip, garbage of 4 lengths, emptied, deleted, overwritten with every other file of the same set (the index over a recovery file, one volume over another, ...); every subset of deleted files; pairs deletion+flip/truncation; the data-file part of that menu also on sets whose content exists twice (a duplicated file, duplicated slices, a set without recovery blocks) and on zero-tailed files. " +
			"For larger sets (>16 KiB data, slice 64): truncation at every packet/entry boundary +-1 and header field, every header bit, every 97th payload bit. Crash part: every prefix of Create's recorded write sequence with the interrupted write torn at every byte (small) or every packet/field boundary (large), then Verify and Repair with data intact / one file deleted / one file bit-flipped. " +
			"Oracle: no panic, no hang, error or result; usable data <= slices (files) whose content is present; usable recovery blocks <= distinct intact recovery packets found by a resynchronising reference scanner (PAR1: volumes that parse strictly with the original parity data); Repair writes only exact originals (C02 oracle); with the index and every recovery file untouched, a Repair that reports success leaves every protected file original; Verify writes nothing. non-trivial = fault changed the outcome (error or repair)",
		Assumptions: []string{"an error is an acceptable answer to any corruption (the statement allows 'either an error or a result')"},
		NewCase:     func() interface{} { return &c13Case{} },
		Gen:         c13Gen,
		Run:         c13Run,
	})
}
