package props

import (
	"fmt"
	"io/ioutil"
	"os"
	"path/filepath"
	"strings"

	"github.com/akalin/gopar/par1"
	"github.com/akalin/gopar/par2"

	"verifh/core"
	"verifh/envfs"
	"verifh/ref/rpar2"
	"verifh/scen"
)

// Encoder protocol: every operation sequence up to a depth on ONE exported
// Encoder object (the staged API behind Create: NewEncoder, LoadFileData,
// ComputeParityData, Write) while the input directory changes between the
// calls. Used by C10 (PAR1) and C05 (PAR2).
//
// Reference model: loaded = the directory contents at the last successful
// LoadFileData; a Write is *judged* iff the most recent LoadFileData attempt
// succeeded and a ComputeParityData succeeded after it with no load attempt
// in between (the well-formed use Create itself makes, possibly after earlier
// attempts on the same object). A judged Write must succeed and its files
// must be a conformant set for the loaded contents. Other calls are only
// executed (they shape the object's hidden state); what they return is not
// judged, except that LoadFileData must fail iff an input is missing.

type encProtoCase struct {
	Kind   string `json:"kind"`   // "encproto"
	Fmt    string `json:"fmt"`    // p1, p2
	Prefix []int  `json:"prefix"` // first operations; the case enumerates every continuation up to Depth
	Depth  int    `json:"depth"`
	Seq    []int  `json:"seq,omitempty"`   // replay: exactly this sequence
	Fault  bool   `json:"fault,omitempty"` // error-path alphabet: {Load, Compute, Write, Write with the 1st / 2nd file write torn, a:=short, a:=long}
	Disk   bool   `json:"disk,omitempty"`  // exported constructor on a real directory (else the same object on the owned in-memory filesystem)
}

const (
	epLoad = iota
	epCompute
	epWrite
	epAShort
	epALong
	epAOrig
	epBDel
	epBRestore
	epNOps
	// only in the fault alphabet (in-memory runs): a Write whose k-th file write fails half-way
	epWriteFail1 = epNOps
	epWriteFail2 = epNOps + 1
	// a LoadFileData whose k-th read dies half-way (the first half of the file comes back together with the error)
	epLoadFail1 = epNOps + 2
	epLoadFail2 = epNOps + 3
)

// epFaultAlphabet: the operations of the error-path search.
var epFaultAlphabet = []int{epLoad, epCompute, epWrite, epWriteFail1, epWriteFail2, epLoadFail1, epLoadFail2, epAShort, epALong}

var epNames = []string{"Load", "Compute", "Write", "a:=short", "a:=long", "a:=orig", "b:=deleted", "b:=restored", "Write(1st file write torn)", "Write(2nd file write torn)", "Load(1st read dies half-way)", "Load(2nd read dies half-way)"}

var encProtoSeq int

func encProtoGen(g *core.Gen, fmtName string, depth int, disk bool, emit func(*encProtoCase)) {
	if !disk {
		// error paths: a Write interrupted by a torn file write, then whatever follows on the same object
		fd := depth - 1
		for _, a := range epFaultAlphabet {
			for _, b := range epFaultAlphabet {
				emit(&encProtoCase{Kind: "encproto", Fmt: fmtName, Prefix: []int{a, b}, Depth: fd, Fault: true})
			}
		}
	}
	for a := 0; a < epNOps; a++ {
		for b := 0; b < epNOps; b++ {
			emit(&encProtoCase{Kind: "encproto", Fmt: fmtName, Prefix: []int{a, b}, Depth: depth, Disk: disk})
		}
	}
}

func encProtoRun(c *encProtoCase, r *core.Rec, wrap func(*encProtoCase) interface{}) {
	if c.Seq != nil {
		encProtoOne(c, c.Seq, r, wrap)
		return
	}
	seq := append([]int{}, c.Prefix...)
	var rec func()
	rec = func() {
		if len(seq) == c.Depth {
			// only sequences that end in a Write add a judgement not already made by a shorter prefix
			if seq[len(seq)-1] == epWrite {
				encProtoOne(c, seq, r, wrap)
				r.Heartbeat()
			}
			return
		}
		alphabet := epFaultAlphabet
		if !c.Fault {
			alphabet = nil
			for op := 0; op < epNOps; op++ {
				alphabet = append(alphabet, op)
			}
		}
		for _, op := range alphabet {
			seq = append(seq, op)
			rec()
			seq = seq[:len(seq)-1]
		}
	}
	rec()
}

func encProtoOne(c *encProtoCase, seq []int, r *core.Rec, wrap func(*encProtoCase) interface{}) {
	dir := "/d"
	var mem *envfs.FS
	if c.Disk {
		encProtoSeq++
		dir = filepath.Join(workerScratch(), fmt.Sprintf("ep-%d", encProtoSeq))
		os.RemoveAll(dir)
		os.MkdirAll(dir, 0755)
		defer os.RemoveAll(dir)
	} else {
		mem = envfs.New()
	}
	writeFile := func(p string, b []byte) {
		if mem != nil {
			mem.Put(p, b)
		} else {
			ioutil.WriteFile(p, b, 0644)
		}
	}
	removeFile := func(p string) {
		if mem != nil {
			mem.Del(p)
		} else {
			os.Remove(p)
		}
	}
	outputs := func() map[string][]byte {
		out := map[string][]byte{}
		if mem != nil {
			for p, b := range mem.Files {
				if strings.HasPrefix(p, dir+"/s.") {
					out[p] = b
				}
			}
			return out
		}
		for _, p := range listOutputs(dir, "s") {
			b, _ := ioutil.ReadFile(p)
			out[p] = b
		}
		return out
	}
	names := []string{"a", "b", "c"}
	slice := 4
	variants := map[int][]byte{
		epAOrig:  scen.Content("uniq", r.Seed, 0, 9, slice),
		epAShort: scen.Content("uniq", r.Seed, 5, 3, slice),
		epALong:  scen.Content("uniq", r.Seed, 6, 21, slice),
	}
	cur := map[string][]byte{"a": variants[epAOrig], "b": scen.Content("uniq", r.Seed, 1, 6, slice), "c": scen.Content("uniq", r.Seed, 2, 13, slice)}
	bOrig := cur["b"]
	var paths []string
	for _, n := range names {
		writeFile(filepath.Join(dir, n), cur[n])
		paths = append(paths, filepath.Join(dir, n))
	}
	viol := func(sig, f string, a ...interface{}) {
		var ops []string
		for _, o := range seq {
			ops = append(ops, epNames[o])
		}
		r.ViolateWith(sig, fmt.Sprintf(f, a...)+"\nsequence: "+strings.Join(ops, ", "), wrap(&encProtoCase{Kind: "encproto", Fmt: c.Fmt, Seq: append([]int{}, seq...), Disk: c.Disk, Fault: c.Fault}))
	}
	const volumes, blocks = 2, 3
	var e1 *par1.Encoder
	var e2 *par2.Encoder
	var err error
	switch {
	case c.Fmt == "p1" && c.Disk:
		e1, err = par1.NewEncoder(par1.DoNothingCreateDelegate{}, paths, volumes)
	case c.Fmt == "p1":
		e1, err = par1.VerifNewEncoder(mem, par1.DoNothingCreateDelegate{}, paths, volumes)
	case c.Disk:
		e2, err = par2.NewEncoder(par2.DoNothingCreateDelegate{}, dir, paths, slice, blocks, 2)
	default:
		e2, err = par2.VerifNewEncoder(mem, par2.DoNothingCreateDelegate{}, dir, paths, slice, blocks, 2)
	}
	if err != nil {
		viol("encoder-protocol:new-encoder-failed", "%v", err)
		return
	}
	ext := ".par2"
	if c.Fmt == "p1" {
		ext = ".par"
	}
	index := filepath.Join(dir, "s"+ext)
	var loaded map[string][]byte
	lastLoadOK, computed := false, false
	computedGood := false // a compute succeeded for the contents of the last SUCCESSFUL load (a later failed load does not undo that)
	key := ""
	for _, op := range seq {
		r.AddTransitions(1)
		switch op {
		case epAShort, epALong, epAOrig:
			cur["a"] = variants[op]
			writeFile(paths[0], cur["a"])
		case epBDel:
			delete(cur, "b")
			removeFile(paths[1])
		case epBRestore:
			cur["b"] = bOrig
			writeFile(paths[1], bOrig)
		case epLoadFail1, epLoadFail2:
			if mem == nil {
				continue
			}
			k, failAt := 0, 1+op-epLoadFail1
			mem.Hook = func(index int, kind, path string, data []byte) *envfs.Fault {
				if kind == "read" {
					k++
					if k == failAt {
						return &envfs.Fault{Err: envfs.ErrInjected, Partial: envfs.HalfRead, Kind: "half-read"}
					}
				}
				return nil
			}
			var lerr error
			pi := core.Catch(func() {
				if e1 != nil {
					lerr = e1.LoadFileData()
				} else {
					lerr = e2.LoadFileData()
				}
			})
			mem.Hook = nil
			computed = false
			if pi != nil {
				viol("encoder-protocol:load-panic:"+pi.Frame, "%s", pi.Value)
				return
			}
			if k >= failAt && lerr == nil {
				viol("encoder-protocol:read-fault-not-reported", "read %d of LoadFileData failed, but it returned nil", failAt)
				return
			}
			if k < failAt {
				// fewer reads than that (an input is missing): an ordinary load
				_, bThere := cur["b"]
				if (lerr == nil) != bThere {
					viol("encoder-protocol:load-outcome-wrong", "LoadFileData returned %v, input b present: %v", lerr, bThere)
					return
				}
			}
			lastLoadOK = lerr == nil
			if lastLoadOK {
				computedGood = false
				loaded = map[string][]byte{}
				for k, v := range cur {
					loaded[k] = v
				}
			}
			key += fmt.Sprintf("Lf%v", lastLoadOK)
		case epLoad:
			var lerr error
			pi := core.Catch(func() {
				if e1 != nil {
					lerr = e1.LoadFileData()
				} else {
					lerr = e2.LoadFileData()
				}
			})
			_, bThere := cur["b"]
			computed = false
			switch {
			case pi != nil:
				viol("encoder-protocol:load-panic:"+pi.Frame, "%s", pi.Value)
				return
			case lerr == nil && !bThere:
				viol("encoder-protocol:load-succeeded-without-an-input", "LoadFileData returned nil although input b does not exist")
				return
			case lerr != nil && bThere:
				viol("encoder-protocol:load-failed:"+errClass(lerr), "LoadFileData failed with every input present: %v", lerr)
				return
			}
			lastLoadOK = lerr == nil
			if lastLoadOK {
				computedGood = false
				loaded = map[string][]byte{}
				for k, v := range cur {
					loaded[k] = v
				}
			}
			key += fmt.Sprintf("L%v", lastLoadOK)
		case epCompute:
			var cerr error
			pi := core.Catch(func() {
				if e1 != nil {
					cerr = e1.ComputeParityData()
				} else {
					cerr = e2.ComputeParityData()
				}
			})
			wellFormed := lastLoadOK
			if pi != nil {
				if wellFormed {
					viol("encoder-protocol:compute-panic:"+pi.Frame, "%s", pi.Value)
					return
				}
				r.Count("encproto_panic_outside_wellformed_use", 1)
				return // the object is in no defined state any more
			}
			if wellFormed && cerr != nil {
				viol("encoder-protocol:compute-failed:"+errClass(cerr), "ComputeParityData failed after a successful load: %v", cerr)
				return
			}
			computed = wellFormed && cerr == nil
			if computed {
				computedGood = true
			}
			key += fmt.Sprintf("C%v", cerr == nil)
		case epWrite, epWriteFail1, epWriteFail2:
			for old := range outputs() {
				removeFile(old)
			}
			var werr error
			if op != epWrite && mem != nil {
				k, failAt := 0, 1+op-epWriteFail1
				mem.Hook = func(index int, kind, path string, data []byte) *envfs.Fault {
					if kind == "write" {
						k++
						if k == failAt {
							return &envfs.Fault{Err: envfs.ErrInjected, Partial: len(data) / 2, Kind: "torn-write"}
						}
					}
					return nil
				}
			}
			pi := core.Catch(func() {
				if e1 != nil {
					werr = e1.Write(index)
				} else {
					werr = e2.Write(index)
				}
			})
			judged := lastLoadOK && computed
			if mem != nil {
				mem.Hook = nil
			}
			if pi != nil {
				if judged {
					viol("encoder-protocol:write-panic:"+pi.Frame, "%s", pi.Value)
					return
				}
				r.Count("encproto_panic_outside_wellformed_use", 1)
				return
			}
			if op != epWrite {
				// the interrupted Write: it must report the failure; what it left on disk is judged by C13 / C18
				if judged && werr == nil {
					viol("encoder-protocol:torn-write-not-reported", "a file write of this Write failed half-way, but Write returned nil")
					return
				}
				key += "Wf"
				r.Count("encproto_interrupted_writes", 1)
				continue
			}
			key += fmt.Sprintf("W%v", werr == nil)
			if !judged && !lastLoadOK && computedGood && werr == nil {
				// the latest load attempt failed, but an earlier load + compute on this object succeeded: a Write that then
				// reports success has written a set, and that set has to describe what that earlier load saw
				r.Count("encproto_judged_writes_after_failed_reload", 1)
				judged = true
			}
			if !judged {
				r.Count("encproto_unjudged_writes", 1)
				continue
			}
			r.Count("encproto_judged_writes", 1)
			if werr != nil {
				viol("encoder-protocol:write-failed:"+errClass(werr), "Write failed after load + compute: %v", werr)
				return
			}
			files := outputs()
			var datas [][]byte
			var specs []rpar2.FileSpec
			for _, n := range names {
				datas = append(datas, loaded[n])
				specs = append(specs, rpar2.FileSpec{Name: n, Data: loaded[n]})
			}
			sub := core.NewSubRec(r)
			if e1 != nil {
				c10Validate(files, filepath.Join(dir, "s"), names, datas, volumes, sub)
			} else {
				ref := rpar2.NewSet(slice, specs)
				c05Validate(files, filepath.Join(dir, "s"), ref, blocks, func(sig, f string, a ...interface{}) { sub.Violatef(sig, f, a...) }, sub)
			}
			for sig, d := range sub.Drain() {
				viol("encoder-protocol:"+sig, "the set written by this Write does not describe the contents loaded last: %s", d)
			}
		}
	}
	r.AddStates(1)
	r.Outcome(c.Fmt + key)
	r.Nontrivial(c.Fmt + fmt.Sprint(seq))
}

func listOutputs(dir, base string) []string {
	var out []string
	ents, _ := ioutil.ReadDir(dir)
	for _, e := range ents {
		if !e.IsDir() && strings.HasPrefix(e.Name(), base+".") {
			out = append(out, filepath.Join(dir, e.Name()))
		}
	}
	return out
}
