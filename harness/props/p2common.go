package props

import (
	"bytes"
	"fmt"
	"io/ioutil"
	"os"
	"path/filepath"
	"regexp"
	"sort"
	"strconv"
	"strings"
	"verifh/ref/rpar2"

	"github.com/akalin/gopar/par2"

	"verifh/core"
	"verifh/envfs"
	"verifh/scen"
)

// p2Case is a PAR2 scenario: a set created by gopar, a sequence of
// damage operators, then Verify and Repair.
type p2Case struct {
	Cfg         scen.P2Config `json:"cfg"`
	Dmg         []scen.Dmg    `json:"dmg"`
	G           int           `json:"g,omitempty"` // goroutines for verify/repair
	DoubleCheck bool          `json:"dc,omitempty"`
	Extra       []string      `json:"extra,omitempty"`      // unrelated files to drop beside the set (C02)
	FailWrite   int           `json:"failwrite,omitempty"`  // C02: the k-th write during Repair fails without effect (0 = none)
	AutoPrune   bool          `json:"autoprune,omitempty"`  // C16: delete recovery files so that exactly as many blocks remain as slices are unfindable
	PriorGen    int           `json:"priorgen,omitempty"`   // history inside the process: first Verify (1) or Repair (2) another generation of the same set (same names, lengths, first 16 KiB, hence the same file ids and set id; other content)
	RecDamaged  bool          `json:"recdamaged,omitempty"` // C03: a recovery file was damaged (not as Create wrote it): Verify may refuse with an error, but a verdict must count exactly the blocks that are still intact
	PriorBad    int           `json:"priorbad,omitempty"`   // history inside the process: right before (no Create in between) a Verify (1) / Repair (2) of a copy of the set in which one recovery packet has a wrong hash (1, 2) or the index is cut short (3: Verify)
	Dec         *decProtoCase `json:"dec,omitempty"`        // C03: operation sequences with failing loads / interrupted Repairs on ONE Decoder object (decproto.go)
	Order       []int         `json:"order,omitempty"`      // C16: slice sizes a fresh process handles in this order (see c16SizeOrder)
	Stale       int           `json:"stale,omitempty"`      // beside every recovery file s.volAA+BB.par2 lies s.volAA+<BB+2>.par2 (1) / s.vol<AA-1>+<BB+1>.par2 (2), a volume of ANOTHER set (other content, other set id) whose announced range covers it
	List        int           `json:"list,omitempty"`       // directory listing order: 0 as the filesystem returns it (sorted), 1 descending
	DiskTwin    bool          `json:"disktwin,omitempty"`   // additionally run the same directory through the exported API on a real directory and require the same observations
}

// clause selection
type p2Clauses struct {
	RepairWithinCapacity bool // C01
	VerifyTruth          bool // C03
	WriteOracle          bool // C02
	ExactUsable          bool // C16
	NoPanicSound         bool // C13
}

var digitsRe = regexp.MustCompile(`[0-9]+`)

func errClass(err error) string {
	if err == nil {
		return "nil"
	}
	s := err.Error()
	if len(s) > 60 {
		s = s[:60]
	}
	return digitsRe.ReplaceAllString(s, "N")
}

type p2Run struct {
	S     *scen.P2Set
	T     scen.P2Truth
	O     scen.P2Obs
	FSOut map[string][]byte
}

// runP2 executes the scenario and asserts the selected clauses.
func runP2(c *p2Case, r *core.Rec, cl p2Clauses) *p2Run {
	s, err := scen.GetP2(c.Cfg, r.Seed)
	if err != nil {
		r.Violatef("create-failed:"+errClass(err), "Create failed for %+v: %v", c.Cfg, err)
		return nil
	}
	fs := s.FS0.Clone()
	for _, d := range c.Dmg {
		s.ApplyDmg(fs, d, r.Seed)
	}
	for i, e := range c.Extra {
		fs.Put(e, scen.Garbage(r.Seed, 400+i, 9))
	}
	if c.Stale != 0 {
		if other, oerr := scen.GetP2(c.Cfg, r.Seed+7777); oerr == nil && other.Ref.SetID != s.Ref.SetID {
			volRe := regexp.MustCompile(`\.vol([0-9]+)\+([0-9]+)\.par2$`)
			for i, p := range s.RecFiles {
				m := volRe.FindStringSubmatch(p)
				if m == nil || i >= len(other.RecFiles) {
					continue
				}
				lo, _ := strconv.Atoi(m[1])
				n, _ := strconv.Atoi(m[2])
				name := fmt.Sprintf(".vol%0*d+%0*d.par2", len(m[1]), lo, len(m[2]), n+2)
				if c.Stale == 2 && lo > 0 {
					name = fmt.Sprintf(".vol%0*d+%0*d.par2", len(m[1]), lo-1, len(m[2]), n+1)
				}
				fs.Put(strings.TrimSuffix(p, m[0])+name, other.FS0.Files[other.RecFiles[i]])
			}
		}
	}
	if c.List == 1 {
		fs.Order = func(m []string) []string {
			out := append([]string{}, m...)
			sort.Sort(sort.Reverse(sort.StringSlice(out)))
			return out
		}
	}
	if c.PriorBad != 0 {
		bfs := s.FS0.Clone()
		var bo scen.P2Obs
		if c.PriorBad == 3 {
			if b, ok := bfs.Get(s.Index); ok {
				bfs.Put(s.Index, b[:len(b)-9])
			}
			s.ObserveVerify(bfs, c.G, &bo)
		} else if len(s.RecFiles) > 0 {
			b, _ := bfs.Get(s.RecFiles[0])
			nb := append([]byte{}, b...)
			nb[len(nb)-1] ^= 0x04 // last byte of the last packet's body: that packet's hash no longer matches
			bfs.Put(s.RecFiles[0], nb)
			bfs.Del(s.Paths[0])
			if c.PriorBad == 2 {
				s.ObserveRepair(bfs, c.G, false, &bo)
			} else {
				s.ObserveVerify(bfs, c.G, &bo)
			}
		}
		r.AddTransitions(1)
	}
	if c.PriorGen != 0 {
		tw := c.Cfg
		tw.Generation = c.Cfg.Generation + 1
		if ts, terr := scen.GetP2(tw, r.Seed); terr == nil {
			if ts.Ref.SetID != s.Ref.SetID {
				r.Note("prior generation does not share the set id (files not above 16 KiB?)")
			}
			tfs := ts.FS0.Clone()
			var to scen.P2Obs
			if c.PriorGen == 2 {
				tfs.Del(ts.Paths[0])
				ts.ObserveRepair(tfs, c.G, false, &to)
			} else {
				ts.ObserveVerify(tfs, c.G, &to)
			}
			r.AddTransitions(1)
		}
	}
	t := s.Truth(fs)
	if c.AutoPrune {
		// choose a subset of the recovery files (whatever way Create distributed the blocks) holding exactly K blocks
		var files []string
		var sizes []int
		for _, p := range s.RecFiles {
			if _, ok := fs.Get(p); ok {
				files = append(files, p)
				sizes = append(sizes, len(s.RecExps[p]))
			}
		}
		best := -1
		for mask := 0; mask < 1<<uint(len(files)); mask++ {
			sum := 0
			for i := range files {
				if mask&(1<<uint(i)) != 0 {
					sum += sizes[i]
				}
			}
			if sum == t.K {
				best = mask
				break
			}
		}
		if best < 0 {
			r.Count("autoprune_impossible", 1)
		} else {
			for i, p := range files {
				if best&(1<<uint(i)) == 0 {
					fs.Del(p)
				}
			}
			t = s.Truth(fs)
		}
	}
	run := &p2Run{S: s, T: t}
	o := &run.O
	var twinStart *envfs.FS
	if c.DiskTwin && c.FailWrite == 0 {
		twinStart = fs.Clone()
	}
	// staged twin: scenarios that exchange or copy whole files (and every disk-twin scenario) also run through the staged
	// Decoder API with the recovery data loaded FIRST; counts, outcome and final directory must be those of the wrappers
	var stagedStart *envfs.FS
	if c.FailWrite == 0 && c.PriorGen == 0 && !c.RecDamaged {
		moved := c.DiskTwin
		for _, d := range c.Dmg {
			if d.Op == "swap" || d.Op == "copy" || d.Op == "badrec" {
				moved = true
			}
		}
		if moved {
			stagedStart = fs.Clone()
		}
	}
	vfs := fs.Clone()
	s.ObserveVerify(vfs, c.G, o)
	if c.FailWrite > 0 {
		nw := 0
		fs.Hook = func(index int, kind, p string, data []byte) *envfs.Fault {
			if kind == "write" {
				nw++
				if nw == c.FailWrite {
					return &envfs.Fault{Err: envfs.ErrInjected, Partial: -1, Kind: "error"}
				}
			}
			return nil
		}
	}
	s.ObserveRepair(fs, c.G, c.DoubleCheck, o)
	fs.Hook = nil
	r.AddStates(1)
	r.AddTransitions(2)

	r.Outcome(fmt.Sprintf("v:%s/%v r:%s/%d k=%d n=%d intact=%v", errClass(o.VerifyErr), o.Counts, errClass(o.RepairErr), len(o.RepairedPaths), t.K, t.N, t.AllIntact))
	if twinStart != nil && o.VerifyPanic == nil && o.RepairPanic == nil {
		diskTwinP2(s, twinStart, o, c, r)
	}
	if stagedStart != nil && o.VerifyPanic == nil && o.RepairPanic == nil {
		stagedTwinP2(s, stagedStart, o, c, r)
	}

	// panics are violations of every property's implicit "terminates normally"
	if o.VerifyPanic != nil {
		r.Violate("verify-panic:"+o.VerifyPanic.Frame, o.VerifyPanic.Value+"\n"+o.VerifyPanic.Stack)
	}
	if o.RepairPanic != nil {
		r.Violate("repair-panic:"+o.RepairPanic.Frame, o.RepairPanic.Value+"\n"+o.RepairPanic.Stack)
	}

	repairOK := o.RepairPanic == nil && o.RepairErr == nil
	allOrig := s.AllOriginal(o.After)

	if cl.RepairWithinCapacity {
		if repairOK && !allOrig {
			r.Violatef("repair-nil-but-files-differ", "Repair returned nil but protected files are not all byte-identical (K=%d N=%d)", t.K, t.N)
		}
		if t.Scan.OverlapFree && t.K <= t.N && !t.AnySingular && o.RepairPanic == nil {
			if o.RepairErr != nil {
				r.Violatef("repair-failed-within-capacity:"+errClass(o.RepairErr), "K=%d unfindable slices, N=%d intact recovery blocks (exponents %v), system non-singular, but Repair returned: %v", t.K, t.N, t.Exps, o.RepairErr)
			}
		}
		if t.AllIntact && o.RepairPanic == nil && o.RepairErr != nil {
			// nothing is damaged: k = 0 whatever the content looks like (an aligned scan of an intact file finds every slice)
			r.Violatef("repair-failed-on-intact-set:"+errClass(o.RepairErr), "every protected file is present and byte-identical, but Repair returned: %v", o.RepairErr)
		}
		if t.K > 0 || !t.AllIntact {
			if len(o.RepairedPaths) > 0 {
				r.NontrivialCase()
			}
		}
		if !t.Scan.OverlapFree {
			r.Count("skipped_ambiguous", 1)
		}
		if t.LowestSingular {
			r.Count("singular_lowest_rows", 1)
		}
	}

	if cl.VerifyTruth && c.RecDamaged {
		// the truth about recovery blocks is what a reader that resynchronises on the packet magic finds intact
		ex := map[uint32]bool{}
		for _, p := range s.RecFiles {
			if b, ok := fs.Get(p); ok {
				for e := range rpar2.LooseRecovery(b, s.Ref.SetID, s.Cfg.Slice) {
					ex[e] = true
				}
			}
		}
		if b, ok := fs.Get(s.Index); ok {
			for e := range rpar2.LooseRecovery(b, s.Ref.SetID, s.Cfg.Slice) {
				ex[e] = true
			}
		}
		t.N = len(ex)
	}
	if cl.VerifyTruth && o.VerifyPanic == nil {
		if o.VerifyErr != nil && c.RecDamaged {
			r.Count("verify_refused_on_damaged_recovery_file", 1)
		} else if o.VerifyErr != nil {
			r.Violatef("verify-error-on-valid-set:"+errClass(o.VerifyErr), "index and surviving recovery files are as written by Create, but Verify returned: %v", o.VerifyErr)
		} else {
			sc := o.Counts
			if !sc.RepairNeeded() && !t.AllIntact {
				class := "some-slices-unfindable"
				if t.K == 0 {
					class = "all-slices-findable"
				}
				r.Violatef("verify-clean-but-files-differ:"+class, "Verify reports no repair needed (%+v) but protected files are not all present and byte-identical (intact=%v)", sc, t.Intact)
			}
			if sc.UsableDataShardCount > t.Total-t.K {
				r.Violatef("verify-usable-unsound", "usable=%d but only %d slices have their content present in surviving protected files", sc.UsableDataShardCount, t.Total-t.K)
			}
			if sc.UnusableDataShardCount > t.DamagedFileSlices {
				r.Violatef("verify-missed-slice-of-undamaged-file", "unusable=%d exceeds the %d slices of damaged files", sc.UnusableDataShardCount, t.DamagedFileSlices)
			}
			if sc.UsableDataShardCount+sc.UnusableDataShardCount != t.Total {
				r.Violatef("verify-counts-do-not-add-up", "usable %d + unusable %d != %d slices", sc.UsableDataShardCount, sc.UnusableDataShardCount, t.Total)
			}
			if sc.UsableParityShardCount != t.N {
				r.Violatef("verify-parity-count-wrong", "usable recovery blocks reported %d, distinct intact blocks beside the index %d (%v)", sc.UsableParityShardCount, t.N, t.Exps)
			}
			if sc.RepairPossible() != (sc.UnusableDataShardCount <= sc.UsableParityShardCount) {
				r.Violatef("verify-repair-possible-inconsistent", "RepairPossible()=%v with %+v", sc.RepairPossible(), sc)
			}
			if !t.AllIntact {
				r.NontrivialCase()
			}
		}
	}

	if cl.ExactUsable && o.VerifyPanic == nil && o.VerifyErr == nil {
		if t.Scan.OverlapFree {
			if o.Counts.UsableDataShardCount != t.Total-t.K {
				r.Violatef("verify-usable-not-exact", "usable=%d, slices still present somewhere=%d of %d", o.Counts.UsableDataShardCount, t.Total-t.K, t.Total)
			}
		} else {
			r.Count("skipped_ambiguous", 1)
		}
	}

	if cl.WriteOracle {
		if o.VerifyWrites != 0 || len(o.VerifyDiff) != 0 {
			r.Violatef("verify-modified-directory", "Verify performed %d writes, changed %v", o.VerifyWrites, o.VerifyDiff)
		}
		for _, b := range s.CheckWrites(o) {
			r.Violate(b[0], b[1])
		}
		// reported paths must be files that hold their originals afterwards
		for _, p := range o.RepairedPaths {
			ok := false
			for i, pp := range s.Paths {
				if pp == p && bytes.Equal(o.After[pp], s.Data[i]) {
					ok = true
				}
			}
			if !ok {
				r.Count("reported_path_not_original", 1)
			}
		}
		if len(o.RepairLog) > 0 {
			nw := 0
			for _, op := range o.RepairLog {
				if op.Kind == "write" {
					nw++
				}
			}
			if nw > 0 || o.RepairErr != nil {
				r.NontrivialCase()
			}
		}
	}

	if cl.NoPanicSound && o.VerifyPanic == nil && o.VerifyErr == nil {
		if o.Counts.UsableDataShardCount > t.Total-t.K {
			r.Violatef("verify-usable-unsound", "usable=%d but only %d slices present", o.Counts.UsableDataShardCount, t.Total-t.K)
		}
		if o.Counts.UsableParityShardCount > t.N {
			r.Violatef("verify-parity-unsound", "usable recovery blocks %d > intact %d", o.Counts.UsableParityShardCount, t.N)
		}
	}
	return run
}

var twinSeq int

// materialize writes an in-memory directory under root.
func materialize(root string, files map[string][]byte) {
	for p, b := range files {
		full := filepath.Join(root, p)
		os.MkdirAll(filepath.Dir(full), 0755)
		if err := ioutil.WriteFile(full, b, 0644); err != nil {
			panic(err)
		}
	}
}

// readTree returns path (relative to root, with a leading slash) -> content.
func readTree(root string) map[string][]byte {
	m := map[string][]byte{}
	filepath.Walk(root, func(p string, info os.FileInfo, err error) error {
		if err == nil && !info.IsDir() {
			b, _ := ioutil.ReadFile(p)
			m[strings.TrimPrefix(p, root)] = b
		}
		return nil
	})
	return m
}

// diskTwinP2 runs the same damaged directory through the EXPORTED entry points (default filesystem seam, real
// directory listing) and requires the observations of the in-memory run: the oracle has judged that run, so any
// difference is a defect of the seam (or state leaking between the two).
func diskTwinP2(s *scen.P2Set, start *envfs.FS, o *scen.P2Obs, c *p2Case, r *core.Rec) {
	twinSeq++
	root := filepath.Join(workerScratch(), fmt.Sprintf("twin-%d", twinSeq))
	os.RemoveAll(root)
	defer os.RemoveAll(root)
	defer os.RemoveAll(root + "-blob")
	materialize(root, start.Files)
	twinSymlink(root, s.Paths)
	index := filepath.Join(root, s.Index)
	// run from another directory that holds intact look-alikes of every file of the set at the same relative names:
	// nothing may be resolved against the working directory, and it must stay as it is
	decoy := root + "-cwd"
	os.RemoveAll(decoy)
	defer os.RemoveAll(decoy)
	dec := map[string][]byte{}
	if s.FS0 != nil {
		for p, b := range s.FS0.Files {
			dec[strings.TrimPrefix(p, s.Dir)] = b
		}
	} else {
		// sets built by hand (C19): the starting directory itself serves as the look-alike
		for p, b := range start.Files {
			dec[strings.TrimPrefix(p, filepath.Dir(s.Index))] = b
		}
	}
	materialize(decoy, dec)
	decoyBefore := readTree(decoy)
	oldwd, _ := os.Getwd()
	os.Chdir(decoy)
	defer os.Chdir(oldwd)
	defer func() {
		if d := envfs.Diff(readTree(decoy), decoyBefore); len(d) > 0 {
			r.Violatef("disk-run-touched-the-working-directory", "the working directory (not the set's) changed: %v", d)
		}
	}()
	g := c.G
	if g <= 0 {
		g = 1
	}
	var vres par2.VerifyResult
	var verr, rerr error
	var rres par2.RepairResult
	absIndex := index
	index = twinSpell(decoy, index)
	if pi := core.Catch(func() { vres, verr = par2.Verify(index, par2.VerifyOptions{NumGoroutines: g}) }); pi != nil {
		r.Violate("disk-verify-panic:"+pi.Frame, pi.Value+"\n"+pi.Stack)
		return
	}
	if pi := core.Catch(func() {
		rres, rerr = par2.Repair(index, par2.RepairOptions{NumGoroutines: g, DoubleCheck: c.DoubleCheck})
	}); pi != nil {
		r.Violate("disk-repair-panic:"+pi.Frame, pi.Value+"\n"+pi.Stack)
		return
	}
	r.AddTransitions(2)
	r.Count("disk_twins", 1)
	if (verr == nil) != (o.VerifyErr == nil) || (verr == nil && vres.ShardCounts != o.Counts) {
		r.Violatef("disk-run-differs-from-in-memory-run:verify", "real directory: %v %+v; in-memory: %v %+v", verr, vres.ShardCounts, o.VerifyErr, o.Counts)
	}
	if (rerr == nil) != (o.RepairErr == nil) {
		r.Violatef("disk-run-differs-from-in-memory-run:repair-error", "real directory: %v; in-memory: %v", rerr, o.RepairErr)
	}
	var a, b []string
	_ = absIndex
	for _, p := range rres.RepairedPaths {
		if !filepath.IsAbs(p) {
			p = filepath.Join(decoy, p) // reported relative to the working directory, as the index path was given
		}
		a = append(a, strings.TrimPrefix(filepath.Clean(p), root))
	}
	for _, p := range o.RepairedPaths {
		b = append(b, filepath.Clean(p))
	}
	sort.Strings(a)
	sort.Strings(b)
	if strings.Join(a, "|") != strings.Join(b, "|") {
		r.Violatef("disk-run-differs-from-in-memory-run:repaired-paths", "real directory: %v; in-memory: %v", a, b)
	}
	if d := envfs.Diff(readTree(root), o.After); len(d) > 0 {
		r.Violatef("disk-run-differs-from-in-memory-run:final-directory", "after Repair the real directory differs from the in-memory one in %v", d)
	}
}

// genGenerationCases emits scenarios on a set whose files are larger than 16 KiB, each preceded - in the same
// process - by a Verify or a Repair of ANOTHER GENERATION of that set: same names, lengths, slice size and first
// 16 KiB, therefore the same file ids and the same recovery-set id, but other content beyond 16 KiB. Anything keyed
// by set id or file id that survives a call (a cache, a pool) then hands this set the other generation's data.
// Damage is chosen so that exactly as many slices are lost as there are recovery blocks (no spare to hide behind).
func genGenerationCases(emit func(*p2Case), autoPrune bool) {
	for gen := 0; gen <= 1; gen++ {
		cfg := scen.P2Config{Sizes: []int{20000, 17001}, Slice: 1000, Blocks: 3, Class: "uniq", G: 2, Generation: gen}
		for _, d := range [][]scen.Dmg{
			nil,
			{{Op: "ovw", F: 0, At: 17}},
			{{Op: "ovw", F: 0, At: 17}, {Op: "ovw", F: 0, At: 18}, {Op: "ovw", F: 1, At: 16}},
			{{Op: "ins", F: 0, At: 16500, N: 7}},
			{{Op: "cut", F: 1, At: 16400, N: 700}},
		} {
			for prior := 1; prior <= 2; prior++ {
				emit(&p2Case{Cfg: cfg, Dmg: d, G: 2, PriorGen: prior, DoubleCheck: prior == 2, AutoPrune: autoPrune && len(d) > 0})
			}
		}
	}
}

// twinSpell varies how a disk twin names the index file: absolute, relative to the working directory (the path then
// starts with ".."), or relative with "./" and a doubled separator. The spelling must not matter.
func twinSpell(cwd, index string) string {
	rel, err := filepath.Rel(cwd, index)
	if err != nil {
		return index
	}
	switch twinSeq % 3 {
	case 1:
		return rel
	case 2:
		return "./" + strings.Replace(rel, "/", "//", 1)
	}
	return index
}

// stagedTwinP2: the same directory through NewDecoder, LoadParityData, LoadFileData (recovery data first - the reverse
// of what Verify / Repair do), ShardCounts, Repair. The order of the two loads must not matter.
func stagedTwinP2(s *scen.P2Set, start *envfs.FS, o *scen.P2Obs, c *p2Case, r *core.Rec) {
	g := c.G
	if g <= 0 {
		g = 1
	}
	var counts par2.ShardCounts
	var lerr, rerr error
	retriedNil := false
	pi := core.Catch(func() {
		d, e := par2.VerifNewDecoder(start, par2.DoNothingDecoderDelegate{}, s.Index, g)
		if e != nil {
			lerr = e
			return
		}
		if lerr = d.LoadParityData(); lerr != nil {
			return
		}
		if lerr = d.LoadFileData(); lerr != nil {
			return
		}
		counts = d.ShardCounts()
		if _, rerr = d.Repair(c.DoubleCheck); rerr != nil {
			// a refused Repair, asked again on the same object: a nil answer now has to be as true as any other
			if _, again := d.Repair(c.DoubleCheck); again == nil {
				retriedNil = true
			}
		}
	})
	r.AddTransitions(1)
	r.Count("staged_twins", 1)
	if pi != nil {
		r.Violate("staged-panic:"+pi.Frame, pi.Value+"\n"+pi.Stack)
		return
	}
	if (lerr == nil) != (o.VerifyErr == nil) {
		r.Violatef("staged-run-differs-from-wrappers:load", "recovery data loaded first: load error %v; Verify: %v", lerr, o.VerifyErr)
		return
	}
	if lerr != nil {
		return
	}
	if counts != o.Counts {
		r.Violatef("staged-run-differs-from-wrappers:counts", "recovery data loaded first: %+v; Verify: %+v", counts, o.Counts)
	}
	if retriedNil {
		if !s.AllOriginal(start.Snapshot()) {
			r.Violatef("staged-retry-nil-but-files-differ", "Repair refused (%v); asked again on the same object it returned nil, but the protected files are not all original", rerr)
		}
		return
	}
	if (rerr == nil) != (o.RepairErr == nil) {
		r.Violatef("staged-run-differs-from-wrappers:repair-error", "recovery data loaded first: Repair %v; wrapper: %v", rerr, o.RepairErr)
	}
	if d := envfs.Diff(start.Snapshot(), o.After); len(d) > 0 {
		r.Violatef("staged-run-differs-from-wrappers:final-directory", "after Repair the directory differs from the wrapper run in %v", d)
	}
}

// twinSymlink: in every third disk twin one protected file (if present) is a symbolic link to its bytes stored
// elsewhere. Reading and rewriting go through the link; what a link's own metadata says (its size is the length of the
// target path) must not be taken for the file's.
func twinSymlink(root string, paths []string) {
	if twinSeq%3 != 0 || len(paths) == 0 {
		return
	}
	p := filepath.Join(root, paths[twinSeq/3%len(paths)])
	st, err := os.Lstat(p)
	if err != nil || !st.Mode().IsRegular() {
		return
	}
	blobDir := root + "-blob"
	os.MkdirAll(blobDir, 0755)
	blob := filepath.Join(blobDir, fmt.Sprintf("b%d", twinSeq))
	b, _ := ioutil.ReadFile(p)
	if ioutil.WriteFile(blob, b, 0644) != nil {
		return
	}
	os.Remove(p)
	if os.Symlink(blob, p) != nil {
		ioutil.WriteFile(p, b, 0644)
	}
}
