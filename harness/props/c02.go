package props

import (
	"bytes"
	"fmt"
	"io/ioutil"
	"os"
	"path"
	"path/filepath"
	"sort"
	"strings"

	"github.com/akalin/gopar/par1"
	"github.com/akalin/gopar/par2"

	"verifh/core"
	"verifh/envfs"
	"verifh/scen"
)

// C02: Repair writes only exact originals; nothing else changes; Create
// never modifies inputs; Verify modifies nothing.

type c02Case struct {
	Kind string        `json:"kind"` // "p2", "p1", "create2", "create1", "disk"
	P2   *p2Case       `json:"p2,omitempty"`
	P1   *p1Case       `json:"p1,omitempty"`
	Ref  *c10Case      `json:"ref,omitempty"` // kind "p1ref": a PAR1 set written by the reference writer (entries not saved in the parity set among the saved ones, a comment), judged with the same write oracle
	Dec  *decProtoCase `json:"dec,omitempty"` // kind "decproto": operation sequences with interrupted Repairs and failing loads on ONE Decoder object (decproto.go): what any Repair of the sequence writes is original or reported as failed
	// disk: the exported API on a real directory full of decoy files
	Fmt   string `json:"fmt,omitempty"`
	State string `json:"state,omitempty"` // intact, missing0, changed1, two, all, beyond
	Op    string `json:"op,omitempty"`    // create, verify, repair, repairdc
	Cwd   string `json:"cwd,omitempty"`   // set (relative paths), other (absolute paths)
	Nest  bool   `json:"nest,omitempty"`  // disk, PAR2: the second protected file lives two directories down (states "dirgone" / "dirgone2": those directories are gone altogether)
}

var c02Extras = []string{"/d/unrelated.txt", "/d/sub/x.bin", "/d/s.par2.bak", "/d/s.vol00+01.par2.old", "/d/f0.orig", "/other/s.vol05+01.par2"}
var c02Extras1 = []string{"/d/unrelated.txt", "/d/sub/x.bin", "/d/s.par.bak", "/d/s.p01.old", "/d/f0.orig", "/other/s.p01"}

func c02Gen(g *core.Gen) {
	decDepth := 5
	if g.Thorough() {
		decDepth = 6
	}
	for _, f := range []string{"p1", "p2"} {
		for _, a := range dpFaultAlphabet {
			for _, b := range dpFaultAlphabet {
				g.Emit(&c02Case{Kind: "decproto", Dec: &decProtoCase{Fmt: f, Prefix: []int{a, b}, Depth: decDepth, Fault: true}})
			}
		}
	}
	// and the main alphabet (damage / restore events between the calls): what a later Repair of the same object writes
	// is original and listed, too
	for _, f := range []string{"p1", "p2"} {
		decProtoGen(f, decDepth+1, false, func(d *decProtoCase) {
			if !d.Fault {
				g.Emit(&c02Case{Kind: "decproto", Dec: d})
			}
		})
	}
	D := 3 // all combinations of <=3 operators of the reduced menu in both tiers; thorough adds pairs and triples over the full menu
	// PAR2: default sets; menu = reduced data menu + recovery-file operators (+ full data menu at D=1)
	cfgs := []scen.P2Config{
		{Sizes: []int{11, 6}, Slice: 4, Blocks: 3, Class: "uniq"},
		{Sizes: []int{9, 4, 13}, Slice: 4, Blocks: 2, Class: "uniq"},
		{Sizes: []int{8, 8}, Slice: 4, Blocks: 1, Class: "trailzero"},
	}
	for ci, cfg := range cfgs {
		nrec := nRecFiles(cfg.Blocks)
		menu := append(scen.DataMenu(cfg.Sizes, cfg.Slice, nrec, false), scen.RecMenu(nrec)...)
		d := D
		for k := 0; k <= d; k++ {
			forCombos(len(menu), k, func(ix []int) {
				if g.Stopped() {
					return
				}
				var ds []scen.Dmg
				for _, i := range ix {
					ds = append(ds, menu[i])
				}
				for _, dc := range []bool{false, true} {
					g.Emit(&c02Case{Kind: "p2", P2: &p2Case{Cfg: cfg, Dmg: ds, G: 1 + ci, DoubleCheck: dc, Extra: c02Extras}})
				}
			})
		}
		full := scen.DataMenu(cfg.Sizes, cfg.Slice, nrec, true)
		for _, m := range full {
			g.Emit(&c02Case{Kind: "p2", P2: &p2Case{Cfg: cfg, Dmg: []scen.Dmg{m}, G: 1, DoubleCheck: ci%2 == 0, Extra: c02Extras}})
		}
		if g.Thorough() {
			fullRec := append(append([]scen.Dmg{}, full...), scen.RecMenu(nrec)...)
			kmax := 2
			if ci == 0 {
				kmax = 3
			}
			for k := 2; k <= kmax; k++ {
				forCombos(len(fullRec), k, func(ix []int) {
					if g.Stopped() {
						return
					}
					var ds []scen.Dmg
					for _, i := range ix {
						ds = append(ds, fullRec[i])
					}
					g.Emit(&c02Case{Kind: "p2", P2: &p2Case{Cfg: cfg, Dmg: ds, G: 1, DoubleCheck: (ix[0]+k)%2 == 0, Extra: c02Extras}})
				})
			}
		}
	}
	// files above 16 KiB (the 16k hash no longer covers the whole file) x every subset of recovery files replaced by
	// well-formed files carrying wrong blocks (as a volume left over from another generation of the set would be) x
	// damage inside / beyond the first 16 KiB, up to and beyond capacity x DoubleCheck: the file hash is the last gate
	big2Cfg := scen.P2Config{Sizes: []int{20000, 17001}, Slice: 1000, Blocks: 3, Class: "uniq", G: 2}
	for sub := 0; sub < 1<<uint(nRecFiles(big2Cfg.Blocks)); sub++ {
		for _, dm := range [][]scen.Dmg{
			{{Op: "ovw", F: 0, At: 17}},
			{{Op: "ovw", F: 0, At: 3}},
			{{Op: "ovw", F: 0, At: 17}, {Op: "ovw", F: 1, At: 16}},
			{{Op: "ovw", F: 0, At: 17}, {Op: "ovw", F: 0, At: 18}, {Op: "ovw", F: 1, At: 16}},
			{{Op: "ovw", F: 0, At: 19}, {Op: "ovw", F: 0, At: 18}, {Op: "ovw", F: 1, At: 16}, {Op: "ovw", F: 0, At: 17}},
			{{Op: "cut", F: 0, At: 17500, N: 3}},
			{{Op: "del", F: 1}},
		} {
			ds := append([]scen.Dmg{}, dm...)
			for v := 0; v < nRecFiles(big2Cfg.Blocks); v++ {
				if sub>>uint(v)&1 == 1 {
					ds = append(ds, scen.Dmg{Op: "badrec", F: v})
				}
			}
			for _, dc := range []bool{false, true} {
				g.Emit(&c02Case{Kind: "p2", P2: &p2Case{Cfg: big2Cfg, Dmg: ds, G: 2, DoubleCheck: dc, Extra: c02Extras}})
			}
		}
	}
	// Repair that fails midway: the k-th write fails (no effect); everything written before must still be
	// exact and listed ("whether Repair succeeds or fails")
	for ci, cfg := range cfgs {
		nrec := nRecFiles(cfg.Blocks)
		menu := scen.DataMenu(cfg.Sizes, cfg.Slice, nrec, false)
		for k := 1; k <= 2; k++ {
			forCombos(len(menu), k, func(ix []int) {
				var ds []scen.Dmg
				for _, i := range ix {
					ds = append(ds, menu[i])
				}
				for fw := 1; fw <= 3; fw++ {
					g.Emit(&c02Case{Kind: "p2", P2: &p2Case{Cfg: cfg, Dmg: ds, G: 1, DoubleCheck: (fw+ci)%2 == 0, Extra: c02Extras, FailWrite: fw}})
				}
			})
		}
	}
	// protected files in sub-directories that share a base name with another protected file or with an unrelated file
	// beside the index: neither look-alike may be touched when the nested file is damaged or missing
	nestCfg := scen.P2Config{Sizes: []int{9, 6, 7}, Slice: 4, Blocks: 4, Class: "uniq", Names: []string{"readme.txt", "docs/readme.txt", "sub/notes.txt"}}
	nestExtras := append(append([]string{}, c02Extras...), "/d/notes.txt", "/d/docs/notes.txt", "/d/sub/readme.txt", "/d/docs/docs/readme.txt")
	nestMenu := append(scen.DataMenu(nestCfg.Sizes, nestCfg.Slice, nRecFiles(nestCfg.Blocks), false), scen.RecMenu(nRecFiles(nestCfg.Blocks))...)
	for k := 0; k <= 2; k++ {
		forCombos(len(nestMenu), k, func(ix []int) {
			var ds []scen.Dmg
			for _, i := range ix {
				ds = append(ds, nestMenu[i])
			}
			for _, dc := range []bool{false, true} {
				g.Emit(&c02Case{Kind: "p2", P2: &p2Case{Cfg: nestCfg, Dmg: ds, G: 1, DoubleCheck: dc, Extra: nestExtras}})
			}
		})
	}
	// look-alike files: equal length, identical first 16 KiB (hence equal 16k hash), different tails - rewritten by the
	// same Repair in every combination of {deleted, damaged in the tail, damaged in the common part}
	lookCfg := scen.P2Config{Sizes: []int{17000, 17000, 17000}, Slice: 1000, Blocks: 40, Class: "lookalike", G: 2}
	lookMenu := []scen.Dmg{}
	for f := 0; f < 3; f++ {
		lookMenu = append(lookMenu, scen.Dmg{Op: "del", F: f}, scen.Dmg{Op: "ovw", F: f, At: 16}, scen.Dmg{Op: "ovw", F: f, At: 2})
	}
	for k := 1; k <= 2; k++ {
		forCombos(len(lookMenu), k, func(ix []int) {
			var ds []scen.Dmg
			for _, i := range ix {
				ds = append(ds, lookMenu[i])
			}
			g.Emit(&c02Case{Kind: "p2", P2: &p2Case{Cfg: lookCfg, Dmg: ds, G: 2, DoubleCheck: k == 2, Extra: c02Extras}})
		})
	}
	// a file above the 16 KiB hash boundary: damage beyond the first 16 KiB combined with bad recovery data
	bigCfg := scen.P2Config{Sizes: []int{19000, 5000}, Slice: 1000, Blocks: 3, Class: "uniq", G: 2}
	bigMenu := []scen.Dmg{{Op: "ovw", F: 0, At: 18}, {Op: "ovw", F: 0, At: 0}, {Op: "ovw", F: 1, At: 4}, {Op: "del", F: 0}, {Op: "del", F: 1}, {Op: "ins", F: 0, At: 17500, N: 1},
		{Op: "badrec", F: 0}, {Op: "badrec", F: 1}, {Op: "delrec", F: 0}, {Op: "delrec", F: 1}, {Op: "fliprec", F: 1}}
	for k := 0; k <= 3; k++ {
		forCombos(len(bigMenu), k, func(ix []int) {
			var ds []scen.Dmg
			for _, i := range ix {
				ds = append(ds, bigMenu[i])
			}
			g.Emit(&c02Case{Kind: "p2", P2: &p2Case{Cfg: bigCfg, Dmg: ds, G: 2, DoubleCheck: k%2 == 1, Extra: c02Extras}})
		})
	}
	// PAR1 sets from the reference writer: every status pattern over 4 entries with >= 2 saved ones (non-saved entries
	// before / between / after them) x every non-empty subset of up to 2 saved files missing or corrupted
	for mask := 0; mask < 16; mask++ {
		var st []int
		var savedIx []int
		for i := 0; i < 4; i++ {
			if mask&(1<<uint(i)) != 0 {
				st = append(st, 1)
				savedIx = append(savedIx, i)
			} else {
				st = append(st, 0)
			}
		}
		if len(savedIx) < 2 {
			continue
		}
		for a := 0; a < len(savedIx); a++ {
			for _, corrupt := range []bool{false, true} {
				ma := savedIx[a] // >= 0: that entry's file is deleted; -(i+1): entry i's file is corrupted
				if corrupt {
					ma = -(savedIx[a] + 1)
				}
				g.Emit(&c02Case{Kind: "p1ref", Ref: &c10Case{Dir: "read", Status: st, Comment: mask % 4, NameSet: mask % 3, Missing: []int{ma}, DC: a%2 == 0}})
				for b := a + 1; b < len(savedIx); b++ {
					g.Emit(&c02Case{Kind: "p1ref", Ref: &c10Case{Dir: "read", Status: st, Comment: 0, NameSet: (mask + 1) % 3, Missing: []int{ma, savedIx[b]}, DC: b%2 == 0}})
				}
			}
		}
	}
	// PAR1
	for _, cfg := range []scen.P1Config{{Sizes: []int{7, 3, 5}, Volumes: 2}, {Sizes: []int{4, 9}, Volumes: 3}, {Sizes: []int{6, 0, 2, 8}, Volumes: 2},
		// names with code points on the limits of the encodings involved (U+007F / U+0080 / U+0081, U+07FF, ...): a name
		// decoded differently from how it was encoded is a write to another path
		{Sizes: []int{7, 3, 5}, Names: c10NameSets[5][:3], Volumes: 2}, {Sizes: []int{3, 4}, Names: c10NameSets[5][3:5], Volumes: 2}, {Sizes: []int{3, 4}, Names: []string{"\uffff", "\U00010000"}, Volumes: 1},
		// names that differ only by a blank at the end / start, and names with dots in a row
		{Sizes: []int{5, 4, 6}, Names: []string{"report ", "report", " report"}, Volumes: 2}, {Sizes: []int{5, 4}, Names: []string{"notes..txt", "notes.txt"}, Volumes: 1}} {
		nf := len(cfg.Sizes)
		dm := make([]int, nf)
		var recD func(i int)
		recD = func(i int) {
			if i == nf {
				// volume damage: 0 ok, 1 deleted, 2 corrupt, 3 foreign, 4 truncated
				vd := make([]int, cfg.Volumes)
				var recV func(j int)
				recV = func(j int) {
					if j == cfg.Volumes {
						for _, dc := range []bool{false, true} {
							g.Emit(&c02Case{Kind: "p1", P1: &p1Case{Cfg: cfg, FileDmg: append([]int{}, dm...), VolDmg: append([]int{}, vd...), DC: dc, Extra: c02Extras1}})
						}
						return
					}
					for k := 0; k <= 5; k++ {
						vd[j] = k
						recV(j + 1)
					}
				}
				recV(0)
				return
			}
			for _, k := range []int{0, 1, 2, 3, 4, 5} {
				if cfg.Sizes[i] == 0 && k > 1 {
					continue
				}
				dm[i] = k
				recD(i + 1)
			}
		}
		recD(0)
	}
	// PAR1 files above the 16 KiB hash boundary with wrong parity beyond the first 16 KiB
	bigP1 := scen.P1Config{Sizes: []int{19000, 5000, 17500}, Volumes: 2}
	for f0 := 0; f0 <= 5; f0++ {
		for f2 := 0; f2 <= 2; f2++ {
			for v1 := 0; v1 <= 5; v1++ {
				for v2 := 0; v2 <= 5; v2 += 5 {
					g.Emit(&c02Case{Kind: "p1", P1: &p1Case{Cfg: bigP1, FileDmg: []int{f0, 0, f2}, VolDmg: []int{v1, v2}, DC: (f0+v1)%2 == 0, Extra: c02Extras1}})
				}
			}
		}
	}
	// the exported entry points on a REAL directory (the default filesystem seam itself is then part of what is
	// checked), with decoy files whose names resemble temporary / backup / sibling names of every file involved
	for _, f := range []string{"p2", "p1"} {
		for _, op := range []string{"create", "verify", "repair", "repairdc"} {
			for _, st := range []string{"intact", "missing0", "changed1", "two", "all", "beyond"} {
				if op == "create" && st != "intact" {
					continue
				}
				for _, cw := range []string{"set", "other"} {
					g.Emit(&c02Case{Kind: "disk", Fmt: f, State: st, Op: op, Cwd: cw})
					if f == "p2" {
						g.Emit(&c02Case{Kind: "disk", Fmt: f, State: st, Op: op, Cwd: cw, Nest: true})
					}
				}
			}
			if f == "p2" && op != "create" {
				for _, cw := range []string{"set", "other"} {
					g.Emit(&c02Case{Kind: "disk", Fmt: f, State: "dirgone", Op: op, Cwd: cw, Nest: true})
					g.Emit(&c02Case{Kind: "disk", Fmt: f, State: "dirgone2", Op: op, Cwd: cw, Nest: true})
				}
			}
		}
	}
	// Create: inputs untouched, only set files written
	for _, s := range []int{4, 8} {
		for _, a := range sizesGrid(s) {
			for _, b := range sizesGrid(s) {
				for _, p := range []int{1, 3, 9} {
					g.Emit(&c02Case{Kind: "create2", P2: &p2Case{Cfg: scen.P2Config{Sizes: []int{a, b}, Slice: s, Blocks: p, Class: "uniq", G: 1 + p%3}, Extra: c02Extras}})
				}
			}
		}
	}
	for _, a := range []int{0, 1, 5, 16384, 16385} {
		for _, b := range []int{1, 9} {
			for _, v := range []int{1, 3, 12} {
				g.Emit(&c02Case{Kind: "create1", P1: &p1Case{Cfg: scen.P1Config{Sizes: []int{a, b}, Volumes: v}, Extra: c02Extras1}})
			}
		}
	}
}

func c02Create(c *c02Case, r *core.Rec) {
	fs := envfs.New()
	var paths []string
	var sizes []int
	if c.Kind == "create2" {
		sizes = c.P2.Cfg.Sizes
	} else {
		sizes = c.P1.Cfg.Sizes
	}
	for i, n := range sizes {
		p := fmt.Sprintf("/d/f%d", i)
		paths = append(paths, p)
		fs.Put(p, scen.Content("uniq", r.Seed, i, n, 4))
	}
	extras := c02Extras
	if c.Kind == "create1" {
		extras = c02Extras1
	}
	for i, e := range extras {
		fs.Put(e, scen.Garbage(r.Seed, 400+i, 9))
	}
	before := fs.Snapshot()
	var err error
	var base string
	pi := core.Catch(func() {
		if c.Kind == "create2" {
			base = "/d/s"
			err = par2.VerifCreate(fs, "/d/s.par2", paths, par2.CreateOptions{SliceByteCount: c.P2.Cfg.Slice, NumParityShards: c.P2.Cfg.Blocks, NumGoroutines: c.P2.Cfg.G})
		} else {
			base = "/d/s"
			err = par1.VerifCreate(fs, "/d/s.par", paths, par1.CreateOptions{NumParityFiles: c.P1.Cfg.Volumes})
		}
	})
	r.AddStates(1)
	r.AddTransitions(1)
	if pi != nil {
		r.Violate("create-panic:"+pi.Frame, pi.Value+"\n"+pi.Stack)
		return
	}
	r.Outcome(fmt.Sprintf("%s %s writes=%d", c.Kind, errClass(err), len(fs.Writes())))
	for _, op := range fs.Writes() {
		cp := path.Clean(op.Path)
		ok := false
		if c.Kind == "create2" {
			ok = cp == base+".par2" || (strings.HasPrefix(cp, base+".") && strings.HasSuffix(cp, ".par2") && !strings.Contains(cp[len(base):], "/"))
		} else {
			rest := strings.TrimPrefix(cp, base+".p")
			ok = cp == base+".par" || (rest != cp && len(rest) >= 2 && strings.Trim(rest, "0123456789") == "")
		}
		if !ok {
			r.Violatef("create-wrote-unexpected-path", "Create wrote %q", op.Path)
		}
		if _, existed := before[cp]; existed {
			r.Violatef("create-overwrote-existing-file", "Create overwrote %q", op.Path)
		}
	}
	after := fs.Snapshot()
	for k, v := range before {
		if !bytes.Equal(after[k], v) {
			r.Violatef("create-modified-input-or-other-file", "%q changed during Create", k)
		}
		if _, ok := after[k]; !ok {
			r.Violatef("create-modified-input-or-other-file", "%q disappeared during Create", k)
		}
	}
	if err == nil && len(fs.Writes()) > 1 {
		r.NontrivialCase()
	}
}

func init() {
	core.Register(&core.Prop{
		ID:    "C02",
		Level: "model_checking",
		Rule: "(later rounds added: the decoder protocol search - main and fault alphabet - under the write oracle; a set above 16 KiB with every subset of wrong recovery files; PAR1 names with boundary code points, blanks at either end, dots in a row; staged twins) PAR1 sets written by the reference writer (every status pattern over 4 entries with >= 2 saved ones x one or two saved files deleted / corrupted, comment variants) under the same write oracle; the real-directory runs also with a protected file two directories down and those directories gone altogether; bounded-exhaustive archive states (plus a PAR2 set whose protected files live in sub-directories and share base names with each other and with unrelated files beside the index, all combinations of <=2 operators): PAR2 default sets with ALL combinations of <=3 operators (thorough: additionally all pairs, and for the default set all triples, over the FULL per-offset data menu plus the recovery-file operators) from {data damage menu} U {recovery file replaced by a well-formed file with wrong blocks, payload flip, truncation, emptied, foreign-set recovery file, deleted}, double-check on and off, unrelated files / sub-directory / look-alike names beside the set; " +
			"PAR1 full product of per-file damage {ok,deleted,changed,truncated,emptied,garbage} x per-volume {ok,deleted,corrupt,foreign,truncated} x double-check; Create on a size grid. " +
			"Oracle from the recorder: every write during Repair targets a protected path with exactly the protected bytes and is listed in the result; every other directory entry is byte-identical afterwards; Verify performs no write; Create writes only set files and changes nothing else. non-trivial = Repair wrote or failed",
		Assumptions: []string{"all filesystem access of par1/par2 goes through the fileIO seam (asserted by a source lint in this check)", "a path listed in the result but not written is outside the statement (counted, not alarmed)"},
		NewCase:     func() interface{} { return &c02Case{} },
		Gen:         c02Gen,
		Setup: func(tier string, seed int64) {
			lintFileIOSeam()
		},
		Run: func(ci interface{}, r *core.Rec) {
			c := ci.(*c02Case)
			switch c.Kind {
			case "p2":
				runP2(c.P2, r, p2Clauses{WriteOracle: true})
			case "p1":
				runP1(c.P1, r, p1Clauses{WriteOracle: true})
			case "p1ref":
				c10ReadDir(c.Ref, r)
			case "decproto":
				decProtoRun(c.Dec, r, func(d *decProtoCase) interface{} { return &c02Case{Kind: "decproto", Dec: d} })
			case "disk":
				c02Disk(c, r)
			default:
				c02Create(c, r)
			}
			if seamLintError != "" {
				r.Violate("fileio-seam-bypassed", seamLintError)
			}
		},
	})
}

var c02DiskSeq int

// c02Disk runs one operation through the exported API on a real directory and compares byte snapshots of the
// whole tree.
func c02Disk(c *c02Case, r *core.Rec) {
	c02DiskSeq++
	root := filepath.Join(workerScratch(), fmt.Sprintf("c02d-%d", c02DiskSeq))
	os.RemoveAll(root)
	defer os.RemoveAll(root)
	set := filepath.Join(root, "set")
	os.MkdirAll(filepath.Join(set, "sub"), 0755)
	os.MkdirAll(filepath.Join(root, "else"), 0755)
	names := []string{"a.txt", "b.txt", "c.bin"}
	if c.Nest {
		names[1] = "deep/er/b.txt"
		os.MkdirAll(filepath.Join(set, "deep", "er"), 0755)
	}
	sizes := []int{11, 6, 9}
	var paths []string
	var datas [][]byte
	for i, n := range names {
		p := filepath.Join(set, n)
		d := scen.Content("uniq", r.Seed, i, sizes[i], 4)
		ioutil.WriteFile(p, d, 0644)
		paths = append(paths, p)
		datas = append(datas, d)
	}
	ext := ".par2"
	if c.Fmt == "p1" {
		ext = ".par"
	}
	index := filepath.Join(set, "s"+ext)
	mk := func() error {
		if c.Fmt == "p2" {
			return par2.Create(index, paths, par2.CreateOptions{SliceByteCount: 4, NumParityShards: 3, NumGoroutines: 2})
		}
		return par1.Create(index, paths, par1.CreateOptions{NumParityFiles: 2})
	}
	var setFiles []string
	if c.Op != "create" {
		if err := mk(); err != nil {
			r.Violatef("setup-create-failed:"+errClass(err), "%v", err)
			return
		}
		ents, _ := ioutil.ReadDir(set)
		for _, e := range ents {
			if strings.HasPrefix(e.Name(), "s.") {
				setFiles = append(setFiles, e.Name())
			}
		}
	} else {
		setFiles = []string{"s" + ext, "s.vol00+01.par2", "s.vol01+02.par2", "s.p01", "s.p02", "s.p03"}
	}
	// decoys: look-alike names next to every file that is read or written
	decoyBases := append(append([]string{}, names...), setFiles...)
	for i, b := range decoyBases {
		for j, pat := range []string{"%s.tmp", "%s~", ".%s.swp", "%s.bak", "%s.new", "%s.part", "#%s#", "%s.0", ".%s.tmp"} {
			ioutil.WriteFile(filepath.Join(set, fmt.Sprintf(pat, b)), scen.Garbage(r.Seed, 900+i*16+j, 5+j), 0644)
		}
	}
	ioutil.WriteFile(filepath.Join(set, "sub", "a.txt"), []byte("other a"), 0644)
	ioutil.WriteFile(filepath.Join(set, "notes.txt"), []byte("notes"), 0644)
	ioutil.WriteFile(filepath.Join(root, "else", "a.txt"), []byte("outside a"), 0644)
	ioutil.WriteFile(filepath.Join(root, "a.txt"), []byte("parent a"), 0644)
	switch c.State {
	case "missing0":
		os.Remove(paths[0])
	case "changed1":
		b := append([]byte{}, datas[1]...)
		b[0] ^= 0x80
		ioutil.WriteFile(paths[1], b, 0644)
	case "two":
		os.Remove(paths[2])
		ioutil.WriteFile(paths[0], append([]byte{0xEE}, datas[0]...), 0644)
	case "all":
		if c.Fmt == "p2" {
			os.Remove(paths[0]) // 3 slices = 3 blocks
		} else {
			os.Remove(paths[0])
			os.Remove(paths[1]) // 2 files = 2 volumes
		}
	case "beyond":
		for _, p := range paths {
			os.Remove(p)
		}
	case "dirgone":
		os.RemoveAll(filepath.Join(set, "deep"))
	case "dirgone2":
		os.RemoveAll(filepath.Join(set, "deep"))
		os.Remove(paths[2])
	}
	cwd := set
	arg := "s" + ext
	if c.Cwd == "other" {
		cwd = filepath.Join(root, "else")
		arg = index
	}
	old, _ := os.Getwd()
	os.Chdir(cwd)
	before := snapTree(root)
	var err error
	var listed []string
	pi := core.Catch(func() {
		switch {
		case c.Op == "create":
			in := paths
			if c.Cwd == "set" {
				in = names
			}
			if c.Fmt == "p2" {
				err = par2.Create(arg, in, par2.CreateOptions{SliceByteCount: 4, NumParityShards: 3, NumGoroutines: 2})
			} else {
				err = par1.Create(arg, in, par1.CreateOptions{NumParityFiles: 3})
			}
		case c.Op == "verify" && c.Fmt == "p2":
			_, err = par2.Verify(arg, par2.VerifyOptions{NumGoroutines: 2})
		case c.Op == "verify":
			_, err = par1.Verify(arg, par1.VerifyOptions{VerifyAllData: true})
		case c.Fmt == "p2":
			res, e := par2.Repair(arg, par2.RepairOptions{NumGoroutines: 2, DoubleCheck: c.Op == "repairdc"})
			err, listed = e, res.RepairedPaths
		default:
			res, e := par1.Repair(arg, par1.RepairOptions{DoubleCheck: c.Op == "repairdc"})
			err, listed = e, res.RepairedPaths
		}
	})
	os.Chdir(old)
	after := snapTree(root)
	r.AddStates(1)
	r.AddTransitions(1)
	if pi != nil {
		r.Violate(c.Op+"-panic:"+pi.Frame, pi.Value+"\n"+pi.Stack)
		return
	}
	r.Outcome(fmt.Sprintf("disk %s %s %s %s", c.Fmt, c.Op, c.State, errClass(err)))
	orig := map[string][]byte{}
	for i, p := range paths {
		orig[p] = datas[i]
	}
	isListed := func(p string) bool {
		for _, l := range listed {
			al := l
			if !filepath.IsAbs(al) {
				al = filepath.Join(cwd, al)
			}
			if filepath.Clean(al) == p {
				return true
			}
		}
		return false
	}
	changed := diffTree(before, after)
	sort.Strings(changed)
	for _, p := range changed {
		_, existed := before[p]
		now, exists := after[p]
		switch c.Op {
		case "verify":
			r.Violatef("verify-modified-directory", "Verify (real directory) changed %s", p)
		case "create":
			isSet := filepath.Dir(p) == set && strings.HasPrefix(filepath.Base(p), "s.") && !existed
			if !isSet {
				r.Violatef("create-changed-other-file", "Create (real directory) created/modified/removed %s", p)
			}
		default:
			want, prot := orig[p]
			if !prot && !existed && now == "<dir>" {
				// a directory on the way to a protected file, created anew: part of putting that file back, not a change to
				// anything that was there
				anc := false
				for q := range orig {
					anc = anc || strings.HasPrefix(q, p+string(filepath.Separator))
				}
				if anc {
					continue
				}
			}
			if !prot {
				r.Violatef("repair-changed-other-file", "Repair (real directory) created/modified/removed %s, which is not a protected file", p)
				continue
			}
			if !exists || now != string(want) {
				r.Violatef("repair-wrote-wrong-bytes", "Repair (real directory) left %s with content that is not the protected content", p)
			}
			if !isListed(p) {
				r.Violatef("repair-write-not-listed", "Repair (real directory) rewrote %s but did not list it (%v)", p, listed)
			}
		}
	}
	if len(changed) > 0 || err != nil {
		r.NontrivialCase()
	}
}
