package props

import (
	"bytes"
	"fmt"
	"path"
	"sort"
	"strings"

	"github.com/akalin/gopar/par1"
	"github.com/akalin/gopar/par2"

	"verifh/core"
	"verifh/envfs"
	"verifh/ref/rpar2"
	"verifh/scen"
)

// C18: I/O failures are reported, never swallowed, and never worsen the
// data. Environment enumeration: a fault at each I/O call index in turn,
// each kind, singly and in pairs (second fault in the re-run).

type c18Case struct {
	Fmt   string        `json:"fmt"`             // p2, p1
	Op    string        `json:"op"`              // create, verify, repair, repairdc
	State string        `json:"state"`           // intact, missing, changed, shifted, beyond, volmissing
	Order int           `json:"order"`           // listing order variant: 0 sorted, 1 reversed, 2 rotated
	I     int           `json:"i"`               // call index of the first fault
	Kind  int           `json:"kind"`            // 0 error without effect, k>0: write torn at the k-th cut
	Pairs bool          `json:"pairs"`           // also enumerate every second fault in the re-run
	Enc   *encProtoCase `json:"enc,omitempty"`   // error-path search on ONE Encoder object: a Write torn at its 1st / 2nd file write, a load whose k-th read dies, then retries on that object (encproto.go)
	Dec   *decProtoCase `json:"dec,omitempty"`   // error-path search on ONE Decoder object: interrupted Repairs, loads whose k-th read fails, then retries (decproto.go)
	DirAt int           `json:"dirat,omitempty"` // k > 0: the k-th path the operation deals with (see c18DirCandidates) is a directory (Kind 0: empty, 1: holding a file) instead of a file / of nothing
	World int           `json:"world,omitempty"` // 0: 2 files / 3 blocks (PAR1: 3 files / 2 volumes); 1 (thorough): 3 files / 7 blocks in 3 recovery files (PAR1: 4 files / 3 volumes), all 6 listing orders
}

var c18P2Cfgs = []scen.P2Config{{Sizes: []int{11, 6}, Slice: 4, Blocks: 3, Class: "uniq"}, {Sizes: []int{11, 6, 9}, Slice: 4, Blocks: 7, Class: "uniq"},
																														{Sizes: []int{11, 6, 5}, Slice: 4, Blocks: 3, Class: "uniq", Names: []string{"sub/f0", "f1", "sub/deep/f2"}}} // world 2: protected files in sub-directories (any per-directory I/O is a further place to swallow a fault)
var c18P1Cfgs = []scen.P1Config{{Sizes: []int{7, 5, 0}, Volumes: 2}, {Sizes: []int{7, 0, 3, 8}, Volumes: 3}, {Sizes: []int{1}, Volumes: 1} /* world 2 is PAR2 only */, {Sizes: []int{5, 3}, Volumes: 99}, {Sizes: []int{5, 3}, Volumes: 100}} // each world protects a zero-length file (a failed read and an empty file both yield no bytes)

type c18World struct {
	world   int
	fmtName string
	p2      *scen.P2Set
	p1      *scen.P1Set
	index   string
	paths   []string
	data    [][]byte
}

func c18NewWorld(fmtName string, world int, seed int64) *c18World {
	w := &c18World{fmtName: fmtName, world: world}
	if fmtName == "p2" {
		s, err := scen.GetP2(c18P2Cfgs[world], seed)
		if err != nil {
			panic(err)
		}
		w.p2, w.index, w.paths, w.data = s, s.Index, s.Paths, s.Data
	} else if world == c18RefWorld {
		// a PAR1 set from the reference writer: two saved files, two listed files that are NOT saved in the parity set (and
		// lie beside the index), a comment
		s := decProtoRefSet(seed)
		w.p1, w.index, w.paths, w.data = s, s.Index, s.Paths, s.Data
	} else {
		s, err := scen.GetP1(c18P1Cfgs[world], seed)
		if err != nil {
			panic(err)
		}
		w.p1, w.index, w.paths, w.data = s, s.Index, s.Paths, s.Data
	}
	return w
}

// c18RefWorld: see c18NewWorld.
const c18RefWorld = 5

func (w *c18World) initial(op, state string, seed int64) *envfs.FS {
	var fs *envfs.FS
	if w.fmtName == "p2" {
		fs = w.p2.FS0.Clone()
	} else {
		fs = w.p1.FS0.Clone()
	}
	if op == "create" {
		// only the data files (plus a stale index from an earlier run in state "changed")
		nf := envfs.New()
		for i, p := range w.paths {
			nf.Put(p, w.data[i])
		}
		if state == "changed" {
			nf.Put(w.index, []byte("stale"))
		}
		return nf
	}
	dmg := func(d scen.Dmg) {
		if w.fmtName == "p2" {
			w.p2.ApplyDmg(fs, d, seed)
		} else {
			scen.ApplyData(fs, w.paths, w.p1.VolPaths, 4, seed, d)
		}
	}
	switch state {
	case "intact":
	case "missing":
		dmg(scen.Dmg{Op: "del", F: 0})
	case "changed":
		dmg(scen.Dmg{Op: "ovw", F: 1, At: 0})
	case "shifted":
		dmg(scen.Dmg{Op: "ins", F: 0, At: 0, N: 1})
	case "beyond":
		dmg(scen.Dmg{Op: "del", F: 0})
		dmg(scen.Dmg{Op: "del", F: 1})
		if w.fmtName == "p1" {
			dmg(scen.Dmg{Op: "del", F: 2})
		}
	case "volmissing":
		dmg(scen.Dmg{Op: "delrec", F: 0})
		dmg(scen.Dmg{Op: "ovw", F: 0, At: 1})
	case "lookalike":
		// recovery files under names without the conventional .volNN+MM infix: a renamed volume of this set (its blocks
		// are needed) and the index of another set; a fault on reading either must surface like any other
		if w.fmtName == "p2" {
			rf := w.p2.RecFiles[len(w.p2.RecFiles)-1]
			b, _ := fs.Get(rf)
			fs.Del(rf)
			fs.Put(strings.TrimSuffix(w.index, ".par2")+".backup.par2", b)
			if other, err := scen.GetP2(scen.P2Config{Sizes: []int{5}, Slice: 4, Blocks: 1, Class: "uniq"}, seed+31); err == nil {
				fs.Put(strings.TrimSuffix(w.index, ".par2")+".other.par2", other.FS0.Files[other.Index])
			}
			dmg(scen.Dmg{Op: "del", F: 0})
		}
	case "volnamed":
		// the index file's own name looks like a recovery file's (s.vol00+02.par2); its recovery files carry that whole
		// name as their base. Nothing may treat a failed read of any derived or probed name as absence.
		if w.fmtName == "p2" {
			base := strings.TrimSuffix(w.index, ".par2")
			nbase := base + ".vol00+02"
			for _, p := range fs.Paths() {
				if strings.HasPrefix(p, base+".") && strings.HasSuffix(p, ".par2") {
					b, _ := fs.Get(p)
					fs.Del(p)
					fs.Put(nbase+strings.TrimPrefix(p, base), b)
				}
			}
			dmg(scen.Dmg{Op: "del", F: 0})
		}
	case "two":
		// two files need rewriting and capacity suffices: one deleted, one shifted (PAR1: two deleted, 2 volumes)
		if w.fmtName == "p2" {
			dmg(scen.Dmg{Op: "del", F: 1})
			dmg(scen.Dmg{Op: "ins", F: 0, At: 0, N: 1})
		} else {
			dmg(scen.Dmg{Op: "del", F: 0})
			dmg(scen.Dmg{Op: "del", F: 2})
		}
	}
	return fs
}

type c18Result struct {
	err     error
	paths   []string
	counts  string
	pi      *core.PanicInfo
	reached bool
	log     []envfs.Op
}

func c18Cuts(data []byte) []int {
	m := map[int]bool{0: true, 1: true, len(data) / 2: true, len(data) - 1: true}
	if pk, err := rpar2.Parse(data); err == nil {
		for _, p := range pk {
			m[p.Offset] = true
			m[p.Offset+8] = true
			m[p.Offset+64] = true
		}
	}
	var out []int
	for k := range m {
		if k >= 0 && k < len(data) {
			out = append(out, k)
		}
	}
	sort.Ints(out)
	if len(out) > 14 {
		out = out[:14]
	}
	return out
}

// run executes op on fs with an optional fault at call index fi.
func (w *c18World) run(fs *envfs.FS, op string, order int, fi, kind int) c18Result {
	var res c18Result
	fs.ResetLog()
	fs.Order = func(m []string) []string {
		out := append([]string{}, m...)
		if w.world == 1 && len(out) == 3 {
			pm := permutations(3)[order%6]
			return []string{out[pm[0]], out[pm[1]], out[pm[2]]}
		}
		switch order {
		case 1:
			for i, j := 0, len(out)-1; i < j; i, j = i+1, j-1 {
				out[i], out[j] = out[j], out[i]
			}
		case 2:
			if len(out) > 1 {
				out = append(out[1:], out[0])
			}
		}
		return out
	}
	fs.Hook = nil
	if fi >= 0 {
		fs.Hook = func(index int, k, p string, data []byte) *envfs.Fault {
			if index != fi {
				return nil
			}
			res.reached = true
			if k == "read" && kind == 1 {
				return &envfs.Fault{Err: envfs.ErrInjected, Partial: envfs.HalfRead, Kind: "half-read"}
			}
			if kind == 0 || k != "write" {
				return &envfs.Fault{Err: envfs.ErrInjected, Partial: -1, Kind: "error"}
			}
			cuts := c18Cuts(data)
			c := cuts[(kind-1)%len(cuts)]
			return &envfs.Fault{Err: envfs.ErrInjected, Partial: c, Kind: fmt.Sprintf("torn@%d", c)}
		}
	}
	index := w.index
	if alt := strings.TrimSuffix(w.index, ".par2") + ".vol00+02.par2"; w.fmtName == "p2" {
		if _, ok := fs.Files[alt]; ok {
			index = alt
		}
	}
	res.pi = core.Catch(func() {
		switch {
		case w.fmtName == "p2" && op == "create":
			res.err = par2.VerifCreate(fs, w.index, w.paths, par2.CreateOptions{SliceByteCount: c18P2Cfgs[w.world].Slice, NumParityShards: c18P2Cfgs[w.world].Blocks, NumGoroutines: 1})
		case w.fmtName == "p2" && op == "verify":
			r, e := par2.VerifVerify(fs, index, par2.VerifyOptions{NumGoroutines: 1})
			res.err, res.counts = e, fmt.Sprintf("%+v", r)
		case w.fmtName == "p2":
			r, e := par2.VerifRepair(fs, index, par2.RepairOptions{NumGoroutines: 1, DoubleCheck: op == "repairdc"})
			res.err, res.paths = e, r.RepairedPaths
		case op == "create":
			res.err = par1.VerifCreate(fs, w.index, w.paths, par1.CreateOptions{NumParityFiles: c18P1Cfgs[w.world].Volumes})
		case op == "verify":
			r, e := par1.VerifVerify(fs, w.index, par1.VerifyOptions{VerifyAllData: true})
			res.err, res.counts = e, fmt.Sprintf("%+v", r)
		default:
			r, e := par1.VerifRepair(fs, w.index, par1.RepairOptions{DoubleCheck: op == "repairdc"})
			res.err, res.paths = e, r.RepairedPaths
		}
	})
	res.log = append([]envfs.Op{}, fs.Log...)
	fs.Hook = nil
	fs.ResetLog()
	return res
}

// withinCapacity reports whether the reference says a clean Repair on fs
// must succeed.
func (w *c18World) withinCapacity(fs *envfs.FS) bool {
	if w.fmtName == "p2" {
		t := w.p2.Truth(fs)
		return t.Scan.OverlapFree && t.K <= t.N && !t.AnySingular
	}
	t := w.p1.Truth(fs)
	return t.UnusableData <= t.UsableParity && !t.Singular && !t.VolDamaged
}

func c18Gen(g *core.Gen) {
	// the same faults on a Decoder object that lives on: an interrupted Repair or a load whose k-th read fails must be
	// reported, must not make the object claim more than is true, and a retry on that object must not report success
	// for files that are not restored
	decDepth := 5
	if g.Thorough() {
		decDepth = 6
	}
	for _, f := range []string{"p2", "p1"} {
		for _, a := range dpFaultAlphabet {
			for _, b := range dpFaultAlphabet {
				g.Emit(&c18Case{Dec: &decProtoCase{Fmt: f, Prefix: []int{a, b}, Depth: decDepth, Fault: true}})
				if f == "p1" {
					// the same on a reference-written PAR1 set that lists files not saved in the parity set
					g.Emit(&c18Case{Dec: &decProtoCase{Fmt: f, Prefix: []int{a, b}, Depth: decDepth, Fault: true, Ref: true}})
				}
			}
		}
	}
	// and on an Encoder object: a torn Write or a failed load, then the same calls again on that object ("once the fault
	// is gone, rerunning the operation completes as if the fault had never occurred")
	for _, f := range []string{"p2", "p1"} {
		for _, a := range epFaultAlphabet {
			for _, b := range epFaultAlphabet {
				g.Emit(&c18Case{Enc: &encProtoCase{Kind: "encproto", Fmt: f, Prefix: []int{a, b}, Depth: decDepth + 1, Fault: true}})
			}
		}
	}
	c18GenManyVolumes(g)
	// the reference-written PAR1 set with entries that are not saved in the parity set: a fault at every call of Verify /
	// Repair (whatever is read on account of those entries is a read like any other)
	{
		w := c18NewWorld("p1", c18RefWorld, g.Seed)
		for _, op := range []string{"verify", "repair", "repairdc"} {
			for _, st := range []string{"intact", "missing", "changed"} {
				fs := w.initial(op, st, g.Seed)
				base := w.run(fs, op, 0, -1, 0)
				for i := range base.log {
					kinds := 1
					if base.log[i].Kind == "write" {
						kinds = 1 + len(c18Cuts(base.log[i].Data))
					}
					if base.log[i].Kind == "read" {
						kinds = 2
					}
					for k := 0; k < kinds; k++ {
						g.Emit(&c18Case{Fmt: "p1", Op: op, State: st, I: i, Kind: k, World: c18RefWorld})
					}
				}
			}
		}
	}
	states := []string{"intact", "missing", "changed", "shifted", "beyond", "volmissing", "two", "lookalike", "volnamed"}
	worlds := []int{0, 2}
	if g.Thorough() {
		worlds = []int{0, 1, 2}
	}
	for _, world := range worlds {
		for _, f := range []string{"p2", "p1"} {
			if world == 2 && f == "p1" {
				continue // PAR1 has no sub-directories
			}
			w := c18NewWorld(f, world, g.Seed)
			for _, op := range []string{"create", "verify", "repair", "repairdc"} {
				for _, st := range states {
					if op == "create" && st != "intact" && st != "changed" {
						continue
					}
					if (st == "lookalike" || st == "volnamed") && f == "p1" {
						continue // PAR1 volumes are found by their fixed names
					}
					norders := 3
					if world == 1 {
						norders = 6
					}
					for order := 0; order < norders; order++ {
						if f == "p1" && order > 0 {
							continue // PAR1 has no directory listing
						}
						fs := w.initial(op, st, g.Seed)
						base := w.run(fs, op, order, -1, 0)
						if order == 0 && world != 1 {
							for k := range c18DirCandidates(w, w.initial(op, st, g.Seed), base) {
								g.Emit(&c18Case{Fmt: f, Op: op, State: st, DirAt: k + 1, Kind: 0, World: world})
								g.Emit(&c18Case{Fmt: f, Op: op, State: st, DirAt: k + 1, Kind: 1, World: world})
							}
						}
						n := len(base.log)
						for i := 0; i < n; i++ {
							kinds := 1
							if base.log[i].Kind == "write" {
								kinds = 1 + len(c18Cuts(base.log[i].Data))
							}
							if base.log[i].Kind == "read" {
								kinds = 2 // error without data; error together with the first half of the file
							}
							for k := 0; k < kinds; k++ {
								g.Emit(&c18Case{Fmt: f, Op: op, State: st, Order: order, I: i, Kind: k, Pairs: (g.Thorough() && (world == 0 || order == 0)) || order == 0, World: world})
							}
						}
					}
				}
			}
		}
	}
}

// c18GenManyVolumes: PAR1 Create with 99 and 100 volumes (the last two-digit volume name and one beyond it): a fault
// at every write, of every kind; the limit of the naming scheme is a place where a loop ends early
func c18GenManyVolumes(g *core.Gen) {
	for _, world := range []int{3, 4} {
		w := c18NewWorld("p1", world, g.Seed)
		fs := w.initial("create", "intact", g.Seed)
		base := w.run(fs, "create", 0, -1, 0)
		for i := range base.log {
			kinds := 1
			if base.log[i].Kind == "write" {
				kinds = 1 + len(c18Cuts(base.log[i].Data))
			}
			if base.log[i].Kind == "read" {
				kinds = 2
			}
			if kinds > 2 && i > 3 && i < len(base.log)-4 && !g.Thorough() {
				kinds = 2 // quick tier: every cut position only for the first and last volumes, error + one torn write for the others
			}
			for k := 0; k < kinds; k++ {
				g.Emit(&c18Case{Fmt: "p1", Op: "create", State: "intact", Order: 0, I: i, Kind: k, World: world})
			}
		}
	}
}

func c18Run(ci interface{}, r *core.Rec) {
	c := ci.(*c18Case)
	if c.Dec != nil {
		decProtoRun(c.Dec, r, func(d *decProtoCase) interface{} { return &c18Case{Dec: d} })
		return
	}
	if c.Enc != nil {
		encProtoRun(c.Enc, r, func(e *encProtoCase) interface{} { return &c18Case{Enc: e} })
		return
	}
	w := c18NewWorld(c.Fmt, c.World, r.Seed)
	viol := func(sig, f string, a ...interface{}) { r.Violatef(sig, f, a...) }

	// never-faulted baseline
	fsB := w.initial(c.Op, c.State, r.Seed)
	base := w.run(fsB, c.Op, c.Order, -1, 0)
	baseDir := fsB.Snapshot()
	if base.pi != nil {
		viol("baseline-panic:"+base.pi.Frame, "%s", base.pi.Value)
		return
	}

	checkFaulted := func(tag string, before map[string][]byte, fs *envfs.FS, res c18Result) bool {
		if res.pi != nil {
			viol("panic-under-fault:"+res.pi.Frame, "%s %s\n%s", tag, res.pi.Value, res.pi.Stack)
			return false
		}
		if !res.reached {
			return true
		}
		if res.err == nil {
			viol("fault-swallowed", "%s: an injected I/O failure did not make %s return an error (log: %s)", tag, c.Op, c18LogString(res.log))
		}
		// no success reported for a failed write; untouched files unchanged
		failed := map[string]bool{}
		okw := map[string]bool{}
		for _, op := range res.log {
			if op.Kind == "write" {
				if op.Err != "" {
					failed[path.Clean(op.Path)] = true
				} else {
					okw[path.Clean(op.Path)] = true
				}
			}
		}
		for _, p := range res.paths {
			if failed[path.Clean(p)] && !okw[path.Clean(p)] {
				viol("failed-write-reported-as-repaired", "%s: %q is listed in the result although its write failed", tag, p)
			}
		}
		for _, d := range envfs.Diff(before, fs.Snapshot()) {
			if !failed[d] && !okw[d] {
				viol("fault-altered-unwritten-file", "%s: %q changed although it was not being written", tag, d)
			}
		}
		// C02's write oracle also holds when Repair fails: every completed write carries exactly the
		// protected bytes and is listed in the (partial) result
		if c.Op == "repair" || c.Op == "repairdc" {
			orig := map[string][]byte{}
			for i, p := range w.paths {
				orig[p] = w.data[i]
			}
			for _, b := range scen.CheckWritesGeneric(orig, res.log, res.paths, before, fs.Snapshot()) {
				if b[0] == "repair-wrote-wrong-bytes" {
					continue // a torn write is recorded with the full intended data; judged above
				}
				viol(b[0]+"(under-fault)", "%s: %s", tag, b[1])
			}
		}
		return true
	}

	finalCheck := func(tag string, fs *envfs.FS) {
		// fault is gone: rerun must complete as if it never occurred
		capOK := true
		if c.Op == "repair" || c.Op == "repairdc" {
			capOK = w.withinCapacity(fs)
			if !capOK && base.err == nil {
				r.Count("torn_write_exceeded_capacity", 1)
			}
		}
		clean := w.run(fs, c.Op, c.Order, -1, 0)
		r.AddTransitions(1)
		if clean.pi != nil {
			viol("panic-after-fault:"+clean.pi.Frame, "%s %s", tag, clean.pi.Value)
			return
		}
		switch c.Op {
		case "verify":
			if (clean.err == nil) != (base.err == nil) || clean.counts != base.counts {
				viol("rerun-differs-from-unfaulted-run", "%s: Verify after the fault: %v %s; never-faulted: %v %s", tag, clean.err, clean.counts, base.err, base.counts)
			}
		case "create":
			if (clean.err == nil) != (base.err == nil) {
				viol("rerun-differs-from-unfaulted-run", "%s: Create after the fault: %v; never-faulted: %v", tag, clean.err, base.err)
			} else if d := envfs.Diff(baseDir, fs.Snapshot()); len(d) > 0 {
				viol("rerun-final-directory-differs", "%s: after re-running Create the directory differs from the never-faulted one in %v", tag, d)
			}
		default:
			if base.err == nil && capOK {
				if clean.err != nil {
					viol("rerun-failed-after-fault:"+errClass(clean.err), "%s: the never-faulted Repair succeeds, the set is still within capacity, but the re-run returned %v", tag, clean.err)
				} else if d := envfs.Diff(baseDir, fs.Snapshot()); len(d) > 0 {
					viol("rerun-final-directory-differs", "%s: after the re-run the directory differs from the never-faulted one in %v", tag, d)
				}
			}
			if base.err != nil && clean.err == nil {
				// allowed only if everything is original now
				ok := true
				for i, p := range w.paths {
					if b, has := fs.Get(p); !has || !bytes.Equal(b, w.data[i]) {
						ok = false
					}
				}
				if !ok {
					viol("rerun-succeeded-but-files-differ", "%s: re-run returned nil but files are not original", tag)
				}
			}
		}
	}

	if c.DirAt > 0 {
		// a directory where the operation expects a file (or nothing): reading or writing it fails, and that is not
		// "the file does not exist"
		fsD := w.initial(c.Op, c.State, r.Seed)
		cands := c18DirCandidates(w, fsD, base)
		if c.DirAt > len(cands) {
			r.Note(fmt.Sprintf("%s %s %s: only %d paths", c.Fmt, c.Op, c.State, len(cands)))
			return
		}
		p := cands[c.DirAt-1]
		prev, had := fsD.Get(p)
		fsD.Del(p)
		if c.Kind == 0 {
			if fsD.Dirs == nil {
				fsD.Dirs = map[string]bool{}
			}
			fsD.Dirs[p] = true
		} else {
			fsD.Put(p+"/inner.txt", []byte("inside the directory"))
		}
		beforeD := fsD.Snapshot()
		rd := w.run(fsD, c.Op, c.Order, -1, 0)
		for _, o := range rd.log {
			if path.Clean(o.Path) == p && o.Err != "" {
				rd.reached = true
			}
		}
		r.AddStates(1)
		r.AddTransitions(2)
		tag := fmt.Sprintf("directory at %s (%v)", p, []string{"empty", "holding a file"}[c.Kind])
		if !checkFaulted(tag, beforeD, fsD, rd) {
			return
		}
		if rd.reached {
			r.NontrivialCase()
		} else {
			r.Count("directory_not_reached", 1)
		}
		r.Outcome(fmt.Sprintf("dir %s %s %s", c.Op, errClass(rd.err), c18LogString(rd.log)))
		// the directory goes away, what was there before comes back
		delete(fsD.Dirs, p)
		fsD.Del(p + "/inner.txt")
		if had {
			fsD.Put(p, prev)
		}
		finalCheck("after the "+tag+" was removed", fsD)
		return
	}
	fs1 := w.initial(c.Op, c.State, r.Seed)
	before1 := fs1.Snapshot()
	r1 := w.run(fs1, c.Op, c.Order, c.I, c.Kind)
	r.AddStates(1)
	r.AddTransitions(2)
	if !checkFaulted("fault#1", before1, fs1, r1) {
		return
	}
	if r1.reached {
		r.NontrivialCase()
	} else {
		r.Count("fault_not_reached", 1)
	}
	r.Outcome(fmt.Sprintf("%s %s %s", c.Op, errClass(r1.err), c18LogString(r1.log)))
	after1 := fs1.Snapshot()
	finalCheck("after fault#1", fs1.Clone())

	if c.Pairs {
		// second fault in the re-run, every call index and kind
		probe := fs1.Clone()
		pr := w.run(probe, c.Op, c.Order, -1, 0)
		for j := 0; j < len(pr.log); j++ {
			kinds := 1
			if pr.log[j].Kind == "write" {
				kinds = 1 + len(c18Cuts(pr.log[j].Data))
			}
			if pr.log[j].Kind == "read" {
				kinds = 2
			}
			for k := 0; k < kinds; k++ {
				fs2 := envfs.New()
				for p, b := range after1 {
					fs2.Put(p, b)
				}
				before2 := fs2.Snapshot()
				r2 := w.run(fs2, c.Op, c.Order, j, k)
				r.AddStates(1)
				r.AddTransitions(1)
				tag := fmt.Sprintf("fault#2 at call %d kind %d (after fault#1)", j, k)
				if !checkFaulted(tag, before2, fs2, r2) {
					continue
				}
				if r2.reached {
					r.Nontrivial(fmt.Sprintf("%v/%d/%d", c, j, k))
				}
				finalCheck(tag, fs2)
			}
		}
	}
}

// c18DirCandidates: every file of the starting directory, every other path the undisturbed run reads or writes (of those
// that do not exist, only the first two and the last one: PAR1 probes up to 99 volume names), and for PAR2 one further
// name that matches the recovery-file pattern.
func c18DirCandidates(w *c18World, fs *envfs.FS, base c18Result) []string {
	out := fs.Paths()
	have := map[string]bool{}
	for _, p := range out {
		have[p] = true
	}
	var rest []string
	for _, o := range base.log {
		if p := path.Clean(o.Path); (o.Kind == "read" || o.Kind == "write") && !have[p] {
			have[p] = true
			rest = append(rest, p)
		}
	}
	sort.Strings(rest)
	if len(rest) > 3 {
		rest = append(rest[:2:2], rest[len(rest)-1])
	}
	out = append(out, rest...)
	if w.fmtName == "p2" {
		out = append(out, strings.TrimSuffix(w.index, ".par2")+".zzz.par2")
	}
	return out
}

func c18LogString(log []envfs.Op) string {
	s := ""
	for _, o := range log {
		e := ""
		if o.Err != "" {
			e = "!"
			if o.Fault != "" {
				e = "!" + o.Fault
			}
		}
		s += fmt.Sprintf("%s(%s)%s ", o.Kind[:1], path.Base(o.Path), e)
	}
	return s
}

func init() {
	core.Register(&core.Prop{
		ID:    "C18",
		Level: "fault_enumeration",
		Rule: "(plus the error-path alphabet of the decoder protocol search - see C14 - on one Decoder object per sequence: Repair with its 1st / 2nd write torn, loads whose 1st / 2nd / 3rd read fails, then counts / Repair retries on the same object; and the error-path alphabet of the encoder protocol search - see C05 / C10 - on one Encoder object per sequence: Write with its 1st / 2nd file write torn, loads whose 1st / 2nd read dies half-way, then the same calls again) a PAR1 set from the reference writer that lists files not saved in the parity set (fault at every call of Verify / Repair); a directory (empty / holding a file) in place of every file the operation reads or writes, of a file that is missing, and under one further name matching the recovery-file pattern, then taken away again; environment enumeration on the owned filesystem: {Create, Verify, Repair, Repair+double-check} x {PAR1, PAR2} x archive state {intact, one file missing, one changed, one shifted, beyond capacity, volume missing + damage, two damaged, recovery data under look-alike names (a renamed volume whose blocks are needed + another set's index), an index file whose own name looks like a recovery file's} x listing order {sorted, reversed, rotated}; thorough adds a larger world (3 files, 7 blocks in 3 recovery files; PAR1 4 files, 3 volumes) with all 6 listing orders; a fault at EACH I/O call index of the never-faulted run, of each kind (error without effect; for reads additionally the error together with the first half of the file; for writes additionally torn at byte 0, 1, middle, len-1 and packet/field boundaries), and for each such fault EVERY second fault in the re-run (pairs), followed by a fault-free re-run. " +
			"Oracle: a reached fault => non-nil error; a path whose write failed is not reported repaired; only write targets change; the fault-free re-run succeeds exactly like the never-faulted run and ends in the same directory whenever the reference says the (possibly torn) directory is still within capacity. non-trivial = the injected fault was reached",
		Assumptions: []string{"faults are injected at the fileIO seam (the only I/O gopar performs)", "a torn write leaves a prefix of the data in the target file"},
		NewCase:     func() interface{} { return &c18Case{} },
		Gen:         c18Gen,
		Run:         c18Run,
	})
}
